//go:build verif

package tikvrpc

import (
	"context"
	"fmt"
	"reflect"
	"strings"
	"testing"

	"github.com/pingcap/kvproto/pkg/errorpb"
	"github.com/pingcap/kvproto/pkg/kvrpcpb"
	"github.com/pingcap/kvproto/pkg/metapb"
	"github.com/pingcap/kvproto/pkg/tikvpb"
	"github.com/tikv/client-go/v2/verifh/vcat"
	"github.com/tikv/client-go/v2/verifh/vrep"
)

func c15Label(c *vcat.Cmd) string {
	if c.Str != c15UnknownStr {
		return c.Str
	}
	return c.Name
}

func c15Safely(f func()) (p interface{}) {
	defer func() { p = recover() }()
	f()
	return nil
}

func c15FilledReq(c *vcat.Cmd, tag string) interface{} {
	msg := reflect.New(c.Req.Elem()).Interface()
	(&vcat.Filler{Tag: tag, Bool: true, Skip: func(owner, name string, ft reflect.Type) bool {
		// the context is what AttachContext sets
		return ft == reflect.TypeOf((*kvrpcpb.Context)(nil))
	}}).Fill(msg)
	return msg
}

func c15Ctx(i uint64) kvrpcpb.Context {
	return kvrpcpb.Context{RegionId: 1000 + i, RegionEpoch: &metapb.RegionEpoch{ConfVer: i, Version: i + 1}, Peer: &metapb.Peer{Id: i, StoreId: i + 2},
		ApiVersion: kvrpcpb.APIVersion_V2, Keyspace: &kvrpcpb.Context_KeyspaceId{KeyspaceId: uint32(i) + 5}, ClusterId: 77 + i,
		ResourceGroupTag: []byte(fmt.Sprintf("tag%d", i)), RequestSource: fmt.Sprintf("src%d", i), TaskId: i + 9}
}

// oneofWrappers maps the payload type of each oneof case of a batch entry to
// the wrapper type ("…_Request_Get" holding *GetRequest).
func c15OneofWrappers(entry interface{}) map[reflect.Type]reflect.Type {
	out := map[reflect.Type]reflect.Type{}
	m := reflect.ValueOf(entry).MethodByName("XXX_OneofWrappers")
	if !m.IsValid() {
		return out
	}
	for _, w := range m.Call(nil)[0].Interface().([]interface{}) {
		wt := reflect.TypeOf(w) // pointer to wrapper struct
		if wt.Elem().NumField() == 1 {
			out[wt.Elem().Field(0).Type] = wt
		}
	}
	return out
}

func c15WrapperSuffix(t reflect.Type) string {
	n := t.Elem().Name()
	return n[strings.LastIndex(n, "_")+1:]
}

func TestVerifC15Tikvrpc(t *testing.T) {
	r := vrep.New("C15", "c15-tikvrpc",
		"per command type of the reflected catalogue (CmdType value space x go/parser scan of tikvrpc.go; request type = the *Request accessor type all of AttachContext/ToBatchCommandsRequest/GenRegionErrorResp/CallRPC/CallDebugRPC/GetSize/GetStartTS take without a type-assertion panic; response type = reply object of the generated gRPC client): (1) AttachContext on a request whose message has a context field returns true and message.Context and Request.Context read back equal (first and repeated attach); (2) GenRegionErrorResp for a command whose response message can carry a region error yields that response type and Response.GetRegionError() returns the injected error; (3) ToBatchCommandsRequest -> marshal -> server-side unwrap gives the same message, the response wrapper of the same oneof case -> marshal -> FromBatchCommandsResponse gives the same response; nil results are stable; distinct = (command, clause)")
	defer r.Finish(t)
	cat, err := c15Enumerate()
	if err != nil {
		r.Inconc("catalogue: %v", err)
		return
	}
	r.Count("cmd_types", len(cat.Cmds))
	r.Count("cmd_types_from_parser", cat.ParserCount)
	r.Count("cmd_types_from_string", cat.StringCount)
	r.Count("request_accessors", len(cat.Accessors))
	reqWrappers := c15OneofWrappers(&tikvpb.BatchCommandsRequest_Request{})
	respWrappers := c15OneofWrappers(&tikvpb.BatchCommandsResponse_Response{})
	r.Count("wire_batch_request_cases", len(reqWrappers))
	r.Count("wire_batch_response_cases", len(respWrappers))
	cc, _ := cat.Conn.Dial()
	client := tikvpb.NewTikvClient(cc)
	table := map[string]any{}
	for _, c := range cat.Cmds {
		label := c15Label(c)
		if c.Req == nil {
			r.Violate("catalogue:no-unique-request-type:"+label,
				fmt.Sprintf("command %s (%d): the tikvrpc functions do not agree on one request message type (untyped=%v candidates=%v)", c.Name, c.Value, c.Untyped, c.Cands),
				map[string]any{"cmd": c.Name, "value": c.Value})
			continue
		}
		cmd := CmdType(c.Value)
		respType := c.Resp
		if respType == nil {
			// commands answered without touching the connection (CmdEmpty)
			if resp, err := CallRPC(context.Background(), client, &Request{Type: cmd, Req: reflect.New(c.Req.Elem()).Interface()}); err == nil && resp != nil && resp.Resp != nil {
				respType = reflect.TypeOf(resp.Resp)
			}
		}
		row := map[string]any{"req": vcat.TypeName(c.Req)}
		if respType != nil {
			row["resp"] = vcat.TypeName(respType)
		}

		// ---------------- (1) context attach + read back
		_, hasCtx := c.Req.Elem().FieldByName("Context")
		readCtx := func(req *Request) *kvrpcpb.Context {
			f := reflect.ValueOf(req.Req).Elem().FieldByName("Context")
			if !f.IsValid() || f.IsNil() {
				return nil
			}
			return f.Interface().(*kvrpcpb.Context)
		}
		req := &Request{Type: cmd, Req: c15FilledReq(c, "a")}
		payload := vcat.Wire(req.Req)
		for round := uint64(1); round <= 3; round++ {
			ctx := c15Ctx(round)
			var ok bool
			r.Eval(1)
			r.Distinct(fmt.Sprintf("attach|%s|%d", label, round))
			if p := c15Safely(func() { ok = AttachContext(req, ctx) }); p != nil {
				r.Violate("attach:"+label+":panic", fmt.Sprintf("AttachContext(%s) panicked on its own request type %s: %v", label, vcat.TypeName(c.Req), p), nil)
				break
			}
			row["attach"] = ok
			if !hasCtx {
				r.Count("attach_cmds_without_context_field", 1)
				if ok && !reflect.DeepEqual(req.Context, ctx) {
					r.Violate("attach:"+label+":request-context", fmt.Sprintf("AttachContext(%s) reports success but Request.Context is %v", label, &req.Context), nil)
				}
				continue
			}
			if !ok {
				r.Violate("attach:"+label+":rejected",
					fmt.Sprintf("AttachContext(%s) returns false although %s has a context field: the context (region, peer, api version, keyspace id, cluster id ...) never reaches the message that goes on the wire", label, vcat.TypeName(c.Req)),
					map[string]any{"cmd": label, "request": vcat.TypeName(c.Req)})
				break
			}
			got := readCtx(req)
			if got == nil || vcat.Wire(got) != vcat.Wire(&ctx) {
				r.Violate("attach:"+label+":readback", fmt.Sprintf("AttachContext(%s), attach #%d: message.Context reads back as %v, want %v", label, round, got, &ctx), map[string]any{"cmd": label, "round": round})
			}
			if vcat.Wire(&req.Context) != vcat.Wire(&ctx) {
				r.Violate("attach:"+label+":request-context", fmt.Sprintf("AttachContext(%s), attach #%d: Request.Context is %v, want %v", label, round, &req.Context, &ctx), nil)
			}
			// everything but the context is still the same command
			cp := vcat.Clone(req.Req)
			reflect.ValueOf(cp).Elem().FieldByName("Context").Set(reflect.Zero(reflect.TypeOf((*kvrpcpb.Context)(nil))))
			if vcat.Wire(cp) != payload {
				r.Violate("attach:"+label+":payload-changed", fmt.Sprintf("AttachContext(%s), attach #%d changed the request beyond its context", label, round), nil)
			}
		}

		// ---------------- (2) region error synthesis + read back
		injected := &errorpb.Error{Message: "injected", NotLeader: &errorpb.NotLeader{RegionId: 42, Leader: &metapb.Peer{Id: 4, StoreId: 2}},
			EpochNotMatch: &errorpb.EpochNotMatch{CurrentRegions: []*metapb.Region{{Id: 9, StartKey: []byte("a"), EndKey: []byte("b")}}}}
		var canCarry bool
		if respType != nil {
			_, canCarry = respType.MethodByName("GetRegionError")
		}
		var gen *Response
		var gerr error
		r.Eval(1)
		r.Distinct("generr|" + label)
		if p := c15Safely(func() { gen, gerr = GenRegionErrorResp(&Request{Type: cmd, Req: c15FilledReq(c, "g")}, injected) }); p != nil {
			r.Violate("generr:"+label+":panic", fmt.Sprintf("GenRegionErrorResp(%s) panicked: %v", label, p), nil)
		} else {
			row["gen_region_error"] = gerr == nil
			switch {
			case gerr != nil && canCarry:
				r.Violate("generr:"+label+":rejected",
					fmt.Sprintf("GenRegionErrorResp(%s) fails (%v) although the response message %s has a region_error field", label, gerr, vcat.TypeName(respType)),
					map[string]any{"cmd": label, "response": vcat.TypeName(respType)})
			case gerr != nil:
				r.Count("generr_cmds_without_region_error_field", 1)
			default:
				var back *errorpb.Error
				var berr error
				if p := c15Safely(func() { back, berr = gen.GetRegionError() }); p != nil {
					r.Violate("generr:"+label+":readback-panic", fmt.Sprintf("GetRegionError on the response generated for %s panicked: %v", label, p), nil)
				} else if canCarry {
					// matching type: the message itself, or the stream wrapper embedding it
					match := gen.Resp != nil && reflect.TypeOf(gen.Resp) == respType
					if !match && gen.Resp != nil && c.RespStream {
						rv := reflect.ValueOf(gen.Resp)
						if rv.Kind() == reflect.Ptr && rv.Elem().Kind() == reflect.Struct {
							for i := 0; i < rv.Elem().NumField(); i++ {
								if rv.Elem().Field(i).Type() == respType {
									match = true
								}
							}
						}
					}
					if !match {
						r.Violate("generr:"+label+":type", fmt.Sprintf("GenRegionErrorResp(%s) returns a %T, the command's response type is %s", label, gen.Resp, vcat.TypeName(respType)), nil)
					}
					if berr != nil || back == nil || vcat.Wire(back) != vcat.Wire(injected) {
						r.Violate("generr:"+label+":readback", fmt.Sprintf("GenRegionErrorResp(%s): GetRegionError() reads back (%v, %v), want the injected error", label, back, berr), nil)
					} else {
						r.Count("generr_read_back", 1)
					}
				} else if berr == nil && back != nil && vcat.Wire(back) != vcat.Wire(injected) {
					r.Violate("generr:"+label+":readback", fmt.Sprintf("GenRegionErrorResp(%s): GetRegionError() reads back a different error %v", label, back), nil)
				}
			}
		}

		// ---------------- (3) batch round trip
		breq := &Request{Type: cmd, Req: c15FilledReq(c, "b")}
		AttachContext(breq, c15Ctx(7))
		AttachContext(breq, c15Ctx(8))
		var entry *tikvpb.BatchCommandsRequest_Request
		r.Eval(1)
		r.Distinct("batch|" + label)
		if p := c15Safely(func() { entry = breq.ToBatchCommandsRequest() }); p != nil {
			r.Violate("batch:"+label+":panic", fmt.Sprintf("ToBatchCommandsRequest(%s) panicked: %v", label, p), nil)
			continue
		}
		row["batch"] = entry != nil
		_, onWire := reqWrappers[c.Req]
		if entry == nil {
			r.Count("non_batchable_cmds", 1)
			if onWire {
				r.Count("wire_batchable_but_sent_unary", 1)
			}
			// nil must be a property of the command type, not of the request's state
			for i := 0; i < 3; i++ {
				other := &Request{Type: cmd, Req: c15FilledReq(c, fmt.Sprint("n", i))}
				if i > 0 {
					AttachContext(other, c15Ctx(uint64(i)))
				}
				if other.ToBatchCommandsRequest() != nil {
					r.Violate("batch:"+label+":unstable-nil", fmt.Sprintf("ToBatchCommandsRequest(%s) is nil for one request and non-nil for another", label), nil)
				}
			}
			table[label] = row
			continue
		}
		r.Count("batchable_cmds", 1)
		wireBytes, merr := (&tikvpb.BatchCommandsRequest{Requests: []*tikvpb.BatchCommandsRequest_Request{entry}, RequestIds: []uint64{99}}).Marshal()
		var srv tikvpb.BatchCommandsRequest
		if merr == nil {
			merr = srv.Unmarshal(wireBytes)
		}
		if merr != nil || len(srv.Requests) != 1 || srv.Requests[0].Cmd == nil {
			r.Violate("batch:"+label+":wire", fmt.Sprintf("batched form of %s does not survive the wire: %v", label, merr), nil)
			continue
		}
		wrapper := reflect.ValueOf(srv.Requests[0].Cmd) // *BatchCommandsRequest_Request_X
		inner := wrapper.Elem().Field(0).Interface()
		if reflect.TypeOf(inner) != c.Req || vcat.Wire(inner) != vcat.Wire(breq.Req) {
			r.Violate("batch:"+label+":request-changed", fmt.Sprintf("the store unwraps the batched %s as %T %v, sent was %v", label, inner, inner, breq.Req), map[string]any{"cmd": label})
			continue
		}
		reqCase := c15WrapperSuffix(wrapper.Type())
		if respType == nil {
			r.Violate("batch:"+label+":no-response-type", fmt.Sprintf("%s is batched but no response type is known for it", label), nil)
			continue
		}
		// the store answers with the same oneof case
		var respWrapper reflect.Type
		for payload, w := range respWrappers {
			if c15WrapperSuffix(w) == reqCase {
				respWrapper = w
				if payload != respType {
					r.Violate("batch:"+label+":case-type", fmt.Sprintf("batch case %s answers with %s but the unary response type of %s is %s", reqCase, vcat.TypeName(payload), label, vcat.TypeName(respType)), nil)
				}
			}
		}
		if respWrapper == nil {
			r.Violate("batch:"+label+":no-response-case", fmt.Sprintf("%s is sent as batch case %s but the batch response has no such case", label, reqCase), nil)
			continue
		}
		respMsg := reflect.New(respWrapper.Elem().Field(0).Type.Elem()).Interface()
		(&vcat.Filler{Tag: "r", Rep: 1}).Fill(respMsg)
		wv := reflect.New(respWrapper.Elem())
		wv.Elem().Field(0).Set(reflect.ValueOf(respMsg))
		bresp := &tikvpb.BatchCommandsResponse_Response{}
		reflect.ValueOf(bresp).Elem().FieldByName("Cmd").Set(wv)
		rb, merr := (&tikvpb.BatchCommandsResponse{Responses: []*tikvpb.BatchCommandsResponse_Response{bresp}, RequestIds: []uint64{99}}).Marshal()
		var cli tikvpb.BatchCommandsResponse
		if merr == nil {
			merr = cli.Unmarshal(rb)
		}
		if merr != nil || len(cli.Responses) != 1 {
			r.Violate("batch:"+label+":response-wire", fmt.Sprintf("batched response of %s does not survive the wire: %v", label, merr), nil)
			continue
		}
		var back *Response
		var berr error
		if p := c15Safely(func() { back, berr = FromBatchCommandsResponse(cli.Responses[0]) }); p != nil {
			r.Violate("batch:"+label+":response-unreadable", fmt.Sprintf("%s is sent batched (case %s) but FromBatchCommandsResponse panics on its response: %v", label, reqCase, p), map[string]any{"cmd": label, "case": reqCase})
			continue
		}
		if berr != nil || back == nil || back.Resp == nil || reflect.TypeOf(back.Resp) != reflect.TypeOf(respMsg) || vcat.Wire(back.Resp) != vcat.Wire(respMsg) {
			r.Violate("batch:"+label+":response-changed", fmt.Sprintf("FromBatchCommandsResponse(%s) gives (%v, %v), sent was %T", label, back, berr, respMsg), nil)
			continue
		}
		r.Count("batch_round_trips", 1)
		table[label] = row
		if r.SampleN() < 3 && (label == "Prewrite" || label == "Cop" || label == "BroadcastTxnStatus") {
			r.Sample(map[string]any{"cmd": label, "batch_case": reqCase, "request_type": vcat.TypeName(c.Req), "response_type": vcat.TypeName(respType), "wire_len": len(wireBytes)})
		}
	}
	// response cases the client can read but never sends batched
	sent := map[string]bool{}
	for _, c := range cat.Cmds {
		if c.Req != nil {
			if e := (&Request{Type: CmdType(c.Value), Req: reflect.New(c.Req.Elem()).Interface()}).ToBatchCommandsRequest(); e != nil && e.Cmd != nil {
				sent[c15WrapperSuffix(reflect.TypeOf(e.Cmd))] = true
			}
		}
	}
	for payload, w := range respWrappers {
		bresp := &tikvpb.BatchCommandsResponse_Response{}
		wv := reflect.New(w.Elem())
		wv.Elem().Field(0).Set(reflect.New(payload.Elem()))
		reflect.ValueOf(bresp).Elem().FieldByName("Cmd").Set(wv)
		readable := c15Safely(func() { FromBatchCommandsResponse(bresp) }) == nil
		if readable && !sent[c15WrapperSuffix(w)] {
			// not a violation of the statement (such a command simply travels unary), but on the
			// unchanged tree both directions list the same cases: a human should look
			r.Count("batch_cases_read_but_never_sent", 1)
			r.Inconc("FromBatchCommandsResponse reads batch case %s but no command type is ever sent as that case (did a command lose its batched form?)", c15WrapperSuffix(w))
		}
		if readable {
			r.Count("batch_cases_readable", 1)
		}
	}
	r.Sample(map[string]any{"catalogue": table, "only_parser": cat.OnlyParser, "only_string": cat.OnlyString})
	r.Floor("cmd_types", 40)
	r.Floor("batch_round_trips", 20)
	r.Floor("generr_read_back", 30)
}
