//go:build verif

package apicodec

// C15 — keyspace (API v2) codec: the command catalogue (by reflection) and
// the field classification shared by the request / response monitors.
//
// Catalogue: union of (a) every v in [0,1<<14) with CmdType(v).String() not
// the unknown form and (b) a go/parser scan of the CmdType constants of
// tikvrpc/tikvrpc.go of the tree under test.  Request message of a command =
// the accessor return type of *tikvrpc.Request that AttachContext,
// ToBatchCommandsRequest, GenRegionErrorResp, CallRPC, CallDebugRPC, GetSize
// and GetStartTS all take without a type-assertion panic; response message =
// the reply object the generated gRPC client allocates for it (interceptor
// on a never-connecting grpc.ClientConn).

import (
	"bytes"
	"context"
	"fmt"
	"os"
	"path/filepath"
	"reflect"
	"regexp"
	"strings"
	"sync"

	"github.com/pingcap/kvproto/pkg/debugpb"
	"github.com/pingcap/kvproto/pkg/errorpb"
	"github.com/pingcap/kvproto/pkg/keyspacepb"
	"github.com/pingcap/kvproto/pkg/kvrpcpb"
	"github.com/pingcap/kvproto/pkg/tikvpb"
	"github.com/pingcap/log"
	"github.com/tikv/client-go/v2/tikvrpc"
	"github.com/tikv/client-go/v2/util/codec"
	"github.com/tikv/client-go/v2/verifh/vcat"
	"github.com/tikv/client-go/v2/verifh/vrep"
	"go.uber.org/zap"
)

const c15UnknownStr = "Unknown"

type c15Cat struct {
	Cmds       []*vcat.Cmd
	OnlyParser []string
	OnlyString []int64
	NParser    int
	NString    int
	NAccessors int
}

var (
	c15CatOnce sync.Once
	c15CatVal  *c15Cat
	c15CatErr  error
)

func c15SourceFile() string {
	for _, p := range []string{filepath.Join("..", "..", "tikvrpc", "tikvrpc.go"), filepath.Join("..", "tikvrpc", "tikvrpc.go"), "tikvrpc.go"} {
		if _, err := os.Stat(p); err == nil {
			return p
		}
	}
	return "tikvrpc.go"
}

// c15Catalogue enumerates the command catalogue once per process.
func c15Catalogue() (*c15Cat, error) {
	c15Quiet()
	c15CatOnce.Do(func() {
		c15CatVal, c15CatErr = c15Enumerate()
	})
	return c15CatVal, c15CatErr
}

var c15QuietOnce sync.Once

// c15Quiet silences the global logger: DecodeKey logs a warning with a stack
// for every foreign key and the monitors feed thousands of them on purpose.
func c15Quiet() {
	c15QuietOnce.Do(func() { log.ReplaceGlobals(zap.NewNop(), nil) })
}

func c15Enumerate() (*c15Cat, error) {
	cat := &c15Cat{}
	consts, err := vcat.ParseConsts(c15SourceFile(), "CmdType")
	if err != nil {
		return nil, err
	}
	values := map[int64][]string{}
	for _, c := range consts {
		values[c.Value] = append(values[c.Value], c.Name)
	}
	cat.NParser = len(values)
	for v := int64(0); v < 1<<14; v++ {
		if tikvrpc.CmdType(v).String() != c15UnknownStr {
			cat.NString++
			if _, ok := values[v]; !ok {
				cat.OnlyString = append(cat.OnlyString, v)
				values[v] = []string{"value-" + tikvrpc.CmdType(v).String()}
			}
		}
	}
	for v, names := range values {
		if tikvrpc.CmdType(v).String() == c15UnknownStr {
			cat.OnlyParser = append(cat.OnlyParser, names...)
		}
	}
	accs := vcat.Accessors(reflect.TypeOf(&tikvrpc.Request{}))
	cat.NAccessors = len(accs)
	seen := map[reflect.Type]bool{}
	var types []reflect.Type
	for _, a := range accs {
		if !seen[a.Msg] {
			seen[a.Msg] = true
			types = append(types, a.Msg)
		}
	}
	conn := &vcat.FakeConn{}
	cc, err := conn.Dial()
	if err != nil {
		return nil, err
	}
	client := tikvpb.NewTikvClient(cc)
	dbg := debugpb.NewDebugClient(cc)
	probes := []vcat.Probe{
		{Name: "AttachContext", Run: func(r interface{}) bool {
			return tikvrpc.AttachContext(r.(*tikvrpc.Request), kvrpcpb.Context{RegionId: 7})
		}},
		{Name: "ToBatchCommandsRequest", Run: func(r interface{}) bool { return r.(*tikvrpc.Request).ToBatchCommandsRequest() != nil }},
		{Name: "GenRegionErrorResp", Run: func(r interface{}) bool {
			_, err := tikvrpc.GenRegionErrorResp(r.(*tikvrpc.Request), &errorpb.Error{Message: "x"})
			return err == nil
		}},
		{Name: "CallRPC", Run: func(r interface{}) bool {
			resp, err := tikvrpc.CallRPC(context.Background(), client, r.(*tikvrpc.Request))
			if err != nil {
				return false
			}
			switch s := resp.Resp.(type) {
			case *tikvrpc.CopStreamResponse:
				s.Tikv_CoprocessorStreamClient.Recv()
			case *tikvrpc.BatchCopStreamResponse:
				s.Tikv_BatchCoprocessorClient.Recv()
			case *tikvrpc.MPPStreamResponse:
				s.Tikv_EstablishMPPConnectionClient.Recv()
			}
			return true
		}},
		{Name: "CallDebugRPC", Run: func(r interface{}) bool {
			_, err := tikvrpc.CallDebugRPC(context.Background(), dbg, r.(*tikvrpc.Request))
			return err == nil
		}},
		{Name: "GetSize", Run: func(r interface{}) bool { r.(*tikvrpc.Request).GetSize(); return true }},
		{Name: "GetStartTS", Run: func(r interface{}) bool { r.(*tikvrpc.Request).GetStartTS(); return true }},
	}
	cat.Cmds = vcat.BuildCatalogue(values, func(v int64) string { return tikvrpc.CmdType(v).String() }, types,
		func(cmd int64, msg interface{}) interface{} {
			return &tikvrpc.Request{Type: tikvrpc.CmdType(cmd), Req: msg}
		}, probes, conn)
	return cat, nil
}

func c15CmdLabel(c *vcat.Cmd) string {
	if c.Str != c15UnknownStr {
		return c.Str
	}
	return c.Name
}

// c15ReportCatalogue puts the catalogue facts into a report and flags
// commands whose request type cannot be determined.
func c15ReportCatalogue(r *vrep.Report, cat *c15Cat) {
	r.Count("cmd_types", len(cat.Cmds))
	r.Count("cmd_types_from_parser", cat.NParser)
	r.Count("cmd_types_from_string", cat.NString)
	r.Count("request_accessors", cat.NAccessors)
	for _, c := range cat.Cmds {
		if c.Req == nil {
			r.Violate("catalogue:no-unique-request-type:"+c15CmdLabel(c),
				fmt.Sprintf("command %s (%d): the tikvrpc functions do not agree on one request message type (untyped=%v candidates=%v)", c.Name, c.Value, c.Untyped, c.Cands),
				map[string]any{"cmd": c.Name, "value": c.Value})
		}
	}
}

// ---------------------------------------------------------------- keyspaces

type c15KS struct {
	Name   string
	Mode   Mode
	ID     uint32
	C      Codec
	Prefix []byte // computed by the harness, independently of the codec
	End    []byte
}

func c15ModeByte(m Mode) byte {
	if m == ModeRaw {
		return 'r'
	}
	return 'x'
}

// c15Prefix is the harness's own definition of a keyspace prefix: mode byte
// followed by the 24-bit big-endian keyspace id.
func c15Prefix(m Mode, id uint32) []byte {
	return []byte{c15ModeByte(m), byte(id >> 16), byte(id >> 8), byte(id)}
}

// c15Next is the smallest byte string of the same length that is larger than
// every string having p as a prefix (big-endian increment with carry).
func c15Next(p []byte) []byte {
	e := append([]byte(nil), p...)
	for i := len(e) - 1; i >= 0; i-- {
		e[i]++
		if e[i] != 0 {
			return e
		}
	}
	return nil // all 0xFF: unbounded
}

func c15NewKS(m Mode, id uint32) (*c15KS, error) {
	c, err := NewCodecV2(m, &keyspacepb.KeyspaceMeta{Keyspace: &keyspacepb.KeyspaceMeta_Id{Id: id}, Name: fmt.Sprintf("ks%d", id)})
	if err != nil {
		return nil, err
	}
	p := c15Prefix(m, id)
	mode := "txn"
	if m == ModeRaw {
		mode = "raw"
	}
	return &c15KS{Name: fmt.Sprintf("%s/%#x", mode, id), Mode: m, ID: id, C: c, Prefix: p, End: c15Next(p)}, nil
}

func (k *c15KS) wire(logical []byte) []byte {
	return append(append([]byte(nil), k.Prefix...), logical...)
}

func c15Mem(b []byte) []byte { return codec.EncodeBytes(nil, b) }

// isKeyspaceEnd: u is a valid exclusive upper bound of the whole keyspace:
// above every key of the keyspace and not above the first key of the next one.
func (k *c15KS) isKeyspaceEnd(u []byte) bool {
	return !bytes.HasPrefix(u, k.Prefix) && bytes.Compare(u, k.Prefix) > 0 && bytes.Compare(u, k.End) <= 0
}

// ---------------------------------------------------------------- classes

// A bytes field is key-bearing by its proto field name.
var c15KeyName = regexp.MustCompile(`^(.*_)?keys?$|^primary(_lock|_key)?$|^secondaries$|^start$|^end$`)

type c15Role int

const (
	c15NonKey c15Role = iota
	c15Point
	c15Lower
	c15Upper
)

type c15Class struct {
	Role     c15Role
	Mem      bool   // memory-comparable on the wire (region descriptions)
	Excluded string // reason, "" if not excluded
}

// c15Exclusion: documented, hand-reviewed list of key-named fields the
// oracle does not judge.
type c15Exclusion struct {
	Root   string // root message type, "" = any
	Chain  string // chain prefix (dot separated, without indices)
	Reason string
}

var c15Exclusions = []c15Exclusion{
	{"kvrpcpb.SplitRegionRequest", "split_key", "deprecated in kvproto (\"Deprecated: Do not use\"), superseded by split_keys which is judged"},
	{"kvrpcpb.SplitRegionResponse", "left", "deprecated in kvproto, superseded by regions which is judged"},
	{"kvrpcpb.SplitRegionResponse", "right", "deprecated in kvproto, superseded by regions which is judged"},
	{"kvrpcpb.SplitRegionResponse", "errors", "kvproto: \"Reserved for file based transaction\" - no store fills it and no client-go code reads it"},
	{"kvrpcpb.CompactRequest", "start_key", "TiFlash-internal opaque resume token (kvproto: never constructed by the client, always copied from CompactResponse); keyspace travels in the request's own keyspace field set by setAPICtx"},
	{"kvrpcpb.CompactResponse", "compacted_start_key", "TiFlash-internal opaque resume token, only fed back into CompactRequest.start_key"},
	{"kvrpcpb.CompactResponse", "compacted_end_key", "TiFlash-internal opaque resume token, only fed back into CompactRequest.start_key"},
	{"coprocessor.BatchResponse", "retry_regions", "TiFlash batch-cop stream element; DecodeResponse documents the decision (\"There aren't range infos in BatchCop and MPPTask responses\"), the codec only ever sees the stream wrapper"},
	{"coprocessor.BatchResponse", "retry_shards", "TiFlash batch-cop stream element, same documented decision"},
	{"mpp.DispatchTaskResponse", "retry_regions", "TiFlash MPP; DecodeResponse documents the decision not to decode MPP responses"},
}

func c15Excluded(root string, chain []string) string {
	c := strings.Join(chain, ".")
	for _, e := range c15Exclusions {
		if (e.Root == "" || e.Root == root) && (c == e.Chain || strings.HasPrefix(c, e.Chain+".")) {
			return e.Reason
		}
	}
	return ""
}

func c15Classify(root string, l *vcat.Leaf) c15Class {
	var cl c15Class
	if !c15KeyName.MatchString(l.Name) {
		return cl
	}
	cl.Excluded = c15Excluded(root, l.Chain)
	cl.Role = c15Point
	has := func(n string) bool { _, ok := l.Sibling(n); return ok }
	switch l.Name {
	case "start_key":
		if has("end_key") {
			cl.Role = c15Lower
		}
	case "end_key":
		if has("start_key") {
			cl.Role = c15Upper
		}
	case "start":
		if has("end") {
			cl.Role = c15Lower
		}
	case "end":
		if has("start") {
			cl.Role = c15Upper
		}
	}
	// a reverse scan names its upper bound start_key and its lower bound end_key
	if cl.Role == c15Lower || cl.Role == c15Upper {
		if rv, ok := l.Sibling("reverse"); ok && rv.Kind() == reflect.Bool && rv.Bool() {
			if cl.Role == c15Lower {
				cl.Role = c15Upper
			} else {
				cl.Role = c15Lower
			}
		}
	}
	switch l.OwnerName() {
	case "metapb.Region":
		cl.Mem = true
	case "errorpb.KeyNotInRegion":
		cl.Mem = l.Name != "key"
	case "errorpb.BucketVersionNotMatch":
		cl.Mem = true
	}
	return cl
}

// c15ChainKey is the stable name of a field position: "mutations.key".
func c15ChainKey(l *vcat.Leaf) string { return strings.Join(l.Chain, ".") }

// c15Marker makes the filler's markers ordered inside a range pair: every
// upper-bound-named field sorts after its lower bound.
func c15FixOrder(msg interface{}) {
	vcat.Walk(msg, func(l *vcat.Leaf) {
		if l.Name == "end_key" || l.Name == "end" {
			l.Set(append([]byte("~"), l.Bytes()...))
		}
	})
}

func c15Leaves(msg interface{}) (map[string]*vcat.Leaf, []string) {
	m := map[string]*vcat.Leaf{}
	var order []string
	vcat.Walk(msg, func(l *vcat.Leaf) {
		m[l.Path] = l
		order = append(order, l.Path)
	})
	return m, order
}

// c15Safely runs f and reports a recovered panic.
func c15Safely(f func()) (p interface{}) {
	defer func() { p = recover() }()
	f()
	return nil
}

// c15Agg collects field-level failures and reports them with the most
// specific stable signature that is still one-per-defect:
//  1. a failure of a field of a shared sub-message (LockInfo, KeyError
//     variants, region errors ...) that shows at *every* position of that
//     field in the catalogue is one defect of the shared encoder/decoder:
//     "<dir>:<owner>.<name>:<kind>";
//  2. otherwise, if every key-bearing leaf below one top-level field of one
//     command fails the same way, the command does not handle that field:
//     "<dir>:<cmd>:<top>.*:<kind>";
//  3. otherwise one signature per position "<dir>:<cmd>:<chain>:<kind>".
//
// Every signature keeps one witness; all occurrences are counted.
type c15Agg struct {
	r     *vrep.Report
	dir   string
	fails map[string]map[string]*c15Fail // owner.name|kind -> cmd:chain -> first failure
	occur map[string]map[string]bool     // owner.name -> cmd:chain judged
	byTop map[string]map[string]bool     // cmd:top -> key-bearing chains judged
	seen  map[string]int
}

type c15Fail struct {
	cmd    string
	chain  string
	msg    string
	detail any
}

func c15NewAgg(r *vrep.Report, dir string) *c15Agg {
	return &c15Agg{r: r, dir: dir, fails: map[string]map[string]*c15Fail{}, occur: map[string]map[string]bool{}, byTop: map[string]map[string]bool{}, seen: map[string]int{}}
}

func c15Top(chain string) string {
	if i := strings.Index(chain, "."); i >= 0 {
		return chain[:i]
	}
	return chain
}

// Judged notes that a field position was judged for a command.
func (a *c15Agg) Judged(cmd, ownerField, chain string, key bool) {
	if a.occur[ownerField] == nil {
		a.occur[ownerField] = map[string]bool{}
	}
	a.occur[ownerField][cmd+":"+chain] = true
	if key {
		k := cmd + ":" + c15Top(chain)
		if a.byTop[k] == nil {
			a.byTop[k] = map[string]bool{}
		}
		a.byTop[k][chain] = true
	}
}

// Field records a field-level failure.
func (a *c15Agg) Field(cmd, ownerField, chain, kind, msg string, detail any) {
	k := ownerField + "|" + kind
	if a.fails[k] == nil {
		a.fails[k] = map[string]*c15Fail{}
	}
	if a.fails[k][cmd+":"+chain] == nil {
		a.fails[k][cmd+":"+chain] = &c15Fail{cmd, chain, msg, detail}
	} else {
		a.r.Count("repeated_violation_occurrences", 1)
	}
}

// Violate records a non-field failure once per signature.
func (a *c15Agg) Violate(sig, msg string, detail any) {
	a.seen[sig]++
	if a.seen[sig] == 1 {
		a.r.Violate(sig, msg, detail)
	} else {
		a.r.Count("repeated_violation_occurrences", 1)
	}
}

// Flush emits the field-level failures.
func (a *c15Agg) Flush() {
	rest := map[string]map[string]*c15Fail{} // kind -> cmd:chain -> failure
	allByTop := map[string]int{}             // kind|cmd:top -> failed positions, whatever the level they are reported at
	for _, k := range vcat.SortedKeys(a.fails) {
		byPos := a.fails[k]
		parts := strings.SplitN(k, "|", 2)
		ownerField, kind := parts[0], parts[1]
		pos := vcat.SortedKeys(byPos)
		for _, f := range byPos {
			allByTop[kind+"|"+f.cmd+":"+c15Top(f.chain)]++
		}
		if len(a.occur[ownerField]) > 1 && len(byPos) == len(a.occur[ownerField]) {
			f := byPos[pos[0]]
			a.r.Violate(fmt.Sprintf("%s:%s:%s", a.dir, ownerField, kind),
				fmt.Sprintf("at every one of the %d positions of %s in the catalogue: %s", len(pos), ownerField, f.msg),
				map[string]any{"positions": pos, "first": f.detail})
			continue
		}
		if rest[kind] == nil {
			rest[kind] = map[string]*c15Fail{}
		}
		for p, f := range byPos {
			rest[kind][p] = f
		}
	}
	for _, kind := range vcat.SortedKeys(rest) {
		failed := rest[kind]
		tops := map[string][]string{}
		for _, p := range vcat.SortedKeys(failed) {
			f := failed[p]
			t := f.cmd + ":" + c15Top(f.chain)
			tops[t] = append(tops[t], p)
		}
		for _, t := range vcat.SortedKeys(tops) {
			ps := tops[t]
			if len(ps) > 1 && allByTop[kind+"|"+t] == len(a.byTop[t]) {
				f := failed[ps[0]]
				a.r.Violate(fmt.Sprintf("%s:%s.*:%s", a.dir, t, kind),
					fmt.Sprintf("every one of the %d key-bearing fields below %s: %s", len(ps), t, f.msg),
					map[string]any{"positions": ps, "first": f.detail})
				continue
			}
			for _, p := range ps {
				f := failed[p]
				a.r.Violate(fmt.Sprintf("%s:%s:%s", a.dir, p, kind), f.msg, f.detail)
			}
		}
	}
}
