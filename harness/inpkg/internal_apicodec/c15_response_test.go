//go:build verif

package apicodec

import (
	"bytes"
	"fmt"
	"reflect"
	"testing"

	"github.com/pingcap/kvproto/pkg/coprocessor"
	"github.com/pingcap/kvproto/pkg/mpp"
	"github.com/tikv/client-go/v2/tikvrpc"
	"github.com/tikv/client-go/v2/verifh/vcat"
	"github.com/tikv/client-go/v2/verifh/vrep"
)

// c15WireResponse turns a logical response into what a store holding the
// keyspace's data would send: every key-bearing leaf prefixed (region
// descriptions additionally memory-comparable).  only != "" restricts the
// foreign prefix to that one leaf path.
func c15WireResponse(root string, logical interface{}, ks *c15KS, foreign *c15KS, only string) interface{} {
	w := vcat.Clone(logical)
	vcat.Walk(w, func(l *vcat.Leaf) {
		cl := c15Classify(root, l)
		if cl.Role == c15NonKey || cl.Excluded != "" {
			return
		}
		k := ks
		if foreign != nil && l.Path == only {
			k = foreign
		}
		b := k.wire(l.Bytes())
		if cl.Mem {
			b = c15Mem(b)
		}
		l.Set(b)
	})
	return w
}

// c15WrapStream puts a stream element into the wrapper CallRPC hands to the codec.
func c15WrapStream(elem interface{}) interface{} {
	switch e := elem.(type) {
	case *coprocessor.Response:
		return &tikvrpc.CopStreamResponse{Response: e}
	case *coprocessor.BatchResponse:
		return &tikvrpc.BatchCopStreamResponse{BatchResponse: e}
	case *mpp.MPPDataPacket:
		return &tikvrpc.MPPStreamResponse{MPPDataPacket: e}
	}
	return nil
}

func c15EncodedReq(c *vcat.Cmd, ks *c15KS) *tikvrpc.Request {
	logical := c15BuildRequest(c.Req, c15Variant{}, "q")
	var enc *tikvrpc.Request
	if p := c15Safely(func() { enc, _ = ks.C.EncodeRequest(tikvrpc.NewRequest(tikvrpc.CmdType(c.Value), logical)) }); p != nil || enc == nil {
		return &tikvrpc.Request{Type: tikvrpc.CmdType(c.Value), Req: logical}
	}
	return enc
}

func TestVerifC15DecodeResponse(t *testing.T) {
	r := vrep.New("C15", "c15-decode-response",
		"DecodeResponse over the reflected command catalogue: for every command type a response message with every field filled (all key-error variants, lock infos incl. shared lock infos, mvcc infos, region errors) is put on the wire as a store of keyspace A would send it, decoded, and compared leaf by leaf with the logical message: key-named leaves must come back stripped, others unchanged, nothing dropped; then every point-key leaf in turn is given the prefix of a neighbouring keyspace / other mode: DecodeResponse must fail or drop it; distinct = (command, field chain, scenario) judged")
	defer r.Finish(t)
	cat, err := c15Catalogue()
	if err != nil {
		r.Inconc("catalogue: %v", err)
		return
	}
	o := c15NewAgg(r, "decode")
	defer o.Flush()
	var kss []*c15KS
	for _, id := range []uint32{0x0102FF, 0, 0xFFFFFF, 1} {
		for _, m := range []Mode{ModeTxn, ModeRaw} {
			if ks, err := c15NewKS(m, id); err == nil {
				kss = append(kss, ks)
			}
		}
	}
	foreignOf := func(ks *c15KS) []*c15KS {
		var out []*c15KS
		if ks.ID > 0 {
			if f, err := c15NewKS(ks.Mode, ks.ID-1); err == nil {
				out = append(out, f)
			}
		}
		if ks.ID < 0xFFFFFF {
			if f, err := c15NewKS(ks.Mode, ks.ID+1); err == nil {
				out = append(out, f)
			}
		}
		other := Mode(ModeRaw)
		if ks.Mode == ModeRaw {
			other = ModeTxn
		}
		if f, err := c15NewKS(other, ks.ID); err == nil {
			out = append(out, f)
		}
		return out
	}
	keyFields := map[string]bool{}
	nonKeyFields := map[string]bool{}
	excludedSeen := map[string]string{}
	msgTypes := map[string]bool{}
	baseFailed := map[string]bool{}
	for _, c := range cat.Cmds {
		if c.Req == nil {
			continue
		}
		label := c15CmdLabel(c)
		if c.Resp == nil {
			r.Count("commands_without_wire_response", 1)
			continue
		}
		root := vcat.TypeName(c.Resp)
		msgTypes[root] = true
		for ki, ks := range kss {
			logical := reflect.New(c.Resp.Elem()).Interface()
			(&vcat.Filler{Tag: "p"}).Fill(logical)
			c15FixOrder(logical)
			want, order := c15Leaves(logical)
			decode := func(w interface{}) (out *tikvrpc.Response, err error, pan interface{}) {
				var respObj interface{} = w
				if c.RespStream {
					respObj = c15WrapStream(w)
					if respObj == nil {
						return nil, fmt.Errorf("unknown stream type"), nil
					}
				}
				pan = c15Safely(func() { out, err = ks.C.DecodeResponse(c15EncodedReq(c, ks), &tikvrpc.Response{Resp: respObj}) })
				return
			}
			unwrap := func(resp *tikvrpc.Response) interface{} {
				switch e := resp.Resp.(type) {
				case *tikvrpc.CopStreamResponse:
					return e.Response
				case *tikvrpc.BatchCopStreamResponse:
					return e.BatchResponse
				case *tikvrpc.MPPStreamResponse:
					return e.MPPDataPacket
				}
				return resp.Resp
			}
			// ---- base: everything inside the caller's keyspace
			w := c15WireResponse(root, logical, ks, nil, "")
			out, derr, pan := decode(w)
			r.Eval(1)
			if pan != nil {
				o.Violate("decode:"+label+":panic", fmt.Sprintf("DecodeResponse(%s) under %s panicked on a fully populated in-keyspace response: %v", label, ks.Name, pan), map[string]any{"cmd": label, "keyspace": ks.Name})
				continue
			}
			if derr != nil {
				if c.RespStream {
					// the codec declares streaming coprocessor unsupported: rejected with an error
					r.Count("decode_rejected_stream", 1)
					r.Distinct("rejected|" + label)
					continue
				}
				o.Violate("decode:"+label+":error-on-own-keys", fmt.Sprintf("DecodeResponse(%s) under %s fails on a response whose keys all belong to the keyspace: %v", label, ks.Name, derr), map[string]any{"cmd": label, "keyspace": ks.Name})
				continue
			}
			got, _ := c15Leaves(unwrap(out))
			for _, path := range order {
				wl := want[path]
				cl := c15Classify(root, wl)
				ck := c15ChainKey(wl)
				fieldID := label + ":" + ck
				if cl.Excluded != "" {
					excludedSeen[root+"."+ck] = cl.Excluded
					continue
				}
				gl, ok := got[path]
				r.Eval(1)
				of := wl.OwnerName() + "." + wl.Name
				o.Judged(label, of, ck, cl.Role != c15NonKey)
				detail := map[string]any{"cmd": label, "keyspace": ks.Name, "field": path, "owner": wl.OwnerName(), "logical": fmt.Sprintf("%q", wl.Bytes())}
				if !ok {
					baseFailed[fieldID] = true
					o.Field(label, of, ck, "dropped", fmt.Sprintf("DecodeResponse(%s) under %s dropped field %s although it belongs to the keyspace", label, ks.Name, path), detail)
					continue
				}
				detail["decoded"] = fmt.Sprintf("%q", gl.Bytes())
				if cl.Role == c15NonKey {
					nonKeyFields[fieldID] = true
					if !bytes.Equal(gl.Bytes(), wl.Bytes()) {
						o.Field(label, of, ck, "nonkey-changed", fmt.Sprintf("DecodeResponse(%s) under %s changed non-key field %s: %q -> %q", label, ks.Name, path, wl.Bytes(), gl.Bytes()), detail)
					}
					continue
				}
				keyFields[fieldID] = true
				r.Distinct(fmt.Sprintf("%s|base|%s", fieldID, ks.Name[:3]))
				if !bytes.Equal(gl.Bytes(), wl.Bytes()) {
					baseFailed[fieldID] = true
					kind := "wrong-strip"
					if bytes.Contains(gl.Bytes(), ks.Prefix) {
						kind = "not-stripped"
					}
					o.Field(label, of, ck, kind, fmt.Sprintf("DecodeResponse(%s) under %s: key-bearing field %s (%s) comes back as %q, want the logical key %q", label, ks.Name, path, wl.OwnerName(), gl.Bytes(), wl.Bytes()), detail)
				}
			}
			if r.SampleN() < 2 && (label == "ScanLock" || label == "Prewrite") {
				r.Sample(map[string]any{"cmd": label, "keyspace": ks.Name, "wire": fmt.Sprintf("%+v", w)[:1500], "decoded": fmt.Sprintf("%+v", unwrap(out))[:1500]})
			}
			// ---- foreign: one point key at a time belongs to another keyspace
			// quick tier: the full per-leaf sweep for the first keyspace (txn, id+1 crosses a byte
			// border) against its upper neighbour and the other mode; thorough: all keyspaces, all neighbours
			fs := foreignOf(ks)
			if !vrep.Thorough() {
				if ki != 0 {
					continue
				}
				fs = fs[1:]
			}
			// one element per repeated field is enough here
			logical = reflect.New(c.Resp.Elem()).Interface()
			(&vcat.Filler{Tag: "f", Rep: 1}).Fill(logical)
			want, order = c15Leaves(logical)
			for _, f := range fs {
				for _, path := range order {
					wl := want[path]
					cl := c15Classify(root, wl)
					if cl.Role != c15Point || cl.Mem || cl.Excluded != "" {
						continue
					}
					ck := c15ChainKey(wl)
					fieldID := label + ":" + ck
					of := wl.OwnerName() + "." + wl.Name
					if baseFailed[fieldID] {
						continue
					}
					w := c15WireResponse(root, logical, ks, f, path)
					out, derr, pan := decode(w)
					r.Eval(1)
					r.Distinct(fmt.Sprintf("%s|foreign|%s", fieldID, f.Name[:3]))
					if pan != nil {
						o.Field(label, of, ck, "foreign-panic", fmt.Sprintf("DecodeResponse(%s) under %s panicked when %s carried a key of keyspace %s: %v", label, ks.Name, path, f.Name, pan), nil)
						continue
					}
					if derr != nil {
						r.Count("foreign_key_rejected", 1)
						continue
					}
					got, _ := c15Leaves(unwrap(out))
					if gl, ok := got[path]; ok && len(gl.Bytes()) != 0 {
						o.Field(label, of, ck, "foreign-key-returned",
							fmt.Sprintf("DecodeResponse(%s) under %s: %s carried a key of keyspace %s (%q) and it was handed to the caller as %q", label, ks.Name, path, f.Name, f.wire(wl.Bytes()), gl.Bytes()),
							map[string]any{"cmd": label, "keyspace": ks.Name, "foreign": f.Name, "field": path})
					} else {
						r.Count("foreign_key_dropped", 1)
					}
				}
			}
		}
	}
	r.Count("response_message_types", len(msgTypes))
	r.Count("key_bearing_response_fields", len(keyFields))
	r.Count("nonkey_response_fields", len(nonKeyFields))
	r.Count("excluded_response_fields", len(excludedSeen))
	r.Floor("key_bearing_response_fields", 300)
	r.Floor("foreign_key_rejected", 1000)
	r.Sample(map[string]any{"excluded_response_fields": excludedSeen})
}
