//go:build verif

package apicodec

import (
	"bytes"
	"fmt"
	"sort"
	"testing"

	"github.com/pingcap/kvproto/pkg/errorpb"
	"github.com/pingcap/kvproto/pkg/keyspacepb"
	"github.com/pingcap/kvproto/pkg/kvrpcpb"
	"github.com/pingcap/kvproto/pkg/metapb"
	"github.com/tikv/client-go/v2/tikvrpc"
	"github.com/tikv/client-go/v2/verifh/vrep"
)

// boundary: a position on the full (prefixed, not yet memory-comparable) key
// axis; inf marks the open end (empty key on the wire).
type c15Bound struct {
	key []byte
	inf bool // -inf as a start, +inf as an end
}

func (b c15Bound) wire() []byte {
	if b.inf {
		return nil
	}
	return c15Mem(b.key)
}

func (b c15Bound) String() string {
	if b.inf {
		return "inf"
	}
	return fmt.Sprintf("%x", b.key)
}

func c15Cat3(a []byte, b ...byte) []byte { return append(append([]byte(nil), a...), b...) }

// c15Bounds lists interesting region boundaries around a keyspace, sorted.
func c15Bounds(ks *c15KS, rng interface{ Intn(int) int }) [][]byte {
	var out [][]byte
	add := func(b []byte) {
		if len(b) > 0 {
			out = append(out, b)
		}
	}
	p, e := ks.Prefix, ks.End
	add([]byte{p[0]})    // bare mode byte
	add(p[:3])           // shorter than a prefix, below it
	add(p)               // keyspace start
	add(c15Cat3(p, 0))   // first key after the empty key
	add(c15Cat3(p, 'a')) //
	add(c15Cat3(p, 'm', byte(rng.Intn(256))))
	add(c15Cat3(p, 0xFF, 0xFF, 0xFF)) // deep inside, near the end
	add(e)                            // keyspace end == next keyspace start
	add(c15Cat3(e, 0))
	add(c15Cat3(e, 'a'))
	if ks.ID > 0 {
		q := c15Prefix(ks.Mode, ks.ID-1)
		add(q)
		add(c15Cat3(q, 'z'))
		add(c15Cat3(q, 0xFF, 0xFF))
	}
	add([]byte{p[0] - 1, 0xFF, 0xFF, 0xFF, 'k'})     // below the mode
	add([]byte{p[0] + 2})                            // above every keyspace of the mode
	add([]byte("t\x80\x00\x00\x00\x00\x00\x00\x01")) // an API v1 table key
	sort.Slice(out, func(i, j int) bool { return bytes.Compare(out[i], out[j]) < 0 })
	var ded [][]byte
	for i, b := range out {
		if i == 0 || !bytes.Equal(b, out[i-1]) {
			ded = append(ded, b)
		}
	}
	return ded
}

// c15Clip is the reference: intersection of region [s,e) with the keyspace
// in logical keys; ok=false if they do not intersect.
func c15Clip(ks *c15KS, s, e c15Bound) (start, end []byte, ok bool) {
	if !e.inf && bytes.Compare(e.key, ks.Prefix) <= 0 {
		return nil, nil, false
	}
	if !s.inf && bytes.Compare(s.key, ks.End) >= 0 {
		return nil, nil, false
	}
	start, end = []byte{}, []byte{}
	if !s.inf && bytes.Compare(s.key, ks.Prefix) > 0 {
		start = s.key[len(ks.Prefix):]
	}
	if !e.inf && bytes.Compare(e.key, ks.End) < 0 {
		end = e.key[len(ks.Prefix):]
	}
	return start, end, true
}

func TestVerifC15RegionKeys(t *testing.T) {
	r := vrep.New("C15", "c15-region-keys",
		"keyspace bounds and region descriptions: for keyspace ids {0,1,2,0xff,0x100,0xffff,0x10000,0x0102ff,0xfffffe,0xffffff,random} x {txn,raw}: prefix/end against the harness's own big-endian definition (carry over byte borders, id 0xffffff carries into the mode byte), Encode/DecodeKey, ParseKeyspaceID, Encode/DecodeRange, Encode/DecodeRegionKey/Range round trips, DecodeRegionRange on every ordered pair of boundary positions around the keyspace (below, straddling start, inside, straddling end, above, unbounded) against a reference intersection, the same regions inside EpochNotMatch / KeyNotInRegion / SplitRegion responses, DecodeBucketKeys against a reference clip; distinct = (keyspace, function, boundary pair)")
	defer r.Finish(t)
	c15Quiet()
	o := c15NewAgg(r, "region")
	defer o.Flush()
	rng := vrep.Rand("c15-region")
	ids := []uint32{0, 1, 2, 0xFF, 0x100, 0xFFFF, 0x10000, 0x0102FF, 0xFFFFFE, 0xFFFFFF, uint32(rng.Intn(0xFFFFFF)), uint32(rng.Intn(0xFFFF))<<8 | 0xFF}
	for _, bad := range []uint32{0x1000000, 0x1000001, 0xFFFFFFFF, 0x80000000} {
		c, err := NewCodecV2(ModeTxn, &keyspacepb.KeyspaceMeta{Keyspace: &keyspacepb.KeyspaceMeta_Id{Id: bad}})
		r.Eval(1)
		if err == nil && c != nil {
			// an id that does not fit 24 bits would alias another keyspace's prefix
			if id2 := uint32(c.GetKeyspace()[1])<<16 | uint32(c.GetKeyspace()[2])<<8 | uint32(c.GetKeyspace()[3]); id2 != bad {
				o.Violate("keyspace:id-overflow-aliases", fmt.Sprintf("NewCodecV2 accepts keyspace id %#x and gives it the prefix of keyspace %#x", bad, id2), nil)
			}
		}
	}
	keys := [][]byte{{}, []byte("a"), {0}, {0xFF}, {0xFF, 0xFF, 0xFF, 0xFF, 0xFF, 0xFF, 0xFF, 0xFF, 0xFF}, []byte("t\x80\x00\x00\x00\x00\x00\x00\x01_r\x80\x00\x00\x00\x00\x00\x00\x02"), []byte("12345678"), {0, 0, 0, 0, 0, 0, 0, 0}}
	for i := 0; i < 6; i++ {
		k := make([]byte, rng.Intn(20))
		for j := range k {
			k[j] = byte(rng.Intn(256))
		}
		keys = append(keys, k)
	}
	for _, id := range ids {
		for _, m := range []Mode{ModeTxn, ModeRaw} {
			ks, err := c15NewKS(m, id)
			if err != nil {
				o.Violate("keyspace:new", fmt.Sprintf("NewCodecV2(%d,%#x): %v", m, id, err), nil)
				continue
			}
			c := ks.C
			r.Eval(1)
			if !bytes.Equal(c.GetKeyspace(), ks.Prefix) || uint32(c.GetKeyspaceID()) != id {
				o.Violate("keyspace:prefix", fmt.Sprintf("keyspace %s: GetKeyspace()=%x want %x", ks.Name, c.GetKeyspace(), ks.Prefix), nil)
			}
			// whole-keyspace range
			s0, e0 := c.EncodeRange(nil, nil)
			r.Eval(1)
			if !bytes.Equal(s0, ks.Prefix) || !ks.isKeyspaceEnd(e0) {
				o.Violate("keyspace:unbounded-range", fmt.Sprintf("keyspace %s: EncodeRange('','') = (%x,%x), want (%x,%x)", ks.Name, s0, e0, ks.Prefix, ks.End), map[string]any{"keyspace": ks.Name})
			}
			var neigh []*c15KS
			if id > 0 {
				n, _ := c15NewKS(m, id-1)
				neigh = append(neigh, n)
			}
			if id < 0xFFFFFF {
				n, _ := c15NewKS(m, id+1)
				neigh = append(neigh, n)
			}
			om := Mode(ModeRaw)
			if m == ModeRaw {
				om = ModeTxn
			}
			n, _ := c15NewKS(om, id)
			neigh = append(neigh, n)
			for _, k := range keys {
				r.Eval(1)
				ek := c.EncodeKey(k)
				if !bytes.Equal(ek, ks.wire(k)) {
					o.Violate("key:encode", fmt.Sprintf("keyspace %s: EncodeKey(%x)=%x", ks.Name, k, ek), nil)
				}
				if dk, err := c.DecodeKey(ek); err != nil || !bytes.Equal(dk, k) {
					o.Violate("key:roundtrip", fmt.Sprintf("keyspace %s: DecodeKey(EncodeKey(%x)) = %x, %v", ks.Name, k, dk, err), nil)
				}
				if pid, err := ParseKeyspaceID(ek); err != nil || uint32(pid) != id {
					o.Violate("key:parse-keyspace-id", fmt.Sprintf("keyspace %s: ParseKeyspaceID(EncodeKey(%x)) = %d, %v", ks.Name, k, pid, err), nil)
				}
				rk := c.EncodeRegionKey(k)
				if !bytes.Equal(rk, c15Mem(ks.wire(k))) {
					o.Violate("regionkey:encode", fmt.Sprintf("keyspace %s: EncodeRegionKey(%x)=%x", ks.Name, k, rk), nil)
				}
				if dk, err := c.DecodeRegionKey(rk); err != nil || !bytes.Equal(dk, k) {
					o.Violate("regionkey:roundtrip", fmt.Sprintf("keyspace %s: DecodeRegionKey(EncodeRegionKey(%x)) = %x, %v", ks.Name, k, dk, err), nil)
				}
				for _, nb := range neigh {
					r.Eval(1)
					if dk, err := c.DecodeKey(nb.wire(k)); err == nil {
						o.Violate("key:foreign-accepted", fmt.Sprintf("keyspace %s: DecodeKey accepts key %x of keyspace %s and returns %x", ks.Name, nb.wire(k), nb.Name, dk), map[string]any{"keyspace": ks.Name, "foreign": nb.Name})
					}
					if dk, err := c.DecodeRegionKey(c15Mem(nb.wire(k))); err == nil {
						o.Violate("regionkey:foreign-accepted", fmt.Sprintf("keyspace %s: DecodeRegionKey accepts key of keyspace %s and returns %x", ks.Name, nb.Name, dk), nil)
					}
				}
				for _, k2 := range keys {
					r.Eval(1)
					es, ee := c.EncodeRange(k, k2)
					okEnd := bytes.Equal(ee, ks.wire(k2))
					if len(k2) == 0 {
						okEnd = ks.isKeyspaceEnd(ee)
					}
					if !bytes.Equal(es, ks.wire(k)) || !okEnd {
						o.Violate("range:encode", fmt.Sprintf("keyspace %s: EncodeRange(%x,%x) = (%x,%x)", ks.Name, k, k2, es, ee), nil)
					}
					ds, de, err := c.DecodeRange(es, ee)
					if err != nil || !bytes.Equal(ds, k) || !bytes.Equal(de, k2) {
						o.Violate("range:roundtrip", fmt.Sprintf("keyspace %s: DecodeRange(EncodeRange(%x,%x)) = (%x,%x,%v)", ks.Name, k, k2, ds, de, err), nil)
					}
					rs, re := c.EncodeRegionRange(k, k2)
					ds, de, err = c.DecodeRegionRange(rs, re)
					if err != nil || !bytes.Equal(ds, k) || !bytes.Equal(de, k2) {
						o.Violate("regionrange:roundtrip", fmt.Sprintf("keyspace %s: DecodeRegionRange(EncodeRegionRange(%x,%x)) = (%x,%x,%v)", ks.Name, k, k2, ds, de, err), nil)
					}
				}
			}
			// ---- clipping of regions around the keyspace
			bs := c15Bounds(ks, rng)
			var starts, ends []c15Bound
			starts = append(starts, c15Bound{inf: true})
			for _, b := range bs {
				starts = append(starts, c15Bound{key: b})
				ends = append(ends, c15Bound{key: b})
			}
			ends = append(ends, c15Bound{inf: true})
			type region struct {
				s, e   c15Bound
				ws, we []byte
				ok     bool
			}
			var regions []region
			for _, s := range starts {
				for _, e := range ends {
					if !s.inf && !e.inf && bytes.Compare(s.key, e.key) >= 0 {
						continue
					}
					ws, we, ok := c15Clip(ks, s, e)
					regions = append(regions, region{s, e, ws, we, ok})
					r.Eval(1)
					r.Distinct(fmt.Sprintf("%s|clip|%s|%s", ks.Name, s, e))
					var gs, ge []byte
					var err error
					if p := c15Safely(func() { gs, ge, err = c.DecodeRegionRange(s.wire(), e.wire()) }); p != nil {
						o.Violate("regionrange:panic", fmt.Sprintf("keyspace %s: DecodeRegionRange(%s,%s) panicked: %v", ks.Name, s, e, p), nil)
						continue
					}
					detail := map[string]any{"keyspace": ks.Name, "region_start": s.String(), "region_end": e.String(), "prefix": fmt.Sprintf("%x", ks.Prefix), "end": fmt.Sprintf("%x", ks.End)}
					if !ok {
						r.Count("regions_outside", 1)
						if err == nil {
							o.Violate("regionrange:outside-accepted", fmt.Sprintf("keyspace %s [%x,%x): region [%s,%s) lies outside the keyspace but DecodeRegionRange returns (%x,%x) as if it were the caller's", ks.Name, ks.Prefix, ks.End, s, e, gs, ge), detail)
						}
						continue
					}
					r.Count("regions_intersecting", 1)
					if (!s.inf && bytes.Compare(s.key, ks.Prefix) < 0) || s.inf {
						r.Count("regions_straddling_start", 1)
					}
					if e.inf || bytes.Compare(e.key, ks.End) > 0 {
						r.Count("regions_straddling_end", 1)
					}
					if err != nil {
						o.Violate("regionrange:intersecting-rejected", fmt.Sprintf("keyspace %s [%x,%x): region [%s,%s) intersects the keyspace but DecodeRegionRange fails: %v", ks.Name, ks.Prefix, ks.End, s, e, err), detail)
						continue
					}
					if !bytes.Equal(gs, ws) || !bytes.Equal(ge, we) {
						o.Violate("regionrange:clip", fmt.Sprintf("keyspace %s [%x,%x): region [%s,%s) decodes to (%x,%x), want (%x,%x)", ks.Name, ks.Prefix, ks.End, s, e, gs, ge, ws, we), detail)
					}
				}
			}
			// ---- the same regions inside responses: EpochNotMatch (skip outside), SplitRegion, KeyNotInRegion
			for start := 0; start < len(regions); start += 7 {
				end := start + 7
				if end > len(regions) {
					end = len(regions)
				}
				chunk := regions[start:end]
				var metas []*metapb.Region
				var want []region
				for i, g := range chunk {
					metas = append(metas, &metapb.Region{Id: uint64(100 + i), StartKey: g.s.wire(), EndKey: g.e.wire()})
					if g.ok {
						want = append(want, g)
					}
				}
				resp := &tikvrpc.Response{Resp: &kvrpcpb.GetResponse{RegionError: &errorpb.Error{EpochNotMatch: &errorpb.EpochNotMatch{CurrentRegions: metas}}}}
				req, _ := c.EncodeRequest(tikvrpc.NewRequest(tikvrpc.CmdGet, &kvrpcpb.GetRequest{Key: []byte("k")}))
				var out *tikvrpc.Response
				var err error
				r.Eval(1)
				if p := c15Safely(func() { out, err = c.DecodeResponse(req, resp) }); p != nil {
					o.Violate("epoch-not-match:panic", fmt.Sprintf("keyspace %s: DecodeResponse panicked on EpochNotMatch regions: %v", ks.Name, p), nil)
					continue
				}
				if err != nil {
					// all regions are well-formed; failing the whole response loses the intersecting regions
					if len(want) > 0 {
						o.Violate("epoch-not-match:error", fmt.Sprintf("keyspace %s: DecodeResponse fails on an EpochNotMatch error whose regions are well-formed (%d of %d intersect the keyspace): %v", ks.Name, len(want), len(chunk), err), nil)
					}
					continue
				}
				got := out.Resp.(*kvrpcpb.GetResponse).RegionError.GetEpochNotMatch().GetCurrentRegions()
				okList := len(got) == len(want)
				for i := 0; okList && i < len(got); i++ {
					okList = bytes.Equal(got[i].StartKey, want[i].ws) && bytes.Equal(got[i].EndKey, want[i].we)
				}
				r.Count("epoch_not_match_lists", 1)
				r.Count("epoch_not_match_regions_skipped", len(chunk)-len(want))
				if !okList {
					desc := ""
					for _, g := range chunk {
						desc += fmt.Sprintf("[%s,%s)ok=%v ", g.s, g.e, g.ok)
					}
					gd := ""
					for _, g := range got {
						gd += fmt.Sprintf("(%x,%x) ", g.StartKey, g.EndKey)
					}
					o.Violate("epoch-not-match:regions", fmt.Sprintf("keyspace %s [%x,%x): EpochNotMatch regions %s decode to %s: regions outside the keyspace must be skipped, the others clipped to it", ks.Name, ks.Prefix, ks.End, desc, gd),
						map[string]any{"keyspace": ks.Name, "regions": desc, "decoded": gd})
				}
			}
			for i, g := range regions {
				if i%3 != 0 && !vrep.Thorough() {
					continue
				}
				// KeyNotInRegion: the key is the caller's, the region may straddle
				kn := &errorpb.KeyNotInRegion{Key: ks.wire([]byte("kk")), RegionId: 5, StartKey: g.s.wire(), EndKey: g.e.wire()}
				resp := &tikvrpc.Response{Resp: &kvrpcpb.RawGetResponse{RegionError: &errorpb.Error{KeyNotInRegion: kn}}}
				req, _ := c.EncodeRequest(tikvrpc.NewRequest(tikvrpc.CmdRawGet, &kvrpcpb.RawGetRequest{Key: []byte("kk")}))
				var out *tikvrpc.Response
				var err error
				r.Eval(1)
				if p := c15Safely(func() { out, err = c.DecodeResponse(req, resp) }); p != nil {
					o.Violate("key-not-in-region:panic", fmt.Sprintf("keyspace %s: DecodeResponse panicked on KeyNotInRegion: %v", ks.Name, p), nil)
					continue
				}
				if err != nil {
					if g.ok {
						o.Violate("key-not-in-region:error", fmt.Sprintf("keyspace %s: KeyNotInRegion with region [%s,%s) intersecting the keyspace fails to decode: %v", ks.Name, g.s, g.e, err), nil)
					}
					continue
				}
				gk := out.Resp.(*kvrpcpb.RawGetResponse).RegionError.KeyNotInRegion
				if !g.ok {
					o.Violate("key-not-in-region:outside-accepted", fmt.Sprintf("keyspace %s: KeyNotInRegion region [%s,%s) outside the keyspace decodes to (%x,%x)", ks.Name, g.s, g.e, gk.StartKey, gk.EndKey), nil)
					continue
				}
				if !bytes.Equal(gk.Key, []byte("kk")) || !bytes.Equal(gk.StartKey, g.ws) || !bytes.Equal(gk.EndKey, g.we) {
					o.Violate("key-not-in-region:clip", fmt.Sprintf("keyspace %s: KeyNotInRegion{key,[%s,%s)} decodes to {%x,(%x,%x)}, want {kk,(%x,%x)}", ks.Name, g.s, g.e, gk.Key, gk.StartKey, gk.EndKey, g.ws, g.we), nil)
				}
				// SplitRegion response: regions produced by a split of the caller's region
				if g.ok {
					sresp := &tikvrpc.Response{Resp: &kvrpcpb.SplitRegionResponse{Regions: []*metapb.Region{{Id: 1, StartKey: g.s.wire(), EndKey: g.e.wire()}}}}
					sreq, _ := c.EncodeRequest(tikvrpc.NewRequest(tikvrpc.CmdSplitRegion, &kvrpcpb.SplitRegionRequest{SplitKeys: [][]byte{[]byte("kk")}}))
					var sout *tikvrpc.Response
					r.Eval(1)
					if p := c15Safely(func() { sout, err = c.DecodeResponse(sreq, sresp) }); p != nil || err != nil {
						o.Violate("split-region:error", fmt.Sprintf("keyspace %s: SplitRegion response with region [%s,%s) fails to decode: %v %v", ks.Name, g.s, g.e, p, err), nil)
					} else if rg := sout.Resp.(*kvrpcpb.SplitRegionResponse).Regions; len(rg) != 1 || !bytes.Equal(rg[0].StartKey, g.ws) || !bytes.Equal(rg[0].EndKey, g.we) {
						o.Violate("split-region:clip", fmt.Sprintf("keyspace %s: SplitRegion region [%s,%s) decodes to %v, want (%x,%x)", ks.Name, g.s, g.e, rg, g.ws, g.we), nil)
					}
				}
			}
			// ---- bucket keys: sorted sub-lists of the boundaries, first/last possibly unbounded
			for trial := 0; trial < vrep.Pick(40, 400); trial++ {
				var list []c15Bound
				if rng.Intn(3) == 0 {
					list = append(list, c15Bound{inf: true})
				}
				for _, b := range bs {
					if rng.Intn(2) == 0 {
						list = append(list, c15Bound{key: b})
					}
				}
				if rng.Intn(3) == 0 {
					list = append(list, c15Bound{inf: true})
				}
				if len(list) < 2 {
					continue
				}
				first, last := list[0], list[len(list)-1]
				if _, _, ok := c15Clip(ks, first, last); !ok {
					continue // the region itself is outside the keyspace
				}
				var wire [][]byte
				for _, b := range list {
					wire = append(wire, b.wire())
				}
				// reference: boundaries of the buckets restricted to the keyspace
				var want [][]byte
				ws, we, _ := c15Clip(ks, first, last)
				want = append(want, ws)
				for _, b := range list[1 : len(list)-1] {
					if bytes.Compare(b.key, ks.Prefix) > 0 && bytes.Compare(b.key, ks.End) < 0 {
						want = append(want, b.key[len(ks.Prefix):])
					}
				}
				want = append(want, we)
				var got [][]byte
				var err error
				r.Eval(1)
				if p := c15Safely(func() { got, err = c.DecodeBucketKeys(wire) }); p != nil || err != nil {
					o.Violate("bucket-keys:error", fmt.Sprintf("keyspace %s: DecodeBucketKeys(%v) fails: %v %v", ks.Name, list, p, err), nil)
					continue
				}
				same := len(got) == len(want)
				for i := 0; same && i < len(got); i++ {
					same = bytes.Equal(got[i], want[i])
				}
				r.Count("bucket_lists", 1)
				if !same {
					o.Violate("bucket-keys:clip", fmt.Sprintf("keyspace %s [%x,%x): DecodeBucketKeys(%v) = %x, want %x", ks.Name, ks.Prefix, ks.End, list, got, want), map[string]any{"keyspace": ks.Name, "buckets": fmt.Sprint(list)})
				}
			}
			if r.SampleN() < 3 && (id == 0xFFFFFF || id == 0x0102FF) {
				r.Sample(map[string]any{"keyspace": ks.Name, "prefix": fmt.Sprintf("%x", ks.Prefix), "end": fmt.Sprintf("%x", ks.End), "codec_unbounded_range": fmt.Sprintf("%x..%x", s0, e0), "boundaries": fmt.Sprintf("%x", bs)})
			}
		}
	}
	r.Floor("regions_outside", 100)
	r.Floor("regions_straddling_start", 100)
	r.Floor("regions_straddling_end", 100)
	r.Floor("epoch_not_match_regions_skipped", 100)
	r.Floor("bucket_lists", 100)
}
