//go:build verif

package apicodec

import (
	"bytes"
	"fmt"
	"reflect"
	"sync"
	"testing"

	"github.com/pingcap/kvproto/pkg/errorpb"
	"github.com/pingcap/kvproto/pkg/kvrpcpb"
	"github.com/tikv/client-go/v2/tikvrpc"
	"github.com/tikv/client-go/v2/verifh/vcat"
	"github.com/tikv/client-go/v2/verifh/vrep"
)

// request variants: which bounds of every range pair are emptied, and the
// value of every bool field (reverse!).
type c15Variant struct {
	Bool       bool
	EmptyLower bool
	EmptyUpper bool
	EmptyPoint bool // every point key empty ("unset")
	Sparse     bool // nested messages and lists left nil
}

func (v c15Variant) String() string {
	return fmt.Sprintf("bool=%v,emptyLower=%v,emptyUpper=%v,emptyPoint=%v,sparse=%v", v.Bool, v.EmptyLower, v.EmptyUpper, v.EmptyPoint, v.Sparse)
}

func c15Variants() []c15Variant {
	var out []c15Variant
	for _, b := range []bool{false, true} {
		for _, el := range []bool{false, true} {
			for _, eu := range []bool{false, true} {
				out = append(out, c15Variant{Bool: b, EmptyLower: el, EmptyUpper: eu})
			}
		}
		out = append(out, c15Variant{Bool: b, EmptyPoint: true})
		out = append(out, c15Variant{Bool: b, Sparse: true})
	}
	return out
}

// c15SkipInRequest: error descriptions only travel from the store to the
// client; messages shared by both directions (KvPair) leave them unset in a
// request.
func c15SkipInRequest(owner, name string, ft reflect.Type) bool {
	switch ft {
	case reflect.TypeOf((*kvrpcpb.KeyError)(nil)), reflect.TypeOf((*errorpb.Error)(nil)):
		return true
	}
	return false
}

// c15BuildRequest makes the logical (unprefixed) request message.
func c15BuildRequest(T reflect.Type, v c15Variant, tag string) interface{} {
	msg := reflect.New(T.Elem()).Interface()
	if v.Sparse {
		// top-level scalars and bytes only
		f := &vcat.Filler{Tag: tag, Bool: v.Bool, Skip: c15SkipInRequest, MaxSelf: 1}
		f.Fill(msg)
		rv := reflect.ValueOf(msg).Elem()
		for i := 0; i < rv.NumField(); i++ {
			fv := rv.Field(i)
			k := fv.Kind()
			if (k == reflect.Ptr || k == reflect.Slice) && fv.Type() != reflect.TypeOf([]byte(nil)) && fv.Type() != reflect.TypeOf([][]byte(nil)) && fv.CanSet() {
				fv.Set(reflect.Zero(fv.Type()))
			}
		}
		return msg
	}
	f := &vcat.Filler{Tag: tag, Bool: v.Bool, Skip: c15SkipInRequest}
	f.Fill(msg)
	c15FixOrder(msg)
	root := vcat.TypeName(T)
	vcat.Walk(msg, func(l *vcat.Leaf) {
		cl := c15Classify(root, l)
		switch {
		case cl.Role == c15Lower && v.EmptyLower, cl.Role == c15Upper && v.EmptyUpper, cl.Role == c15Point && v.EmptyPoint:
			l.Set(nil)
		}
	})
	return msg
}

func TestVerifC15EncodeRequest(t *testing.T) {
	r := vrep.New("C15", "c15-encode-request",
		"EncodeRequest over the reflected command catalogue: every command type x keyspaces {txn,raw} x ids {0,1,0x0102ff,0xffffff,...} x variants (bool fields false/true incl. reverse, empty lower/upper bounds, empty point keys, sparse message); every bytes leaf of the request is compared with the logical message: key-named leaves must carry the keyspace prefix (lower bound ''=>prefix, upper bound ''=>keyspace end, reverse swaps roles), other leaves must be unchanged, the input message must not be mutated; distinct = (command, field chain, role, variant) judged")
	defer r.Finish(t)
	cat, err := c15Catalogue()
	if err != nil {
		r.Inconc("catalogue: %v", err)
		return
	}
	c15ReportCatalogue(r, cat)
	o := c15NewAgg(r, "encode")
	defer o.Flush()
	rng := vrep.Rand("c15-encode")
	ids := []uint32{0, 1, 0x0102FF, 0x00FFFF, 0xFFFFFE, 0xFFFFFF, uint32(rng.Intn(0xFFFFFF)), uint32(rng.Intn(0xFFFF)) << 8}
	var kss []*c15KS
	for _, id := range ids {
		for _, m := range []Mode{ModeTxn, ModeRaw} {
			ks, err := c15NewKS(m, id)
			if err != nil {
				o.Violate("codec:new:"+fmt.Sprint(id), fmt.Sprintf("NewCodecV2(mode=%d,id=%#x): %v", m, id, err), nil)
				continue
			}
			kss = append(kss, ks)
		}
	}
	excludedSeen := map[string]string{}
	keyFields := map[string]bool{}
	nonKeyFields := map[string]bool{}
	msgTypes := map[string]bool{}
	handled := map[string]bool{}
	for _, c := range cat.Cmds {
		if c.Req == nil {
			continue
		}
		cmd := tikvrpc.CmdType(c.Value)
		label := c15CmdLabel(c)
		root := vcat.TypeName(c.Req)
		msgTypes[root] = true
		for _, ks := range kss {
			for vi, v := range c15Variants() {
				tag := fmt.Sprintf("q%d", vi)
				logical := c15BuildRequest(c.Req, v, tag)
				before := vcat.Wire(logical)
				req := tikvrpc.NewRequest(cmd, logical, kvrpcpb.Context{RegionId: 11, ResourceGroupTag: []byte("rgt")})
				reqCopy := *req
				var enc *tikvrpc.Request
				var encErr error
				if p := c15Safely(func() { enc, encErr = ks.C.EncodeRequest(req) }); p != nil {
					if v.Sparse && label == "DispatchMPPTask" {
						// a dispatch request without task meta is not a well-formed MPP task; the statement does not cover it
						r.Count("sparse_mpp_without_meta_skipped", 1)
						continue
					}
					o.Violate(fmt.Sprintf("encode:%s:panic:sparse=%v", label, v.Sparse),
						fmt.Sprintf("EncodeRequest(%s) panicked under keyspace %s, variant %s: %v (codec v1 takes the same request)", label, ks.Name, v, p),
						map[string]any{"cmd": label, "keyspace": ks.Name, "variant": v.String(), "request": fmt.Sprintf("%+v", logical)})
					continue
				}
				r.Eval(1)
				if encErr != nil {
					r.Count("encode_rejected_with_error", 1)
					r.Distinct("rejected|" + label)
					continue
				}
				if vcat.Wire(logical) != before || !reflect.DeepEqual(*req, reqCopy) {
					o.Violate("encode:"+label+":input-mutated",
						fmt.Sprintf("EncodeRequest(%s) under %s modified its input request (the interface promises a cloned request because the input is reused on retry)", label, ks.Name),
						map[string]any{"cmd": label, "keyspace": ks.Name, "variant": v.String()})
				}
				if enc == nil || enc.Req == nil || reflect.TypeOf(enc.Req) != c.Req || enc.Type != cmd {
					o.Violate("encode:"+label+":wrong-shape", fmt.Sprintf("EncodeRequest(%s) returned type %v / message %T", label, enc.Type, enc.Req), nil)
					continue
				}
				if enc.Req != logical {
					handled[label] = true
				}
				got, _ := c15Leaves(enc.Req)
				want, order := c15Leaves(logical)
				// leaves the codec added (a nil range becoming the whole keyspace) must be keyspace bounds
				for path, gl := range got {
					if _, ok := want[path]; ok {
						continue
					}
					cl := c15Classify(root, gl)
					okAdded := false
					switch cl.Role {
					case c15Lower:
						okAdded = bytes.Equal(gl.Bytes(), ks.Prefix)
					case c15Upper:
						okAdded = ks.isKeyspaceEnd(gl.Bytes())
					}
					if !okAdded && cl.Excluded == "" && len(gl.Bytes()) > 0 {
						o.Field(label, gl.OwnerName()+"."+gl.Name, c15ChainKey(gl), "added", fmt.Sprintf("EncodeRequest(%s) under %s added field %s=%q that the request did not carry (variant %s)", label, ks.Name, path, gl.Bytes(), v), nil)
					}
				}
				for _, path := range order {
					wl := want[path]
					gl, ok := got[path]
					cl := c15Classify(root, wl)
					ck := c15ChainKey(wl)
					fieldID := label + ":" + ck
					if cl.Excluded != "" {
						excludedSeen[root+"."+ck] = cl.Excluded
						continue
					}
					if !ok {
						o.Field(label, wl.OwnerName()+"."+wl.Name, ck, "dropped", fmt.Sprintf("EncodeRequest(%s) under %s dropped field %s", label, ks.Name, path), nil)
						continue
					}
					r.Eval(1)
					of := wl.OwnerName() + "." + wl.Name
					o.Judged(label, of, ck, cl.Role != c15NonKey)
					w, g := wl.Bytes(), gl.Bytes()
					detail := map[string]any{"cmd": label, "keyspace": ks.Name, "variant": v.String(), "field": path,
						"logical": fmt.Sprintf("%q", w), "encoded": fmt.Sprintf("%q", g), "prefix": fmt.Sprintf("%x", ks.Prefix), "owner": wl.OwnerName()}
					if cl.Role == c15NonKey {
						nonKeyFields[fieldID] = true
						if !bytes.Equal(w, g) {
							o.Field(label, of, ck, "nonkey-changed", fmt.Sprintf("EncodeRequest(%s) under %s changed non-key field %s: %q -> %q", label, ks.Name, path, w, g), detail)
						}
						continue
					}
					keyFields[fieldID] = true
					roleName := map[c15Role]string{c15Point: "point", c15Lower: "lower", c15Upper: "upper"}[cl.Role]
					r.Distinct(fmt.Sprintf("%s|%s|bool=%v|empty=%v", fieldID, roleName, v.Bool, len(w) == 0))
					if len(w) == 0 && cl.Role == c15Point {
						// "unset" point key: the statement leaves open whether it stays unset or becomes the bare prefix
						if len(g) != 0 && !bytes.Equal(g, ks.Prefix) {
							o.Field(label, of, ck, "empty-point", fmt.Sprintf("EncodeRequest(%s) under %s turned the empty %s into %q", label, ks.Name, path, g), detail)
						}
						continue
					}
					if bytes.Equal(g, w) {
						// the field went through the codec untouched
						o.Field(label, of, ck, "not-prefixed", fmt.Sprintf("EncodeRequest(%s) under %s: key-bearing field %s (%s of %s) goes on the wire without the keyspace prefix: %q", label, ks.Name, path, roleName, wl.OwnerName(), g), detail)
						continue
					}
					if len(w) == 0 && cl.Role == c15Upper {
						if !ks.isKeyspaceEnd(g) {
							o.Field(label, of, ck, "unbounded-upper", fmt.Sprintf("EncodeRequest(%s) under %s: empty (unbounded) upper bound %s goes on the wire as %q, want the keyspace end %x", label, ks.Name, path, g, ks.End), detail)
						}
						continue
					}
					if !bytes.Equal(g, ks.wire(w)) {
						o.Field(label, of, ck, "wrong-"+roleName, fmt.Sprintf("EncodeRequest(%s) under %s: %s %s=%q goes on the wire as %q, want %x + %q", label, ks.Name, roleName, path, w, g, ks.Prefix, w), detail)
					}
				}
				// a second encoding of the same (reused) request gives the same wire form
				var enc2 *tikvrpc.Request
				if p := c15Safely(func() { enc2, _ = ks.C.EncodeRequest(req) }); p == nil && enc2 != nil {
					if vcat.Wire(enc2.Req) != vcat.Wire(enc.Req) {
						o.Violate("encode:"+label+":retry-differs", fmt.Sprintf("encoding the same %s request twice under %s gives different wire forms", label, ks.Name), nil)
					}
				}
				if r.SampleN() < 4 && label == []string{"Prewrite", "Scan", "RawChecksum", "Cop"}[r.SampleN()] && !v.Sparse && v.Bool {
					r.Sample(map[string]any{"cmd": label, "keyspace": ks.Name, "variant": v.String(), "logical": fmt.Sprintf("%+v", logical), "encoded": fmt.Sprintf("%+v", enc.Req)})
				}
			}
		}
	}
	// concurrent encoding of one shared request (retry path): a write to the
	// input shows up as a race report / input-mutated
	for _, c := range cat.Cmds {
		if c.Req == nil || len(kss) == 0 {
			continue
		}
		logical := c15BuildRequest(c.Req, c15Variant{Bool: true}, "cc")
		before := vcat.Wire(logical)
		req := tikvrpc.NewRequest(tikvrpc.CmdType(c.Value), logical)
		var wg sync.WaitGroup
		for g := 0; g < 4; g++ {
			wg.Add(1)
			go func(g int) {
				defer wg.Done()
				c15Safely(func() { kss[g%len(kss)].C.EncodeRequest(req) })
			}(g)
		}
		wg.Wait()
		r.Eval(1)
		if vcat.Wire(logical) != before {
			o.Violate("encode:"+c15CmdLabel(c)+":input-mutated", "concurrent EncodeRequest modified the shared input request", nil)
		}
	}
	r.Count("request_message_types", len(msgTypes))
	r.Count("key_bearing_request_fields", len(keyFields))
	r.Count("nonkey_request_fields", len(nonKeyFields))
	r.Count("commands_reencoded_by_codec", len(handled))
	r.Count("keyspaces", len(kss))
	r.Count("excluded_request_fields", len(excludedSeen))
	r.Floor("cmd_types", 40)
	r.Floor("key_bearing_request_fields", 50)
	r.Sample(map[string]any{"excluded_request_fields": excludedSeen})
	r.Sample(map[string]any{"key_bearing_request_fields": vcat.SortedKeys(keyFields), "only_parser": cat.OnlyParser, "only_string": cat.OnlyString})
}
