//go:build verif

package locate

// C15 — CodecPDClient: region descriptions coming from PD are keyspace
// relative.  A fake PD holds region layouts over the whole wire key axis
// (several keyspaces, memory-comparable keys); the real CodecPDClient bound to
// one keyspace is asked for regions by logical key / id / range; every
// returned region is compared with the reference intersection of the PD
// region with the keyspace: contained key, clipped bounds ("" at a keyspace
// border), bucket keys stripped, regions wholly outside never returned as if
// they were the caller's.

import (
	"bytes"
	"context"
	"fmt"
	"sort"
	"testing"

	"github.com/pingcap/kvproto/pkg/keyspacepb"
	"github.com/pingcap/kvproto/pkg/metapb"
	"github.com/pingcap/kvproto/pkg/pdpb"
	"github.com/pingcap/log"
	"github.com/tikv/client-go/v2/internal/apicodec"
	"github.com/tikv/client-go/v2/util/codec"
	"github.com/tikv/client-go/v2/verifh/vrep"
	pd "github.com/tikv/pd/client"
	"github.com/tikv/pd/client/clients/router"
	"github.com/tikv/pd/client/opt"
	"github.com/tikv/pd/client/pkg/caller"
	"go.uber.org/zap"
)

type c15Reg struct {
	id         uint64
	start, end []byte // raw full keys; nil = unbounded
	buckets    [][]byte
}

type c15FakePD struct {
	pd.Client
	meta    *keyspacepb.KeyspaceMeta
	regions []c15Reg // sorted, contiguous, covering everything
	calls   map[string]int
	lastKey []byte
}

func c15mem(b []byte) []byte {
	if b == nil {
		return nil
	}
	return codec.EncodeBytes(nil, b)
}

// keys that reached the fake PD without being memory-comparable
var c15BadWireKeys []string

func c15unmem(b []byte) []byte {
	if len(b) == 0 {
		return nil
	}
	_, k, err := codec.DecodeBytes(b, nil)
	if err != nil {
		c15BadWireKeys = append(c15BadWireKeys, fmt.Sprintf("%x", b))
		return b
	}
	return k
}

func (f *c15FakePD) wire(g c15Reg) *router.Region {
	r := &router.Region{Meta: &metapb.Region{Id: g.id, StartKey: c15mem(g.start), EndKey: c15mem(g.end), RegionEpoch: &metapb.RegionEpoch{ConfVer: 1, Version: 1}},
		Leader: &metapb.Peer{Id: g.id*10 + 1, StoreId: 1}}
	if g.buckets != nil {
		r.Buckets = &metapb.Buckets{RegionId: g.id, Version: 3}
		for _, b := range g.buckets {
			r.Buckets.Keys = append(r.Buckets.Keys, c15mem(b))
		}
	}
	return r
}

func (f *c15FakePD) find(raw []byte) int {
	for i, g := range f.regions {
		if (g.start == nil || bytes.Compare(g.start, raw) <= 0) && (g.end == nil || bytes.Compare(raw, g.end) < 0) {
			return i
		}
	}
	return -1
}

func (f *c15FakePD) LoadKeyspace(ctx context.Context, name string) (*keyspacepb.KeyspaceMeta, error) {
	return f.meta, nil
}
func (f *c15FakePD) WithCallerComponent(caller.Component) pd.Client { return f }
func (f *c15FakePD) GetRegion(ctx context.Context, key []byte, opts ...opt.GetRegionOption) (*router.Region, error) {
	f.calls["GetRegion"]++
	f.lastKey = key
	i := f.find(c15unmem(key))
	if i < 0 {
		return nil, nil
	}
	return f.wire(f.regions[i]), nil
}
func (f *c15FakePD) GetPrevRegion(ctx context.Context, key []byte, opts ...opt.GetRegionOption) (*router.Region, error) {
	f.calls["GetPrevRegion"]++
	f.lastKey = key
	i := f.find(c15unmem(key))
	if i <= 0 {
		return nil, nil
	}
	return f.wire(f.regions[i-1]), nil
}
func (f *c15FakePD) GetRegionByID(ctx context.Context, id uint64, opts ...opt.GetRegionOption) (*router.Region, error) {
	f.calls["GetRegionByID"]++
	for _, g := range f.regions {
		if g.id == id {
			return f.wire(g), nil
		}
	}
	return nil, nil
}
func (f *c15FakePD) scan(start, end []byte, limit int) []*router.Region {
	s, e := c15unmem(start), c15unmem(end)
	var out []*router.Region
	for _, g := range f.regions {
		if e != nil && g.start != nil && bytes.Compare(g.start, e) >= 0 {
			continue
		}
		if g.end != nil && bytes.Compare(g.end, s) <= 0 {
			continue
		}
		out = append(out, f.wire(g))
		if limit > 0 && len(out) >= limit {
			break
		}
	}
	return out
}
func (f *c15FakePD) ScanRegions(ctx context.Context, start, end []byte, limit int, opts ...opt.GetRegionOption) ([]*router.Region, error) {
	f.calls["ScanRegions"]++
	return f.scan(start, end, limit), nil
}
func (f *c15FakePD) BatchScanRegions(ctx context.Context, ranges []router.KeyRange, limit int, opts ...opt.GetRegionOption) ([]*router.Region, error) {
	f.calls["BatchScanRegions"]++
	var out []*router.Region
	seen := map[uint64]bool{}
	for _, kr := range ranges {
		for _, r := range f.scan(kr.StartKey, kr.EndKey, 0) {
			if !seen[r.Meta.Id] {
				seen[r.Meta.Id] = true
				out = append(out, r)
			}
		}
	}
	return out, nil
}
func (f *c15FakePD) SplitRegions(ctx context.Context, keys [][]byte, opts ...opt.RegionsOption) (*pdpb.SplitRegionsResponse, error) {
	f.calls["SplitRegions"]++
	f.lastKey = nil
	for _, k := range keys {
		f.lastKey = append(f.lastKey, c15unmem(k)...)
		f.lastKey = append(f.lastKey, '|')
	}
	return &pdpb.SplitRegionsResponse{}, nil
}

func c15pfx(mode apicodec.Mode, id uint32) []byte {
	m := byte('x')
	if mode == apicodec.ModeRaw {
		m = 'r'
	}
	return []byte{m, byte(id >> 16), byte(id >> 8), byte(id)}
}

func c15next(p []byte) []byte {
	e := append([]byte(nil), p...)
	for i := len(e) - 1; i >= 0; i-- {
		e[i]++
		if e[i] != 0 {
			return e
		}
	}
	return nil
}

func c15cat(a []byte, b ...byte) []byte { return append(append([]byte(nil), a...), b...) }

// reference clip of a PD region to the keyspace, logical keys
func c15clip(p, e []byte, g c15Reg) (s, t []byte, ok bool) {
	if g.end != nil && bytes.Compare(g.end, p) <= 0 {
		return nil, nil, false
	}
	if g.start != nil && bytes.Compare(g.start, e) >= 0 {
		return nil, nil, false
	}
	s, t = []byte{}, []byte{}
	if g.start != nil && bytes.Compare(g.start, p) > 0 {
		s = g.start[len(p):]
	}
	if g.end != nil && bytes.Compare(g.end, e) < 0 {
		t = g.end[len(p):]
	}
	return s, t, true
}

func TestVerifC15PDCodec(t *testing.T) {
	r := vrep.New("C15", "c15-pd-codec",
		"CodecPDClient bound to a keyspace over a fake PD whose regions span neighbouring keyspaces: layouts {keyspace inside one giant region, regions straddling the keyspace start and end, region == keyspace, borders exactly at prefix / prefix end} x ids {0,1,0x0102ff,0xffffff} x {txn,raw}; GetRegion/GetPrevRegion/GetRegionByID/ScanRegions/BatchScanRegions/SplitRegions: keys reach PD prefixed+memcomparable, returned regions contain the asked key and equal the reference intersection in logical keys, bucket keys are stripped/clipped, outside regions are refused; distinct = (keyspace, layout, call, key)")
	defer r.Finish(t)
	log.ReplaceGlobals(zap.NewNop(), nil)
	ctx := context.Background()
	rng := vrep.Rand("c15-pd")
	for _, id := range []uint32{0, 1, 0x0102FF, 0xFFFFFF, uint32(rng.Intn(0xFFFFFE)) + 1} {
		for _, mode := range []apicodec.Mode{apicodec.ModeTxn, apicodec.ModeRaw} {
			p := c15pfx(mode, id)
			e := c15next(p)
			ksName := fmt.Sprintf("%c/%#x", p[0], id)
			var below, above []byte // positions in the neighbouring keyspaces
			if id > 0 {
				below = c15cat(c15pfx(mode, id-1), 'm')
			} else {
				below = []byte{p[0] - 1, 'q'}
			}
			above = c15cat(e, 'd')
			layouts := map[string][][]byte{ // split points (raw full keys), sorted
				"giant":         {},
				"straddle":      {below, c15cat(p, 'c'), c15cat(p, 'k'), above},
				"exact":         {p, e},
				"exact+inside":  {below, p, c15cat(p, 0), c15cat(p, 'k'), c15cat(p, 0xFF, 0xFF), e, above},
				"short-borders": {p[:3], c15cat(p, 'g'), c15cat(e, 0)},
				"random":        nil,
			}
			var rnd [][]byte
			for i := 0; i < 6; i++ {
				rnd = append(rnd, c15cat(p, byte(rng.Intn(256)), byte(rng.Intn(256))))
			}
			rnd = append(rnd, below, above)
			sort.Slice(rnd, func(i, j int) bool { return bytes.Compare(rnd[i], rnd[j]) < 0 })
			layouts["random"] = rnd
			var names []string
			for n := range layouts {
				names = append(names, n)
			}
			sort.Strings(names)
			for _, ln := range names {
				splits := layouts[ln]
				fake := &c15FakePD{meta: &keyspacepb.KeyspaceMeta{Keyspace: &keyspacepb.KeyspaceMeta_Id{Id: id}, Name: "ks", State: keyspacepb.KeyspaceState_ENABLED}, calls: map[string]int{}}
				var prev []byte
				for i := 0; i <= len(splits); i++ {
					var end []byte
					if i < len(splits) {
						end = splits[i]
						if prev != nil && bytes.Compare(prev, end) >= 0 {
							continue
						}
					}
					g := c15Reg{id: uint64(100 + i), start: prev, end: end}
					// buckets: region borders plus midpoints that lie inside the region
					g.buckets = append(g.buckets, prev)
					for _, mid := range [][]byte{c15cat(p, 'b'), c15cat(p, 'e'), c15cat(p, 'x'), c15cat(below, 1), c15cat(above, 1)} {
						if (prev == nil || bytes.Compare(prev, mid) < 0) && (end == nil || bytes.Compare(mid, end) < 0) {
							g.buckets = append(g.buckets, mid)
						}
					}
					sort.Slice(g.buckets, func(a, b int) bool { return bytes.Compare(g.buckets[a], g.buckets[b]) < 0 })
					g.buckets = append(g.buckets, end)
					fake.regions = append(fake.regions, g)
					prev = end
				}
				cpd, err := NewCodecPDClientWithKeyspace(mode, fake, "ks")
				if err != nil {
					r.Violate("pd:new", fmt.Sprintf("NewCodecPDClientWithKeyspace(%s): %v", ksName, err), nil)
					continue
				}
				check := func(call string, key []byte, got *router.Region, gerr error, pdIdx int, mustContain bool) {
					r.Eval(1)
					r.Distinct(fmt.Sprintf("%s|%s|%s|%x", ksName, ln, call, key))
					g := fake.regions[pdIdx]
					ws, we, ok := c15clip(p, e, g)
					detail := map[string]any{"keyspace": ksName, "layout": ln, "call": call, "key": fmt.Sprintf("%x", key), "pd_region": fmt.Sprintf("[%x,%x)", g.start, g.end)}
					if !ok {
						r.Count("outside_regions_asked", 1)
						if gerr == nil && got != nil {
							r.Violate("pd:"+call+":outside-returned", fmt.Sprintf("%s/%s: %s returns region [%x,%x) of PD region [%x,%x) which lies outside the keyspace", ksName, ln, call, got.Meta.StartKey, got.Meta.EndKey, g.start, g.end), detail)
						}
						return
					}
					if gerr != nil || got == nil || got.Meta == nil {
						r.Violate("pd:"+call+":lost", fmt.Sprintf("%s/%s: %s(%x) = (%v, %v) although PD region [%x,%x) intersects the keyspace", ksName, ln, call, key, got, gerr, g.start, g.end), detail)
						return
					}
					if got.Meta.Id != g.id || !bytes.Equal(got.Meta.StartKey, ws) || !bytes.Equal(got.Meta.EndKey, we) {
						r.Violate("pd:"+call+":clip", fmt.Sprintf("%s/%s: %s(%x): PD region %d [%x,%x) comes back as %d [%x,%x), want [%x,%x)", ksName, ln, call, key, g.id, g.start, g.end, got.Meta.Id, got.Meta.StartKey, got.Meta.EndKey, ws, we), detail)
						return
					}
					if mustContain && !(bytes.Compare(got.Meta.StartKey, key) <= 0 && (len(got.Meta.EndKey) == 0 || bytes.Compare(key, got.Meta.EndKey) < 0)) {
						r.Violate("pd:"+call+":not-containing", fmt.Sprintf("%s/%s: %s(%x) returns [%x,%x) which does not contain the key", ksName, ln, call, key, got.Meta.StartKey, got.Meta.EndKey), detail)
					}
					if len(g.start) < 4 || bytes.Compare(g.start, p) < 0 {
						r.Count("regions_clipped_at_start", 1)
					}
					if g.end == nil || bytes.Compare(g.end, e) > 0 {
						r.Count("regions_clipped_at_end", 1)
					}
					// buckets
					if got.Buckets != nil {
						var want [][]byte
						want = append(want, ws)
						for _, b := range g.buckets[1 : len(g.buckets)-1] {
							if bytes.Compare(b, p) > 0 && bytes.Compare(b, e) < 0 {
								want = append(want, b[len(p):])
							}
						}
						want = append(want, we)
						same := len(want) == len(got.Buckets.Keys)
						for i := 0; same && i < len(want); i++ {
							same = bytes.Equal(want[i], got.Buckets.Keys[i])
						}
						r.Count("bucket_lists", 1)
						if !same {
							r.Violate("pd:"+call+":buckets", fmt.Sprintf("%s/%s: %s: bucket keys %x of PD region [%x,%x) come back as %x, want %x", ksName, ln, call, g.buckets, g.start, g.end, got.Buckets.Keys, want), detail)
						}
					}
				}
				keys := [][]byte{{}, {0}, []byte("a"), []byte("c"), []byte("d"), []byte("g"), []byte("k"), []byte("z"), {0xFF, 0xFF}, {0xFF, 0xFF, 0xFF}, {byte(rng.Intn(256)), byte(rng.Intn(256))}}
				for _, k := range keys {
					full := c15cat(p, k...)
					idx := fake.find(full)
					got, gerr := cpd.GetRegion(ctx, k)
					if !bytes.Equal(c15unmem(fake.lastKey), full) && len(fake.lastKey) > 0 {
						r.Violate("pd:GetRegion:key-on-wire", fmt.Sprintf("%s: GetRegion(%x) asks PD for %x, want memcomparable(%x)", ksName, k, fake.lastKey, full), nil)
					}
					check("GetRegion", k, got, gerr, idx, true)
					got, gerr = cpd.GetPrevRegion(ctx, k)
					if idx > 0 {
						check("GetPrevRegion", k, got, gerr, idx-1, false)
					} else if got != nil {
						r.Violate("pd:GetPrevRegion:phantom", fmt.Sprintf("%s/%s: GetPrevRegion(%x) returns a region although PD has none", ksName, ln, k), nil)
					}
				}
				for i, g := range fake.regions {
					got, gerr := cpd.GetRegionByID(ctx, g.id)
					check("GetRegionByID", nil, got, gerr, i, false)
				}
				// scans: whole keyspace and sub-ranges
				type rg struct{ s, e []byte }
				for _, q := range []rg{{nil, nil}, {[]byte("b"), nil}, {nil, []byte("j")}, {[]byte("c"), []byte("k")}, {[]byte("d"), []byte("d\x00")}, {[]byte{0xFF}, nil}} {
					for _, call := range []string{"ScanRegions", "BatchScanRegions"} {
						var got []*router.Region
						var gerr error
						if call == "ScanRegions" {
							got, gerr = cpd.ScanRegions(ctx, q.s, q.e, 0)
						} else {
							got, gerr = cpd.BatchScanRegions(ctx, []router.KeyRange{{StartKey: q.s, EndKey: q.e}}, 0)
						}
						r.Eval(1)
						r.Distinct(fmt.Sprintf("%s|%s|%s|%x|%x", ksName, ln, call, q.s, q.e))
						if gerr != nil {
							r.Violate("pd:"+call+":error", fmt.Sprintf("%s/%s: %s(%x,%x) fails: %v", ksName, ln, call, q.s, q.e, gerr), nil)
							continue
						}
						// reference: PD regions intersecting [p+s, e==''?keyspace end:p+e), clipped
						lo := c15cat(p, q.s...)
						hi := e
						if len(q.e) > 0 {
							hi = c15cat(p, q.e...)
						}
						var want []c15Reg
						for _, g := range fake.regions {
							if g.start != nil && bytes.Compare(g.start, hi) >= 0 {
								continue
							}
							if g.end != nil && bytes.Compare(g.end, lo) <= 0 {
								continue
							}
							want = append(want, g)
						}
						ok := len(got) == len(want)
						for i := 0; ok && i < len(want); i++ {
							ws, we, in := c15clip(p, e, want[i])
							ok = in && got[i].Meta.Id == want[i].id && bytes.Equal(got[i].Meta.StartKey, ws) && bytes.Equal(got[i].Meta.EndKey, we)
						}
						// the scan result covers the asked range without gaps
						for i := 1; ok && i < len(got); i++ {
							ok = bytes.Equal(got[i-1].Meta.EndKey, got[i].Meta.StartKey)
						}
						r.Count("scans", 1)
						if !ok {
							desc := ""
							for _, g := range got {
								desc += fmt.Sprintf("%d[%x,%x) ", g.Meta.Id, g.Meta.StartKey, g.Meta.EndKey)
							}
							wd := ""
							for _, g := range want {
								ws, we, _ := c15clip(p, e, g)
								wd += fmt.Sprintf("%d[%x,%x) ", g.id, ws, we)
							}
							r.Violate("pd:"+call+":regions", fmt.Sprintf("%s/%s: %s(%x,%x) = %s, want %s", ksName, ln, call, q.s, q.e, desc, wd), map[string]any{"keyspace": ksName, "layout": ln})
						}
					}
				}
				// split keys reach PD prefixed + memcomparable
				fake.lastKey = nil
				cpd.SplitRegions(ctx, [][]byte{[]byte("s1"), {}, {0xFF}})
				wantSplit := string(c15cat(p, 's', '1')) + "|" + string(p) + "|" + string(c15cat(p, 0xFF)) + "|"
				r.Eval(1)
				if string(fake.lastKey) != wantSplit {
					r.Violate("pd:SplitRegions:keys-on-wire", fmt.Sprintf("%s: SplitRegions sends %x, want %x", ksName, fake.lastKey, wantSplit), nil)
				}
				if r.SampleN() < 3 && ln == "straddle" {
					got, _ := cpd.ScanRegions(ctx, nil, nil, 0)
					desc := ""
					for _, g := range got {
						desc += fmt.Sprintf("%d[%x,%x) ", g.Meta.Id, g.Meta.StartKey, g.Meta.EndKey)
					}
					pdd := ""
					for _, g := range fake.regions {
						pdd += fmt.Sprintf("%d[%x,%x) ", g.id, g.start, g.end)
					}
					r.Sample(map[string]any{"keyspace": ksName, "layout": ln, "pd_regions": pdd, "scan_whole_keyspace": desc})
				}
			}
		}
	}
	if len(c15BadWireKeys) > 0 {
		n := len(c15BadWireKeys)
		if n > 5 {
			n = 5
		}
		r.Violate("pd:key-on-wire", fmt.Sprintf("%d keys reached PD without the keyspace prefix + memory-comparable encoding, e.g. %v", len(c15BadWireKeys), c15BadWireKeys[:n]), nil)
	}
	r.Floor("regions_clipped_at_start", 50)
	r.Floor("regions_clipped_at_end", 50)
	r.Floor("outside_regions_asked", 50)
	r.Floor("scans", 200)
	r.Floor("bucket_lists", 200)
}
