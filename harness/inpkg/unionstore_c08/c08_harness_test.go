//go:build verif

package unionstore

// C08 — both in-memory write buffers (radix tree "ART", red-black tree "RBT")
// behave as one ordered map with nested undo.  Runtime monitor: generated
// operation sequences are executed in lock-step on the real ART buffer, the
// real RBT buffer and the reference model of c08_model_test.go; after every
// operation the results and an audit of the whole observable state are
// compared.  This file holds the executor; c08_test.go holds the workloads.

import (
	"bytes"
	"context"
	"fmt"
	"hash/fnv"
	"math/rand"
	"sort"
	"strings"

	"github.com/pingcap/log"
	"github.com/tikv/client-go/v2/kv"
	"github.com/tikv/client-go/v2/verifh/vrep"
	"go.uber.org/zap"
)

func init() {
	// The ART iterator reports misuse with logger.Panic: keep the panic, drop the log lines.
	log.ReplaceGlobals(zap.NewNop(), &log.ZapProperties{})
}

// ---------------------------------------------------------------- implementations under test

type c08FlagIter interface {
	Iterator
	Flags() kv.KeyFlags
	HasValue() bool
	Handle() MemKeyHandle
}

type c08Impl struct {
	name    string
	db      MemBuffer
	iterF   func(lo, hi []byte) c08FlagIter
	iterRF  func(hi []byte) c08FlagIter
	selHist func(k []byte, p func([]byte) bool) ([]byte, error)
	keyByH  func(h MemKeyHandle) []byte
	valByH  func(h MemKeyHandle) ([]byte, bool)
}

func c08NewArt() *c08Impl {
	db := newArtDBWithContext()
	return &c08Impl{name: "art", db: db,
		iterF:   func(lo, hi []byte) c08FlagIter { return db.IterWithFlags(lo, hi) },
		iterRF:  func(hi []byte) c08FlagIter { return db.IterReverseWithFlags(hi) },
		selHist: db.SelectValueHistory, keyByH: db.GetKeyByHandle, valByH: db.GetValueByHandle}
}

func c08NewRbt() *c08Impl {
	db := newRbtDBWithContext()
	return &c08Impl{name: "rbt", db: db,
		iterF:   func(lo, hi []byte) c08FlagIter { return db.IterWithFlags(lo, hi) },
		iterRF:  func(hi []byte) c08FlagIter { return db.IterReverseWithFlags(hi) },
		selHist: db.SelectValueHistory, keyByH: db.GetKeyByHandle, valByH: db.GetValueByHandle}
}

// ---------------------------------------------------------------- operations

type c08Op struct {
	K      string // kind
	Key    []byte
	Val    []byte
	F      []kv.FlagsOp
	Lo, Hi []byte
	N      int
	E, B   uint64 // limits
	Keys   [][]byte
	Inner  []c08Op
}

func c08B(b []byte) string {
	if b == nil {
		return "nil"
	}
	if len(b) <= 24 {
		return fmt.Sprintf("%x", b) + "h"
	}
	h := fnv.New32a()
	h.Write(b)
	return fmt.Sprintf("%x..(len=%d,fnv=%08x)", b[:8], len(b), h.Sum32())
}

var c08FlagNames = map[kv.FlagsOp]string{
	kv.SetPresumeKeyNotExists: "SetPresumeKNE", kv.DelPresumeKeyNotExists: "DelPresumeKNE", kv.SetKeyLocked: "SetKeyLocked",
	kv.DelKeyLocked: "DelKeyLocked", kv.SetNeedLocked: "SetNeedLocked", kv.DelNeedLocked: "DelNeedLocked",
	kv.SetKeyLockedValueExists: "SetLockedValExists", kv.SetKeyLockedValueNotExists: "SetLockedValNotExists",
	kv.DelNeedCheckExists: "DelNeedCheckExists", kv.SetPrewriteOnly: "SetPrewriteOnly", kv.SetIgnoredIn2PC: "SetIgnoredIn2PC",
	kv.SetReadable: "SetReadable", kv.SetNewlyInserted: "SetNewlyInserted", kv.SetAssertExist: "SetAssertExist",
	kv.SetAssertNotExist: "SetAssertNotExist", kv.SetAssertUnknown: "SetAssertUnknown", kv.SetAssertNone: "SetAssertNone",
	kv.SetNeedConstraintCheckInPrewrite: "SetNeedCC", kv.DelNeedConstraintCheckInPrewrite: "DelNeedCC",
	kv.SetPreviousPresumeKNE: "SetPrevPresumeKNE", kv.SetKeyLockedInShareMode: "SetShare", kv.SetKeyLockedInExclusiveMode: "SetExclusive",
}

var c08AllFlagOps = func() []kv.FlagsOp {
	var out []kv.FlagsOp
	for op := range c08FlagNames {
		out = append(out, op)
	}
	sort.Slice(out, func(i, j int) bool { return out[i] < out[j] })
	return out
}()

func (o c08Op) String() string {
	var sb strings.Builder
	sb.WriteString(o.K)
	sb.WriteString("(")
	switch o.K {
	case "set", "setf", "del", "delf", "upd":
		sb.WriteString(c08B(o.Key))
		if o.K == "set" || o.K == "setf" {
			sb.WriteString("," + c08B(o.Val))
		}
		for _, f := range o.F {
			sb.WriteString("," + c08FlagNames[f])
		}
	case "get", "selhist":
		fmt.Fprintf(&sb, "%s,%d", c08B(o.Key), o.N)
	case "iter", "iterrev", "iterf", "iterrevf", "snapiter", "snapiterrev", "foreach", "foreachrev", "batched", "batchedrev", "bsiw", "bsiwrev":
		fmt.Fprintf(&sb, "lo=%s,hi=%s,n=%d", c08B(o.Lo), c08B(o.Hi), o.N)
	case "iaw":
		fmt.Fprintf(&sb, "lo=%s,hi=%s,n=%d", c08B(o.Lo), c08B(o.Hi), o.N)
	case "batchget":
		for _, k := range o.Keys {
			sb.WriteString(c08B(k) + " ")
		}
	case "limits":
		fmt.Fprintf(&sb, "entry=%d,buffer=%d", o.E, o.B)
	default:
		fmt.Fprintf(&sb, "%d", o.N)
	}
	for _, in := range o.Inner {
		sb.WriteString(" > " + in.String())
	}
	sb.WriteString(")")
	return sb.String()
}

// ---------------------------------------------------------------- one run = one sequence on ART, RBT and the model

type c08CP struct {
	n    int
	real [2]*MemDBCheckpoint
}

type c08Got struct {
	key, val []byte
	hasVal   bool
	flags    kv.KeyFlags
	h        MemKeyHandle
}

type c08Run struct {
	r       *vrep.Report
	fam     string
	seq     int
	rng     *rand.Rand
	m       *c08Model
	impls   []*c08Impl
	pool    [][]byte
	valLens []int
	heavy   bool
	trace   []string
	cps     []c08CP
	handles [2]map[string]MemKeyHandle
	stop    bool
	failed  bool
	nops    int
	ctx     context.Context
	lastP   string
	entryL  uint64
	bufL    uint64
	wrote   int
	evals   int
	counts  map[string]int
	fps     []string
}

func c08NewRun(r *vrep.Report, fam string, seq int, rng *rand.Rand) *c08Run {
	x := &c08Run{r: r, fam: fam, seq: seq, rng: rng, m: c08NewModel(), impls: []*c08Impl{c08NewArt(), c08NewRbt()}, ctx: context.Background()}
	x.handles[0], x.handles[1] = map[string]MemKeyHandle{}, map[string]MemKeyHandle{}
	x.counts = map[string]int{}
	return x
}

// observations are buffered per run and handed to the shared report once, at the end
func (x *c08Run) eval(n int)               { x.evals += n }
func (x *c08Run) count(name string, n int) { x.counts[name] += n }
func (x *c08Run) distinct(fp string)       { x.fps = append(x.fps, fp) }

func (x *c08Run) flush() {
	x.r.Eval(x.evals)
	for k, v := range x.counts {
		x.r.Count(k, v)
	}
	for _, fp := range x.fps {
		x.r.Distinct(fp)
	}
	x.evals, x.counts, x.fps = 0, map[string]int{}, nil
}

func (x *c08Run) fail(sig, format string, a ...any) {
	x.stop, x.failed = true, true
	tr := x.trace
	if len(tr) > 400 {
		tr = append([]string{fmt.Sprintf("... %d earlier operations omitted (same seed and seq reproduce them)", len(tr)-400)}, tr[len(tr)-400:]...)
	}
	x.r.Violate(sig, fmt.Sprintf(format, a...)+fmt.Sprintf(" [family=%s seq=%d after %d ops]", x.fam, x.seq, len(x.trace)),
		map[string]any{"family": x.fam, "seq": x.seq, "ops": tr})
}

// try runs f and reports whether it panicked.
func (x *c08Run) try(f func()) (panicked bool) {
	defer func() {
		if p := recover(); p != nil {
			panicked = true
			x.lastP = fmt.Sprint(p)
			if len(x.lastP) > 300 {
				x.lastP = x.lastP[:300]
			}
		}
	}()
	f()
	return false
}

// must runs f on an implementation; a panic is a violation (the buffer failed on a legal request).
func (x *c08Run) must(what string, im *c08Impl, f func()) bool {
	if x.try(f) {
		x.fail("panic:"+what+":"+im.name, "%s panicked on %s: %s", what, im.name, x.lastP)
		return false
	}
	return true
}

func c08Clone(b []byte) []byte {
	if b == nil {
		return nil
	}
	return append([]byte{}, b...)
}

var errC08Runaway = fmt.Errorf("the iterator yields more items than the buffer holds keys: it never ends")

// iterFailed reports an iterator that returned an error or does not end.
func (x *c08Run) iterFailed(what string, im *c08Impl, err error) {
	if err == errC08Runaway {
		x.fail(what+":never-ends:"+im.name, "%s on %s: %v", what, im.name, err)
		return
	}
	x.fail(what+":error:"+im.name, "%s on %s failed: %v", what, im.name, err)
}

// drain reads an iterator to its end.
func (x *c08Run) drain(it Iterator, max int) (out []c08Got, err error) {
	fi, _ := it.(c08FlagIter)
	for it.Valid() {
		g := c08Got{key: c08Clone(it.Key())}
		if fi != nil {
			g.flags, g.hasVal, g.h = fi.Flags(), fi.HasValue(), fi.Handle()
			if g.hasVal {
				g.val = c08Clone(it.Value())
			}
		} else {
			g.hasVal, g.val = true, c08Clone(it.Value())
		}
		out = append(out, g)
		if len(out) > max {
			return out, errC08Runaway
		}
		if err := it.Next(); err != nil {
			return out, err
		}
	}
	it.Close()
	return out, nil
}

func (x *c08Run) maxItems() int { return 2*len(x.m.keys) + 64 }

func c08ItemStr(k []byte, v []byte, hasVal bool) string {
	if !hasVal {
		return c08B(k) + "=<flags only>"
	}
	return c08B(k) + "=" + c08B(v)
}

// cmpList compares what an implementation yielded with the model's list.
func (x *c08Run) cmpList(sig string, im *c08Impl, got []c08Got, want []c08Item, withFlags bool, limit int) bool {
	if limit >= 0 && len(want) > limit {
		want = want[:limit]
	}
	n := len(got)
	if len(want) < n {
		n = len(want)
	}
	for i := 0; i < n; i++ {
		g, w := got[i], want[i]
		if string(g.key) != w.key || g.hasVal != w.hasVal || (w.hasVal && !bytes.Equal(g.val, w.val)) {
			x.fail(sig+":"+im.name, "%s on %s: item %d is %s, model has %s", sig, im.name, i, c08ItemStr(g.key, g.val, g.hasVal), c08ItemStr([]byte(w.key), w.val, w.hasVal))
			return false
		}
		if withFlags && c08ObsReal(g.flags) != w.flags {
			x.fail(sig+":flags:"+im.name, "%s on %s: key %s has flags %+v, model %+v", sig, im.name, c08B(g.key), c08ObsReal(g.flags), w.flags)
			return false
		}
	}
	if len(got) != len(want) {
		var extra string
		if len(got) > len(want) {
			extra = "unexpected " + c08ItemStr(got[n].key, got[n].val, got[n].hasVal)
		} else {
			extra = "missing " + c08ItemStr([]byte(want[n].key), want[n].val, want[n].hasVal)
		}
		x.fail(sig+":"+im.name, "%s on %s: %d items, model has %d (%s)", sig, im.name, len(got), len(want), extra)
		return false
	}
	return true
}

func (x *c08Run) cmpGet(sig string, im *c08Impl, key, got []byte, err error, want []byte, wantE c08Err) bool {
	if e := c08Classify(err); e != wantE {
		x.fail(sig+":err:"+im.name, "%s(%s) on %s returned %v (%v), model says %v", sig, c08B(key), im.name, e, err, wantE)
		return false
	}
	if wantE == eNil && !bytes.Equal(got, want) {
		x.fail(sig+":value:"+im.name, "%s(%s) on %s returned %s, model says %s", sig, c08B(key), im.name, c08B(got), c08B(want))
		return false
	}
	return true
}

// ---------------------------------------------------------------- audit of the whole observable state

func (x *c08Run) auditCounts() {
	wl, ws, wd := x.m.len(), x.m.size(), x.m.dirty
	for _, im := range x.impls {
		var l, s int
		var d bool
		if !x.must("Len/Size/Dirty", im, func() { l, s, d = im.db.Len(), im.db.Size(), im.db.Dirty() }) {
			return
		}
		if l != wl {
			x.fail("accounting:len:"+im.name, "Len() on %s is %d, model says %d", im.name, l, wl)
			return
		}
		if s != ws {
			x.fail("accounting:size:"+im.name, "Size() on %s is %d, model says %d", im.name, s, ws)
			return
		}
		if d != wd {
			x.fail("accounting:dirty:"+im.name, "Dirty() on %s is %v, model says %v", im.name, d, wd)
			return
		}
		x.eval(3)
	}
}

func (x *c08Run) checkKey(im *c08Impl, idx int, key []byte) bool {
	wv, we := x.m.get(key)
	var ent kv.ValueEntry
	var v []byte
	var err error
	if !x.must("Get", im, func() { ent, err = im.db.Get(x.ctx, key) }) || !x.cmpGet("Get", im, key, ent.Value, err, wv, we) {
		return false
	}
	if !x.must("GetLocal", im, func() { v, err = im.db.GetLocal(x.ctx, key) }) || !x.cmpGet("GetLocal", im, key, v, err, wv, we) {
		return false
	}
	wf, wfe := x.m.getFlags(key)
	var f kv.KeyFlags
	if !x.must("GetFlags", im, func() { f, err = im.db.GetFlags(key) }) {
		return false
	}
	if e := c08Classify(err); e != wfe {
		x.fail("GetFlags:err:"+im.name, "GetFlags(%s) on %s returned %v, model says %v", c08B(key), im.name, e, wfe)
		return false
	}
	if wfe == eNil && c08ObsReal(f) != wf.obs() {
		x.fail("GetFlags:flags:"+im.name, "GetFlags(%s) on %s = %+v, model %+v", c08B(key), im.name, c08ObsReal(f), wf.obs())
		return false
	}
	sv, se := x.m.snapGet(key)
	if !x.must("SnapshotGetter.Get", im, func() { ent, err = im.db.SnapshotGetter().Get(x.ctx, key) }) || !x.cmpGet("SnapshotGetter.Get", im, key, ent.Value, err, sv, se) {
		return false
	}
	x.eval(4)
	return true
}

func (x *c08Run) audit(full bool) {
	if x.stop {
		return
	}
	x.auditCounts()
	if x.stop || !full {
		return
	}
	wantAll := x.m.scan(nil, nil, false, true)
	wantAllRev := x.m.scan(nil, nil, true, true)
	wantVals := x.m.scan(nil, nil, false, false)
	wantValsRev := x.m.scan(nil, nil, true, false)
	wantSnap := x.m.snapScan(nil, nil, false)
	wantSnapRev := x.m.snapScan(nil, nil, true)
	var raw [2][]c08Got
	for idx, im := range x.impls {
		var got []c08Got
		var err error
		scan := func(sig string, mk func() Iterator, want []c08Item, withFlags bool) bool {
			if !x.must(sig, im, func() { got, err = x.drain(mk(), x.maxItems()) }) {
				return false
			}
			if err != nil {
				x.iterFailed(sig, im, err)
				return false
			}
			x.eval(1)
			return x.cmpList(sig, im, got, want, withFlags, -1)
		}
		if !scan("IterWithFlags(nil,nil)", func() Iterator { return im.iterF(nil, nil) }, wantAll, true) {
			return
		}
		raw[idx] = got
		// key handles: stable names of the entries
		for _, g := range got {
			x.handles[idx][string(g.key)] = g.h
		}
		if !scan("IterReverseWithFlags(nil)", func() Iterator { return im.iterRF(nil) }, wantAllRev, true) ||
			!scan("Iter(nil,nil)", func() Iterator { it, _ := im.db.Iter(nil, nil); return it }, wantVals, false) ||
			!scan("IterReverse(nil,nil)", func() Iterator { it, _ := im.db.IterReverse(nil, nil); return it }, wantValsRev, false) ||
			!scan("SnapshotIter(nil,nil)", func() Iterator { return im.db.SnapshotIter(nil, nil) }, wantSnap, false) ||
			!scan("SnapshotIterReverse(nil,nil)", func() Iterator { return im.db.SnapshotIterReverse(nil, nil) }, wantSnapRev, false) {
			return
		}
		// point reads of every pool key (sampled for large pools)
		if len(x.pool) <= 48 {
			for _, k := range x.pool {
				if !x.checkKey(im, idx, k) {
					return
				}
			}
		} else {
			for i := 0; i < 24; i++ {
				if !x.checkKey(im, idx, x.pool[x.rng.Intn(len(x.pool))]) {
					return
				}
			}
		}
		// handles obtained now or earlier name the same key and its current value
		hk := make([]string, 0, len(x.handles[idx]))
		for k := range x.handles[idx] {
			hk = append(hk, k)
		}
		sort.Strings(hk)
		if len(hk) > 64 {
			x.rng.Shuffle(len(hk), func(i, j int) { hk[i], hk[j] = hk[j], hk[i] })
			hk = hk[:64]
		}
		for _, k := range hk {
			h := x.handles[idx][k]
			var gk, gv []byte
			var ok bool
			if !x.must("GetKeyByHandle/GetValueByHandle", im, func() { gk = c08Clone(im.keyByH(h)); gv, ok = im.valByH(h); gv = c08Clone(gv) }) {
				return
			}
			wv, we := x.m.get([]byte(k))
			if string(gk) != k {
				x.fail("handle:key:"+im.name, "GetKeyByHandle on %s returned %s for the handle of %s", im.name, c08B(gk), c08B([]byte(k)))
				return
			}
			if ok != (we == eNil) || (ok && !bytes.Equal(gv, wv)) {
				x.fail("handle:value:"+im.name, "GetValueByHandle(%s) on %s = (%s,%v), model value %s (%v)", c08B([]byte(k)), im.name, c08B(gv), ok, c08B(wv), we)
				return
			}
			x.eval(1)
		}
		// stages
		for h := 1; h <= x.m.depth(); h++ {
			if !x.inspect(im, h) {
				return
			}
		}
		if x.m.depth() > 0 {
			if !x.snapshotObject(im, nil, nil, false, -1) || !x.snapshotObject(im, nil, nil, true, -1) {
				return
			}
		}
	}
	// ART and RBT must agree bit for bit on the flags
	for i := range raw[0] {
		if i < len(raw[1]) && raw[0][i].flags != raw[1][i].flags {
			x.fail("flags:art-vs-rbt", "flags of %s: art %#x rbt %#x", c08B(raw[0][i].key), raw[0][i].flags, raw[1][i].flags)
			return
		}
	}
	if !x.heavy {
		x.distinct(x.fingerprint(wantAll))
	}
}

func (x *c08Run) fingerprint(all []c08Item) string {
	var sb strings.Builder
	for _, it := range all {
		fmt.Fprintf(&sb, "%x=%x/%v/%v|", it.key, it.val, it.hasVal, it.flags)
	}
	fmt.Fprintf(&sb, "S%v C%d D%v", x.m.stages, len(x.cps), x.m.dirty)
	return sb.String()
}

func (x *c08Run) inspect(im *c08Impl, h int) bool {
	var got []c08Got
	if !x.must("InspectStage", im, func() {
		im.db.InspectStage(h, func(k []byte, f kv.KeyFlags, v []byte) {
			got = append(got, c08Got{key: c08Clone(k), val: c08Clone(v), hasVal: true, flags: f})
		})
	}) {
		return false
	}
	// the order of the callbacks is not specified: compare as a set, and each key once
	sort.SliceStable(got, func(i, j int) bool { return bytes.Compare(got[i].key, got[j].key) < 0 })
	x.eval(1)
	return x.cmpList(fmt.Sprintf("InspectStage(%d of %d)", h, x.m.depth()), im, got, x.m.inspect(h), true, -1)
}

// snapshotObject checks GetSnapshot(): Get, ForEachInSnapshotRange and BatchedSnapshotIter.
func (x *c08Run) snapshotObject(im *c08Impl, lo, hi []byte, rev bool, stopAfter int) bool {
	want := x.m.snapScan(lo, hi, rev)
	var got []c08Got
	var err error
	var snap MemBufferSnapshot
	if !x.must("GetSnapshot", im, func() { snap = im.db.GetSnapshot() }) {
		return false
	}
	defer snap.Close()
	if !x.must("ForEachInSnapshotRange", im, func() {
		err = snap.ForEachInSnapshotRange(lo, hi, func(k, v []byte) (bool, error) {
			got = append(got, c08Got{key: c08Clone(k), val: c08Clone(v), hasVal: true})
			return stopAfter >= 0 && len(got) >= stopAfter, nil
		}, rev)
	}) {
		return false
	}
	if err != nil {
		x.iterFailed("ForEachInSnapshotRange", im, err)
		return false
	}
	lim := -1
	if stopAfter > 0 {
		lim = stopAfter
	}
	if stopAfter == 0 {
		lim = 1 // stop is evaluated after the first callback
	}
	if !x.cmpList("ForEachInSnapshotRange", im, got, want, false, lim) {
		return false
	}
	if !x.must("BatchedSnapshotIter", im, func() { got, err = x.drain(snap.BatchedSnapshotIter(lo, hi, rev), x.maxItems()) }) {
		return false
	}
	if err != nil {
		x.iterFailed(fmt.Sprintf("BatchedSnapshotIter(reverse=%v)", rev), im, err)
		return false
	}
	if !x.cmpList("BatchedSnapshotIter", im, got, want, false, -1) {
		return false
	}
	// ... and item by item with the plain snapshot iterator over the same range
	var plain []c08Got
	if !x.must("SnapshotIter", im, func() {
		if rev {
			plain, err = x.drain(im.db.SnapshotIterReverse(hi, lo), x.maxItems())
		} else {
			plain, err = x.drain(im.db.SnapshotIter(lo, hi), x.maxItems())
		}
	}) {
		return false
	}
	if err != nil {
		x.iterFailed("SnapshotIter", im, err)
		return false
	}
	for i := 0; i < len(got) || i < len(plain); i++ {
		if i >= len(got) || i >= len(plain) || !bytes.Equal(got[i].key, plain[i].key) || !bytes.Equal(got[i].val, plain[i].val) {
			x.fail("BatchedSnapshotIter:differs-from-SnapshotIter:"+im.name, "BatchedSnapshotIter(reverse=%v) on %s differs from SnapshotIter at item %d (%d vs %d items)", rev, im.name, i, len(got), len(plain))
			return false
		}
	}
	x.noteBatches(want, rev)
	// point reads through the snapshot object
	for i := 0; i < 3 && len(x.pool) > 0; i++ {
		k := x.pool[x.rng.Intn(len(x.pool))]
		var ent kv.ValueEntry
		wv, we := x.m.snapGet(k)
		if !x.must("GetSnapshot().Get", im, func() { ent, err = snap.Get(x.ctx, k) }) || !x.cmpGet("GetSnapshot().Get", im, k, ent.Value, err, wv, we) {
			return false
		}
	}
	x.eval(3)
	return true
}

// ---------------------------------------------------------------- executing one operation

func (x *c08Run) exec(op c08Op) {
	if x.stop {
		return
	}
	x.trace = append(x.trace, op.String())
	x.count("op_"+op.K, 1)
	switch op.K {
	case "set", "setf", "del", "delf", "upd":
		x.execWrite(op)
	case "limits":
		x.entryL, x.bufL = op.E, op.B
		x.m.entryLimit, x.m.bufLimit = x.entryL, x.bufL
		for _, im := range x.impls {
			if !x.must("SetEntrySizeLimit", im, func() { im.db.SetEntrySizeLimit(x.entryL, x.bufL) }) {
				return
			}
		}
	case "staging":
		want := x.m.staging()
		for _, im := range x.impls {
			var h int
			if !x.must("Staging", im, func() { h = im.db.Staging() }) {
				return
			}
			if h != want {
				x.fail("staging:handle:"+im.name, "Staging() on %s returned %d at depth %d", im.name, h, want-1)
				return
			}
		}
	case "release":
		h := x.m.depth()
		x.m.release()
		for _, im := range x.impls {
			if !x.must("Release", im, func() { im.db.Release(h) }) {
				return
			}
		}
	case "cleanup":
		h := x.m.depth()
		before := len(x.m.log)
		touched := x.m.cleanup()
		x.count("undone_writes", before-len(x.m.log))
		x.dropCheckpoints()
		for _, im := range x.impls {
			if !x.must("Cleanup", im, func() { im.db.Cleanup(h) }) {
				return
			}
			if !x.checkUndone("Cleanup", im, touched) {
				return
			}
		}
	case "wronghandle":
		x.execWrongHandle(op)
	case "checkpoint":
		cp := c08CP{n: x.m.checkpoint()}
		for i, im := range x.impls {
			if !x.must("Checkpoint", im, func() { cp.real[i] = im.db.Checkpoint() }) {
				return
			}
		}
		x.cps = append(x.cps, cp)
	case "revert":
		cp := x.cps[op.N]
		before := len(x.m.log)
		touched := x.m.revert(cp.n)
		x.count("undone_writes", before-len(x.m.log))
		x.dropCheckpoints()
		for i, im := range x.impls {
			if !x.must("RevertToCheckpoint", im, func() { im.db.RevertToCheckpoint(cp.real[i]) }) {
				return
			}
			if !x.checkUndone("RevertToCheckpoint", im, touched) {
				return
			}
		}
	case "get":
		for idx, im := range x.impls {
			if !x.checkKey(im, idx, op.Key) {
				return
			}
		}
	case "batchget":
		x.execBatchGet(op)
	case "iter", "iterrev", "iterf", "iterrevf", "snapiter", "snapiterrev":
		x.execIter(op)
	case "foreach", "foreachrev", "batched", "batchedrev":
		for _, im := range x.impls {
			if !x.snapshotObject(im, op.Lo, op.Hi, strings.HasSuffix(op.K, "rev"), op.N) {
				return
			}
		}
	case "inspect":
		for _, im := range x.impls {
			if !x.inspect(im, op.N) {
				return
			}
		}
	case "selhist":
		x.execSelHist(op)
	case "iaw":
		x.execIterAfterWrite(op)
	case "bsiw", "bsiwrev":
		x.execBatchedInterleaved(op)
	default:
		panic("unknown op " + op.K)
	}
}

// checkUndone: after an undo every key whose writes were taken back shows the value it had before them.
func (x *c08Run) checkUndone(what string, im *c08Impl, touched []string) bool {
	for _, name := range touched {
		wv, we := x.m.get([]byte(name))
		var v []byte
		var err error
		if !x.must("GetLocal", im, func() { v, err = im.db.GetLocal(x.ctx, []byte(name)) }) {
			return false
		}
		if e := c08Classify(err); e != we || (we == eNil && !bytes.Equal(v, wv)) {
			x.fail(what+":value-not-restored:"+im.name, "after %s on %s key %s reads (%s,%v), before the undone writes it was (%s,%v)", what, im.name, c08B([]byte(name)), c08B(v), e, c08B(wv), we)
			return false
		}
		x.eval(1)
	}
	return true
}

// dropCheckpoints forgets checkpoints that lie above the end of the log now.
func (x *c08Run) dropCheckpoints() {
	keep := x.cps[:0]
	for _, cp := range x.cps {
		if cp.n <= len(x.m.log) {
			keep = append(keep, cp)
		}
	}
	x.cps = keep
}

func (x *c08Run) execWrite(op c08Op) {
	var val []byte
	switch op.K {
	case "set", "setf":
		val = op.Val
	case "del", "delf":
		val = []byte{}
	}
	var want c08Err
	if (op.K == "set" || op.K == "setf") && len(val) == 0 {
		want = eNilValue
	} else {
		want = x.m.write(op.Key, val, op.F)
	}
	if want == eNil && val != nil {
		x.wrote += len(val) + 20
	}
	for _, im := range x.impls {
		// hand over private copies and scribble over them afterwards: the buffer must not keep the caller's slices
		k, v := c08Clone(op.Key), c08Clone(op.Val)
		var err error
		if !x.must(op.K, im, func() {
			switch op.K {
			case "set":
				err = im.db.Set(k, v)
			case "setf":
				err = im.db.SetWithFlags(k, v, op.F...)
			case "del":
				err = im.db.Delete(k)
			case "delf":
				err = im.db.DeleteWithFlags(k, op.F...)
			case "upd":
				im.db.UpdateFlags(k, op.F...)
			}
		}) {
			return
		}
		for i := range k {
			k[i] ^= 0xA5
		}
		for i := range v {
			v[i] ^= 0xA5
		}
		got := c08Classify(err)
		if op.K == "upd" {
			// UpdateFlags has no result; the buffer limit does not apply to it observably
			continue
		}
		if got != want {
			sig := "write:err:" + im.name
			if got == eEntryTooLarge || want == eEntryTooLarge || got == eKeyTooLarge || want == eKeyTooLarge || got == eTxnTooLarge || want == eTxnTooLarge {
				sig = "limit:" + want.String() + "-expected:" + im.name
			}
			x.fail(sig, "%s on %s returned %v (%v), model says %v (entry limit %d, buffer limit %d, model size %d)", op.String(), im.name, got, err, want, x.m.entryLimit, x.m.bufLimit, x.m.size())
			return
		}
		x.eval(1)
	}
	switch want {
	case eTxnTooLarge:
		// the transaction is doomed; what the buffer holds afterwards is not specified
		x.count("buffer_limit_hit", 1)
		x.stop = true
		return
	case eEntryTooLarge:
		x.count("entry_limit_hit", 1)
	case eKeyTooLarge:
		x.count("key_limit_hit", 1)
	}
	for idx, im := range x.impls {
		if !x.checkKey(im, idx, op.Key) {
			return
		}
	}
}

func (x *c08Run) execWrongHandle(op c08Op) {
	d := x.m.depth()
	var h int
	release := op.N%2 == 0
	switch (op.N / 2) % 3 {
	case 0:
		h = 0 // "0 is the invalid and no-effect handle"
	case 1:
		h = d + 1 + (op.N/6)%2
	case 2:
		if d < 2 {
			h = 0
		} else {
			h = 1 + (op.N/6)%(d-1)
		}
	}
	var out [2]bool
	for i, im := range x.impls {
		out[i] = x.try(func() {
			if release {
				im.db.Release(h)
			} else {
				im.db.Cleanup(h)
			}
		})
	}
	if h == 0 && (out[0] || out[1]) {
		x.fail("handle0:panic", "Release/Cleanup(0) panicked (art=%v rbt=%v): %s", out[0], out[1], x.lastP)
		return
	}
	if out[0] != out[1] {
		x.fail("wrong-handle:art-vs-rbt", "release=%v handle=%d depth=%d: art panicked=%v, rbt panicked=%v", release, h, d, out[0], out[1])
		return
	}
	if out[0] {
		x.count("wrong_handle_panics", 1)
	}
	x.eval(1)
}

func (x *c08Run) execBatchGet(op c08Op) {
	want := map[string][]byte{}
	if x.m.len() > 0 {
		for _, k := range op.Keys {
			if v, e := x.m.get(k); e == eNil {
				want[string(k)] = v
			}
		}
	}
	for _, im := range x.impls {
		var got map[string]kv.ValueEntry
		var err error
		if !x.must("BatchGet", im, func() { got, err = im.db.BatchGet(x.ctx, op.Keys) }) {
			return
		}
		if err != nil {
			x.fail("BatchGet:error:"+im.name, "BatchGet on %s failed: %v", im.name, err)
			return
		}
		if len(got) != len(want) {
			x.fail("BatchGet:"+im.name, "BatchGet on %s returned %d entries, model %d", im.name, len(got), len(want))
			return
		}
		for k, v := range want {
			g, ok := got[k]
			if !ok || !bytes.Equal(g.Value, v) {
				x.fail("BatchGet:"+im.name, "BatchGet on %s: key %s -> (%s,%v), model %s", im.name, c08B([]byte(k)), c08B(g.Value), ok, c08B(v))
				return
			}
		}
		x.eval(1)
	}
}

func (x *c08Run) execIter(op c08Op) {
	var want []c08Item
	withFlags := false
	switch op.K {
	case "iter":
		want = x.m.scan(op.Lo, op.Hi, false, false)
	case "iterrev":
		want = x.m.scan(op.Lo, op.Hi, true, false)
	case "iterf":
		want, withFlags = x.m.scan(op.Lo, op.Hi, false, true), true
	case "iterrevf":
		want, withFlags = x.m.scan(nil, op.Hi, true, true), true
	case "snapiter":
		want = x.m.snapScan(op.Lo, op.Hi, false)
	case "snapiterrev":
		want = x.m.snapScan(op.Lo, op.Hi, true)
	}
	if len(want) > 0 {
		x.count("bounded_scans_nonempty", 1)
	}
	for _, im := range x.impls {
		var got []c08Got
		var err, cerr error
		if !x.must(op.K, im, func() {
			var it Iterator
			switch op.K {
			case "iter":
				it, cerr = im.db.Iter(op.Lo, op.Hi)
			case "iterrev":
				it, cerr = im.db.IterReverse(op.Hi, op.Lo)
			case "iterf":
				it = im.iterF(op.Lo, op.Hi)
			case "iterrevf":
				it = im.iterRF(op.Hi)
			case "snapiter":
				it = im.db.SnapshotIter(op.Lo, op.Hi)
			case "snapiterrev":
				it = im.db.SnapshotIterReverse(op.Hi, op.Lo)
			}
			if cerr == nil {
				got, err = x.drain(it, x.maxItems())
			}
		}) {
			return
		}
		if cerr != nil {
			err = cerr
		}
		if err != nil {
			x.iterFailed(op.K+"[bounded]", im, err)
			return
		}
		x.eval(1)
		if !x.cmpList(op.K+"[bounded]", im, got, want, withFlags, -1) {
			return
		}
	}
}

func c08Pred(kind int, cur []byte) func([]byte) bool {
	switch kind % 6 {
	case 0:
		return func([]byte) bool { return true }
	case 1:
		return func([]byte) bool { return false }
	case 2:
		return func(v []byte) bool { return !bytes.Equal(v, cur) }
	case 3:
		return func(v []byte) bool { return len(v) != len(cur) }
	case 4:
		return func(v []byte) bool { return len(v) == 0 }
	default:
		return func(v []byte) bool { return len(v) > 0 && v[0]&1 == 0 }
	}
}

func (x *c08Run) execSelHist(op c08Op) {
	cur, _ := x.m.get(op.Key)
	pred := c08Pred(op.N, cur)
	acc, none, we := x.m.selectHistory(op.Key, pred)
	var res [2][]byte
	var nils [2]bool
	for i, im := range x.impls {
		var v []byte
		var err error
		if !x.must("SelectValueHistory", im, func() { v, err = im.selHist(op.Key, pred); v = c08Clone(v) }) {
			return
		}
		if e := c08Classify(err); e != we {
			x.fail("SelectValueHistory:err:"+im.name, "SelectValueHistory(%s) on %s returned %v, model %v", c08B(op.Key), im.name, e, we)
			return
		}
		if we != eNil {
			continue
		}
		res[i], nils[i] = v, v == nil
		ok := (v == nil && none) || (v != nil && c08ContainsBytes(acc, v))
		// a tombstone in the history is an empty, non-nil value
		if !ok {
			var as []string
			for _, a := range acc {
				as = append(as, c08B(a))
			}
			x.fail("SelectValueHistory:value:"+im.name, "SelectValueHistory(%s, pred %d) on %s returned %s, model accepts %v (none=%v)", c08B(op.Key), op.N%6, im.name, c08B(v), as, none)
			return
		}
		x.eval(1)
	}
	if we == eNil && (nils[0] != nils[1] || !bytes.Equal(res[0], res[1])) {
		x.fail("SelectValueHistory:art-vs-rbt", "SelectValueHistory(%s, pred %d): art %s, rbt %s", c08B(op.Key), op.N%6, c08B(res[0]), c08B(res[1]))
	}
}

// execIterAfterWrite: an iterator is created and partly consumed, then a write
// happens, then the iterator is used again.  It must fail loudly (panic or
// error) or keep returning data that is true of the buffer's current content.
func (x *c08Run) execIterAfterWrite(op c08Op) {
	kind, steps := op.N%3, op.N/3
	rev := kind == 1
	withFlags := kind == 2
	pre := x.m.scan(op.Lo, op.Hi, rev, withFlags)
	its := make([]Iterator, 2)
	var last [2][]byte
	var hasLast [2]bool
	for i, im := range x.impls {
		var got []c08Got
		if !x.must("iter-before-write", im, func() {
			switch kind {
			case 0:
				its[i], _ = im.db.Iter(op.Lo, op.Hi)
			case 1:
				its[i], _ = im.db.IterReverse(op.Hi, op.Lo)
			case 2:
				its[i] = im.iterF(op.Lo, op.Hi)
			}
			it := its[i]
			fi, _ := it.(c08FlagIter)
			for n := 0; n < steps && it.Valid(); n++ {
				g := c08Got{key: c08Clone(it.Key()), hasVal: true}
				if fi != nil {
					g.flags, g.hasVal = fi.Flags(), fi.HasValue()
				}
				if g.hasVal {
					g.val = c08Clone(it.Value())
				}
				got = append(got, g)
				if it.Next() != nil {
					break
				}
			}
		}) {
			return
		}
		if !x.cmpList("iter-before-write", im, got, pre, withFlags, steps) {
			return
		}
		if len(got) > 0 {
			last[i], hasLast[i] = got[len(got)-1].key, true
		}
	}
	for _, in := range op.Inner {
		x.exec(in)
		if x.stop {
			return
		}
	}
	for i, im := range x.impls {
		it := its[i]
		fi, _ := it.(c08FlagIter)
		var got []c08Got
		var iterErr error
		panicked := x.try(func() {
			for it.Valid() {
				g := c08Got{key: c08Clone(it.Key()), hasVal: true}
				if fi != nil {
					g.flags, g.hasVal = fi.Flags(), fi.HasValue()
				}
				if g.hasVal {
					g.val = c08Clone(it.Value())
				}
				got = append(got, g)
				if len(got) > x.maxItems() {
					iterErr = fmt.Errorf("runaway")
					return
				}
				if iterErr = it.Next(); iterErr != nil {
					return
				}
			}
		})
		switch {
		case panicked:
			x.count("iter_after_write_panicked_"+im.name, 1)
		case iterErr != nil && iterErr.Error() != "runaway":
			x.count("iter_after_write_error_"+im.name, 1)
		default:
			x.count("iter_after_write_continued_"+im.name, 1)
		}
		if iterErr != nil && iterErr.Error() == "runaway" {
			x.fail("iter-after-write:runaway:"+im.name, "iterator on %s used after a write never ends", im.name)
			return
		}
		// whatever was returned before it failed (or without failing) must be true now
		prev, hasPrev := last[i], hasLast[i]
		for _, g := range got {
			bad := ""
			if hasPrev && ((!rev && bytes.Compare(g.key, prev) <= 0) || (rev && bytes.Compare(g.key, prev) >= 0)) {
				bad = "out of order after " + c08B(prev)
			} else if !c08InRange(string(g.key), op.Lo, op.Hi) {
				bad = "outside the bounds"
			} else {
				wf, fe := x.m.getFlags(g.key)
				wv, ve := x.m.get(g.key)
				switch {
				case fe != eNil:
					bad = "a key the buffer does not hold"
				case g.hasVal != (ve == eNil) || (g.hasVal && !bytes.Equal(g.val, wv)):
					bad = "a stale value, current " + c08ItemStr(g.key, wv, ve == eNil)
				case withFlags && c08ObsReal(g.flags) != wf.obs():
					bad = "stale flags"
				}
			}
			if bad != "" {
				x.fail("iter-after-write:wrong-data:"+im.name, "iterator on %s used after %s returned %s: %s (no panic before it)", im.name, op.Inner[0].K, c08ItemStr(g.key, g.val, g.hasVal), bad)
				return
			}
			prev, hasPrev = g.key, true
		}
		x.eval(1)
	}
}

// noteBatches records (coverage only, decides nothing) how demanding a batched scan was: the number of
// batches it needs (32, 64, 128, ... items) and whether a forward scan re-uses its resume-key buffer for a
// key that is shorter than an earlier resume key and is followed by its own extensions - the situation in
// which "last key + 0x00" has to be rebuilt correctly for no key to be skipped.
func (x *c08Run) noteBatches(want []c08Item, rev bool) {
	if len(want) > 32 {
		x.count("batched_scans_2plus_batches", 1)
	}
	if len(want) > 96 {
		x.count("batched_scans_3plus_batches", 1)
	}
	if rev {
		return
	}
	var buf []byte
	for end, size := 31, 32; end < len(want)-1; {
		key, next := want[end].key, want[end+1].key
		n := len(key)
		if cap(buf) >= n+1 {
			buf = buf[:cap(buf)]
			if buf[n] != 0 && len(next) > n && next[:n] == key && next[n] < buf[n] {
				x.count("batched_scans_short_resume_key_after_longer", 1)
				return
			}
			copy(buf, key)
			buf[n] = 0
		} else {
			buf = make([]byte, n+1)
			copy(buf, key)
		}
		if size < 4096 {
			size *= 2
		}
		end += size
	}
}

// execBatchedInterleaved: BatchedSnapshotIter "tolerates interleaving reads and writes".
func (x *c08Run) execBatchedInterleaved(op c08Op) {
	rev := op.K == "bsiwrev"
	want := x.m.snapScan(op.Lo, op.Hi, rev)
	snaps := make([]MemBufferSnapshot, 2)
	its := make([]Iterator, 2)
	for i, im := range x.impls {
		if !x.must("GetSnapshot/BatchedSnapshotIter", im, func() {
			snaps[i] = im.db.GetSnapshot()
			its[i] = snaps[i].BatchedSnapshotIter(op.Lo, op.Hi, rev)
		}) {
			return
		}
	}
	var got [2][]c08Got
	inner := op.Inner
	for step := 0; step <= len(want)+2; step++ {
		any := false
		for i, im := range x.impls {
			if !x.must("BatchedSnapshotIter(interleaved)", im, func() {
				if its[i].Valid() {
					any = true
					got[i] = append(got[i], c08Got{key: c08Clone(its[i].Key()), val: c08Clone(its[i].Value()), hasVal: true})
				}
			}) {
				return
			}
		}
		if !any {
			break
		}
		if len(inner) > 0 && step%op.N == 0 {
			x.exec(inner[0])
			inner = inner[1:]
			if x.stop {
				return
			}
		}
		for i, im := range x.impls {
			var err error
			if !x.must("BatchedSnapshotIter.Next", im, func() {
				if its[i].Valid() {
					err = its[i].Next()
				}
			}) {
				return
			}
			if err != nil {
				x.fail("BatchedSnapshotIter:interleaved:error:"+im.name, "BatchedSnapshotIter.Next on %s failed after a staged write: %v", im.name, err)
				return
			}
		}
	}
	for i, im := range x.impls {
		its[i].Close()
		snaps[i].Close()
		if !x.cmpList("BatchedSnapshotIter:interleaved", im, got[i], want, false, -1) {
			return
		}
		x.eval(1)
	}
	if len(want) > 32 {
		x.count("batched_iter_refills", 1)
	}
	x.noteBatches(want, rev)
	if len(want) > 96 {
		x.count("batched_interleaved_3plus_batches", 1)
	}
}

// ---------------------------------------------------------------- generating operations

func (x *c08Run) pickKey() []byte { return x.pool[x.rng.Intn(len(x.pool))] }

func (x *c08Run) pickVal() []byte {
	n := x.valLens[x.rng.Intn(len(x.valLens))]
	return c08MakeVal(n, byte(x.rng.Intn(4)))
}

// c08MakeVal builds a value of n bytes that is determined by (n, seed).
func c08MakeVal(n int, seed byte) []byte {
	v := make([]byte, n)
	if n <= 4 {
		for i := range v {
			v[i] = 'w' + (seed+byte(i))%2
		}
		return v
	}
	for i := range v {
		v[i] = byte(i*7) + seed*31 + 1
	}
	return v
}

func (x *c08Run) pickFlagOps() []kv.FlagsOp {
	n := 1 + x.rng.Intn(3)
	if x.rng.Intn(12) == 0 {
		n = 0
	}
	out := make([]kv.FlagsOp, n)
	for i := range out {
		out[i] = c08AllFlagOps[x.rng.Intn(len(c08AllFlagOps))]
	}
	return out
}

// pickBound: nil, a key of the pool, just above / just below a key, or anything.
// emptyOK says whether an empty non-nil bound may be produced: only for lower
// bounds, where "" and "unbounded" mean the same; what an empty non-nil upper
// bound means is not documented (ART reads it as unbounded, RBT's forward
// iterator as "below the empty key") and is therefore never asked.
func (x *c08Run) pickBound(emptyOK bool) []byte {
	b := x.pickBound0(emptyOK)
	if b != nil && len(b) == 0 && !emptyOK {
		return nil // the pool may hold the empty key
	}
	return b
}

func (x *c08Run) pickBound0(emptyOK bool) []byte {
	switch w := x.rng.Intn(100); {
	case w < 25:
		return nil
	case w < 60:
		return c08Clone(x.pickKey())
	case w < 72:
		return append(c08Clone(x.pickKey()), 0x00)
	case w < 82:
		k := c08Clone(x.pickKey())
		if len(k) == 0 {
			return []byte{0x00}
		}
		if k[len(k)-1] == 0 {
			k = k[:len(k)-1]
		} else {
			k[len(k)-1]--
			k = append(k, 0xFF)
		}
		if len(k) == 0 && !emptyOK {
			return nil
		}
		return k
	case w < 90:
		k := c08Clone(x.pickKey())
		if len(k) > 1 {
			k = k[:x.rng.Intn(len(k))]
		}
		if len(k) == 0 && !emptyOK {
			return nil
		}
		return k
	case w < 95 && emptyOK:
		return []byte{}
	default:
		k := make([]byte, 1+x.rng.Intn(3))
		for i := range k {
			k[i] = byte(x.rng.Intn(256))
		}
		return k
	}
}

func (x *c08Run) genWrite() c08Op {
	switch w := x.rng.Intn(100); {
	case w < 42:
		return c08Op{K: "set", Key: x.pickKey(), Val: x.pickVal()}
	case w < 55:
		return c08Op{K: "setf", Key: x.pickKey(), Val: x.pickVal(), F: x.pickFlagOps()}
	case w < 72:
		return c08Op{K: "upd", Key: x.pickKey(), F: x.pickFlagOps()}
	case w < 92:
		return c08Op{K: "del", Key: x.pickKey()}
	default:
		return c08Op{K: "delf", Key: x.pickKey(), F: x.pickFlagOps()}
	}
}

func (x *c08Run) revertible() []int {
	var out []int
	for i, cp := range x.cps {
		if x.m.revertible(cp.n) {
			out = append(out, i)
		}
	}
	return out
}

func (x *c08Run) gen() c08Op {
	d := x.m.depth()
	for {
		switch w := x.rng.Intn(100); {
		case w < 40:
			return x.genWrite()
		case w < 46:
			if d < 4 {
				return c08Op{K: "staging"}
			}
		case w < 50:
			if d > 0 {
				return c08Op{K: "release"}
			}
		case w < 55:
			if d > 0 {
				return c08Op{K: "cleanup"}
			}
		case w < 60:
			if len(x.cps) < 6 {
				return c08Op{K: "checkpoint"}
			}
		case w < 65:
			if rv := x.revertible(); len(rv) > 0 {
				return c08Op{K: "revert", N: rv[x.rng.Intn(len(rv))]}
			}
		case w < 72:
			switch x.rng.Intn(4) {
			case 0:
				return c08Op{K: "iter", Lo: x.pickBound(true), Hi: x.pickBound(false)}
			case 1:
				return c08Op{K: "iterrev", Lo: x.pickBound(true), Hi: x.pickBound(false)}
			case 2:
				return c08Op{K: "iterf", Lo: x.pickBound(true), Hi: x.pickBound(false)}
			default:
				return c08Op{K: "iterrevf", Hi: x.pickBound(false)}
			}
		case w < 77:
			if x.rng.Intn(2) == 0 {
				return c08Op{K: "snapiter", Lo: x.pickBound(true), Hi: x.pickBound(false)}
			}
			return c08Op{K: "snapiterrev", Lo: x.pickBound(true), Hi: x.pickBound(false)}
		case w < 80:
			if d > 0 {
				k := []string{"foreach", "foreachrev", "batched", "batchedrev"}[x.rng.Intn(4)]
				return c08Op{K: k, Lo: x.pickBound(true), Hi: x.pickBound(false), N: x.rng.Intn(5) - 1}
			}
		case w < 84:
			return c08Op{K: "selhist", Key: x.pickKey(), N: x.rng.Intn(6)}
		case w < 86:
			n := 1 + x.rng.Intn(6)
			ks := make([][]byte, n)
			for i := range ks {
				ks[i] = x.pickKey()
			}
			return c08Op{K: "batchget", Keys: ks}
		case w < 91:
			kind := x.rng.Intn(3)
			return c08Op{K: "iaw", Lo: x.pickBound(true), Hi: x.pickBound(false), N: kind + 3*x.rng.Intn(4), Inner: []c08Op{x.genWrite()}}
		case w < 93:
			return c08Op{K: "wronghandle", N: x.rng.Intn(24)}
		case w < 96:
			if d > 0 {
				k := "bsiw"
				if x.rng.Intn(2) == 0 {
					k = "bsiwrev"
				}
				inner := make([]c08Op, 1+x.rng.Intn(4))
				for i := range inner {
					inner[i] = x.genWrite()
				}
				return c08Op{K: k, Lo: x.pickBound(true), Hi: x.pickBound(false), N: 1 + x.rng.Intn(3), Inner: inner}
			}
		case w < 97:
			return c08Op{K: "set", Key: x.pickKey(), Val: []byte{}}
		case w < 98:
			if d > 0 {
				return c08Op{K: "inspect", N: 1 + x.rng.Intn(d)}
			}
		default:
			return c08Op{K: "get", Key: x.pickBound(true)}
		}
	}
}

// step = one generated operation followed by the audit.
func (x *c08Run) step(op c08Op, full bool) {
	x.exec(op)
	x.audit(full)
	x.nops++
}
