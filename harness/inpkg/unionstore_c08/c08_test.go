//go:build verif

package unionstore

// C08 workloads: seeded random operation sequences over adversarial key
// families, an exhaustive enumeration of short sequences over a tiny operation
// alphabet, and boundary cases for the key / entry / buffer size limits.

import (
	"bytes"
	"encoding/json"
	"fmt"
	"math/rand"
	"os"
	"path/filepath"
	"runtime"
	"sort"
	"strconv"
	"strings"
	"sync"
	"testing"

	"github.com/tikv/client-go/v2/kv"
	"github.com/tikv/client-go/v2/verifh/vrep"
)

// ---------------------------------------------------------------- key families

type c08Fam struct {
	name    string
	pool    [][]byte
	valLens []int
	heavy   bool
	ops     int
}

func c08AllStrings(alpha []byte, maxLen int) [][]byte {
	out := [][]byte{{}}
	var rec func(cur []byte)
	rec = func(cur []byte) {
		if len(cur) == maxLen {
			return
		}
		for _, c := range alpha {
			n := append(c08Clone(cur), c)
			out = append(out, n)
			rec(n)
		}
	}
	rec([]byte{})
	return out
}

func c08Dedup(pool [][]byte) [][]byte {
	seen := map[string]bool{}
	var out [][]byte
	for _, k := range pool {
		if !seen[string(k)] {
			seen[string(k)] = true
			out = append(out, k)
		}
	}
	return out
}

func c08Cat(parts ...[]byte) []byte {
	var out []byte
	for _, p := range parts {
		out = append(out, p...)
	}
	if out == nil {
		out = []byte{}
	}
	return out
}

func c08RandBytes(rng *rand.Rand, n int) []byte {
	b := make([]byte, n)
	for i := range b {
		b[i] = byte(rng.Intn(256))
	}
	return b
}

var c08SmallVals = []int{1, 1, 1, 2, 2, 3}

func c08Family(name string, rng *rand.Rand) c08Fam {
	f := c08Fam{name: name, valLens: c08SmallVals, ops: 60}
	switch name {
	case "tiny", "limits":
		// every string over {a,b} up to length 3, the empty key included: keys that are prefixes of other keys
		f.pool = c08AllStrings([]byte("ab"), 3)
	case "edgebytes":
		f.pool = c08AllStrings([]byte{0x00, 0xFF}, 3)
		f.pool = append(f.pool, []byte{0x01}, []byte{0xFE}, []byte{0x00, 0x01}, []byte{0xFF, 0xFE}, []byte{0xFF, 0xFF, 0xFF, 0xFF}, []byte{0x00, 0x00, 0x00, 0x00})
	case "longprefix":
		// shared prefixes around and beyond the 20 bytes an ART node stores itself
		L := []int{18, 19, 20, 21, 22, 25, 40, 45}[rng.Intn(8)]
		p := c08RandBytes(rng, L)
		if rng.Intn(3) == 0 {
			p = bytes.Repeat([]byte{[]byte{0x00, 0xFF, 'p'}[rng.Intn(3)]}, L)
		}
		f.pool = [][]byte{p, c08Cat(p, []byte{0x00}), c08Cat(p, []byte{0xFF}), c08Cat(p, []byte("x")), c08Cat(p, []byte("xy")), c08Cat(p, []byte("xz")),
			p[:10], p[:L-1], p[:L/2]}
		// keys leaving the common prefix at the positions around the in-node capacity
		for _, j := range []int{L - 1, L - 2, 19, 20, 21, 3} {
			if j < 0 || j >= L {
				continue
			}
			q := c08Clone(p)
			q[j] ^= 0x55
			f.pool = append(f.pool, q, c08Cat(q, []byte("t")), q[:j+1])
		}
		// a second long prefix below the first one
		q := c08Cat(p, []byte("x"), bytes.Repeat([]byte("q"), 19+rng.Intn(6)))
		f.pool = append(f.pool, q, c08Cat(q, []byte("1")), c08Cat(q, []byte("2")), c08Cat(q, []byte{0x00}), q[:len(q)-2])
	case "random":
		alpha := append(c08RandBytes(rng, 4), 0x00, 0xFF)
		for i := 0; i < 24; i++ {
			k := make([]byte, 1+rng.Intn(4))
			for j := range k {
				k[j] = alpha[rng.Intn(len(alpha))]
			}
			f.pool = append(f.pool, k)
		}
	case "fanout":
		// more than 256 siblings under one node, the node's own key, and grand children
		var p []byte
		switch rng.Intn(3) {
		case 0:
			p = []byte{}
		case 1:
			p = c08RandBytes(rng, 1+rng.Intn(3))
		default:
			p = c08RandBytes(rng, 21+rng.Intn(4))
		}
		for b := 0; b < 256; b++ {
			f.pool = append(f.pool, c08Cat(p, []byte{byte(b)}))
		}
		f.pool = append(f.pool, p)
		for i := 0; i < 20; i++ {
			f.pool = append(f.pool, c08Cat(p, []byte{byte(rng.Intn(256))}, []byte("z")))
		}
		f.heavy = true
		f.ops = 50
	case "bigvals":
		f.pool = [][]byte{[]byte("k"), []byte("k1"), []byte("k2"), []byte("m"), {}, []byte("kk")}
		// 4076 = 4096 (first value-log block) - 20 (record header): values that fill blocks exactly, nearly, and overflow them
		f.valLens = []int{1, 2, 2, 3, 4075, 4076, 4077, 1000, 3000, 4056, 8172, 8171, 20000, 70000}
		f.ops = 40
	case "heldsnap":
		f.pool = [][]byte{} // filled by c08RunHeld
		f.heavy = true
	case "batched":
		// 100..600 keys for the batched snapshot iterators, see c08BatchedKeys
		f.pool = c08BatchedKeys(rng)
		f.heavy = true
	default:
		panic("unknown family " + name)
	}
	f.pool = c08Dedup(f.pool)
	return f
}

// c08BatchedKeys builds a sorted list of 100..600 keys of mixed lengths made of dense prefix chains
// (k, k+00, k+00 00, k+"0", k+"1", k+"a", k+ff, k+long tail), k being short (1..3 bytes) or long (>= 24 bytes of
// high bytes).  BatchedSnapshotIter reads 32, 64, 128, 256, ... items per batch and resumes behind the last key of
// a batch; the list is laid out so that, in a scan of the whole list, the batch ends (items 32, 96, 224, 480) fall
// on chain heads: the first on a long one, later ones mostly on short ones that are followed by their extensions.
func c08BatchedKeys(rng *rand.Rand) [][]byte {
	target := 100 + rng.Intn(501)
	nextEnd := func(count int) int {
		for _, e := range []int{31, 95, 223, 479} {
			if e >= count {
				return e
			}
		}
		return -1
	}
	hiFill := []byte{'z', 0xF0, 0xFE, 'q'}
	var out [][]byte
	var prev []byte // stem of the previous group
	for g := 0; len(out) < target && g < 220; g++ {
		first := byte(0x18 + g)
		e := nextEnd(len(out))
		onEnd := false
		if e >= 0 && e-len(out) < 10 {
			// pad the previous group with long keys until the head of this group is item e
			if prev == nil {
				prev = []byte{0x10}
				out = append(out, prev)
			}
			for i := 0; len(out) < e; i++ {
				out = append(out, c08Cat(prev, []byte{0x7F, byte(i >> 8), byte(i)}, bytes.Repeat([]byte{hiFill[rng.Intn(4)]}, rng.Intn(30))))
			}
			onEnd = true
		}
		long := rng.Intn(4) == 0
		if onEnd {
			long = e == 31 || rng.Intn(5) == 0
		}
		var stem []byte
		if long {
			stem = c08Cat([]byte{first}, bytes.Repeat([]byte{hiFill[rng.Intn(4)]}, 23+rng.Intn(18)))
		} else {
			stem = []byte{first}
			for i := rng.Intn(3); i > 0; i-- {
				stem = append(stem, []byte{0x00, '5', 'k', 0xFF}[rng.Intn(4)])
			}
		}
		group := [][]byte{stem}
		for _, ext := range [][]byte{{0x00}, {0x00, 0x00}, {'0'}, {'1'}, {'a'}, {0xFF}, bytes.Repeat([]byte{'y'}, 24+rng.Intn(8)), {0x00, 0xFF}, {'a', 0x00}} {
			if onEnd || rng.Intn(3) > 0 {
				group = append(group, c08Cat(stem, ext))
			}
		}
		out = append(out, group...)
		prev = stem
	}
	sort.Slice(out, func(i, j int) bool { return bytes.Compare(out[i], out[j]) < 0 })
	return out
}

// c08RunBatched is the body of a "batched" sequence: fill the buffer with the key list (directly, or with
// staged-and-cleaned-up and checkpointed-and-reverted noise around it), open a stage, and read the snapshot
// through BatchedSnapshotIter / ForEachInSnapshotRange / SnapshotIter in both directions, unbounded and bounded,
// alone and with later writes in between that the snapshot must not show; then change the snapshot (release or
// cleanup, checkpoint/revert) and read again.
func c08RunBatched(x *c08Run, rng *rand.Rand) {
	keys := x.pool
	mode := rng.Intn(3)
	val := func() []byte { return c08MakeVal(1+rng.Intn(3), byte(rng.Intn(4))) }
	write := func(k []byte) c08Op {
		switch w := rng.Intn(20); {
		case w < 2:
			return c08Op{K: "del", Key: k}
		case w < 4:
			return c08Op{K: "setf", Key: k, Val: val(), F: x.pickFlagOps()}
		default:
			return c08Op{K: "set", Key: k, Val: val()}
		}
	}
	noise := func(n int) {
		for i := 0; i < n && !x.stop; i++ {
			k := keys[rng.Intn(len(keys))]
			switch rng.Intn(3) {
			case 0:
				x.step(write(k), false)
			case 1:
				x.step(write(c08Cat(k, []byte{'0', byte('a' + rng.Intn(3))})), false) // a key the list does not hold
			default:
				x.step(c08Op{K: "upd", Key: k, F: x.pickFlagOps()}, false)
			}
		}
	}
	bound := func(upper bool) []byte {
		switch w := rng.Intn(10); {
		case w < 4:
			return nil
		case w < 8:
			k := c08Clone(keys[rng.Intn(len(keys))])
			if upper && len(k) == 0 {
				return nil
			}
			return k
		default:
			return append(c08Clone(keys[rng.Intn(len(keys))]), 0x00)
		}
	}
	scans := func(n int) {
		for i := 0; i < n && !x.stop; i++ {
			lo, hi := bound(false), bound(true)
			if i < 2 {
				lo, hi = nil, nil
			} else if rng.Intn(3) > 0 {
				hi = nil // long ranges: several batches
			}
			switch w := rng.Intn(7); {
			case i == 0:
				x.step(c08Op{K: "batched", Lo: lo, Hi: hi, N: -1}, false)
			case i == 1:
				x.step(c08Op{K: "batchedrev", Lo: lo, Hi: hi, N: -1}, false)
			case w < 2:
				x.step(c08Op{K: "batched", Lo: lo, Hi: hi, N: rng.Intn(200) - 1}, false)
			case w < 3:
				x.step(c08Op{K: "batchedrev", Lo: lo, Hi: hi, N: rng.Intn(200) - 1}, false)
			case w < 6:
				k := "bsiw"
				if w == 5 {
					k = "bsiwrev"
				}
				inner := make([]c08Op, 3+rng.Intn(8))
				for j := range inner {
					kk := keys[rng.Intn(len(keys))]
					if rng.Intn(2) == 0 {
						kk = c08Cat(kk, []byte{'1', byte('a' + rng.Intn(3))})
					}
					inner[j] = write(kk)
				}
				x.step(c08Op{K: k, Lo: lo, Hi: hi, N: 5 + rng.Intn(40), Inner: inner}, false)
			default:
				if rng.Intn(2) == 0 {
					x.step(c08Op{K: "snapiter", Lo: lo, Hi: hi}, false)
				} else {
					x.step(c08Op{K: "snapiterrev", Lo: lo, Hi: hi}, false)
				}
			}
		}
	}
	// ---- fill
	order := rng.Perm(len(keys))
	if mode == 1 {
		x.step(c08Op{K: "staging"}, false)
		noise(10 + rng.Intn(20))
		x.step(c08Op{K: "cleanup"}, false)
	}
	for i, j := range order {
		if x.stop {
			return
		}
		if mode == 2 && rng.Intn(7) == 0 {
			continue // a subset only
		}
		if mode == 1 && i == len(order)/2 {
			// noise that a revert takes back again, in the middle of the fill
			x.step(c08Op{K: "checkpoint"}, false)
			noise(10 + rng.Intn(20))
			if rv := x.revertible(); len(rv) > 0 {
				x.step(c08Op{K: "revert", N: rv[len(rv)-1]}, false)
			}
		}
		x.step(write(keys[j]), false)
	}
	x.audit(true)
	// ---- read the snapshot of stage[0]
	x.step(c08Op{K: "staging"}, false)
	scans(5 + rng.Intn(4))
	if !x.stop && rng.Intn(2) == 0 {
		// a nested stage with writes, cleaned up or released: the snapshot stays what it was
		x.step(c08Op{K: "staging"}, false)
		noise(10)
		scans(2)
		if rng.Intn(2) == 0 {
			x.step(c08Op{K: "cleanup"}, false)
		} else {
			x.step(c08Op{K: "release"}, false)
		}
		scans(2)
	}
	// ---- change what the snapshot is and read again
	if x.stop {
		return
	}
	noise(15)
	if rng.Intn(2) == 0 {
		x.step(c08Op{K: "cleanup"}, false)
	} else {
		x.step(c08Op{K: "release"}, false)
	}
	if !x.stop && rng.Intn(2) == 0 {
		x.step(c08Op{K: "checkpoint"}, false)
		noise(15)
		if rv := x.revertible(); len(rv) > 0 {
			x.step(c08Op{K: "revert", N: rv[len(rv)-1]}, false)
		}
	}
	x.step(c08Op{K: "staging"}, false)
	scans(4 + rng.Intn(3))
	x.audit(true)
}

// ---------------------------------------------------------------- random sequences

func c08RunSequence(r *vrep.Report, fam string, seq int) *c08Run {
	rng := vrep.Rand(fmt.Sprintf("c08/%s/%d", fam, seq))
	f := c08Family(fam, rng)
	x := c08NewRun(r, fam, seq, rng)
	x.pool, x.valLens, x.heavy = f.pool, f.valLens, f.heavy
	if fam == "limits" || (fam != "batched" && fam != "heldsnap" && rng.Intn(25) == 0) {
		x.step(c08Op{K: "limits", E: uint64(2 + rng.Intn(5)), B: uint64(8 + rng.Intn(30))}, false)
	}
	if fam == "fanout" {
		// bulk phase: grow one node across the 4/16/48/256 thresholds, partly inside a stage
		target := []int{4, 5, 16, 17, 48, 49, 100, 256, 257}[rng.Intn(9)]
		order := rng.Perm(257)
		stageAt := rng.Intn(target + 1)
		for i := 0; i < target && !x.stop; i++ {
			if i == stageAt {
				x.step(c08Op{K: "staging"}, false)
			}
			if i == target/2 && rng.Intn(2) == 0 {
				x.step(c08Op{K: "checkpoint"}, false)
			}
			x.step(c08Op{K: "set", Key: f.pool[order[i]], Val: x.pickVal()}, false)
		}
		x.audit(true)
		if target >= 256 {
			r.Count("fanout_256_or_more_siblings", 1)
		}
	}
	if fam == "batched" {
		c08RunBatched(x, rng)
		f.ops = 0
	}
	if fam == "heldsnap" {
		c08RunHeld(x, rng)
		f.ops = 0
	}
	for i := 0; i < f.ops && !x.stop; i++ {
		// whole-state audit after every undo / stage change, after every third other operation and at the
		// end (every eighth for the large pools); the cheap checks (Len, Size, Dirty, the key written) always
		op := x.gen()
		every := 3
		if x.heavy {
			every = 8
		}
		structural := op.K == "cleanup" || op.K == "revert" || op.K == "release" || op.K == "staging"
		x.step(op, i%every == every-1 || i == f.ops-1 || (structural && !x.heavy))
	}
	// unwind: every open stage is cleaned up or released, then the state is audited once more
	for x.m.depth() > 0 && !x.stop {
		if rng.Intn(2) == 0 {
			x.step(c08Op{K: "cleanup"}, true)
		} else {
			x.step(c08Op{K: "release"}, true)
		}
	}
	x.flush()
	if !x.stop || !x.failed {
		r.Count("sequences", 1)
		r.Count("operations", x.nops)
		r.Count("cp_protected_overwrites", x.m.cpProtectedOverwrites)
		r.Count("cp_protected_values_restored", x.m.cpProtectedRestores)
		if x.wrote > 4096 {
			r.Count("sequences_crossing_value_log_block", 1)
		}
	}
	return x
}

// c08Tag distinguishes the reports of the ASan unit from those of the race/checkptr unit.
func c08Tag() string {
	if t := os.Getenv("VERIF_C08_TAG"); t != "" {
		return "-" + t
	}
	return ""
}

// c08Scale divides a case count by VERIF_C08_DIV (the ASan unit runs a fraction of the thorough workload).
func c08Scale(n int) int {
	if d, _ := strconv.Atoi(os.Getenv("VERIF_C08_DIV")); d > 1 {
		n /= d
		if n < 1 {
			n = 1
		}
	}
	return n
}

// c08Replay returns the (family, seq) named by the witness file of `vcheck.py --replay`.
func c08Replay() (fam string, seq int, ok bool) {
	p := vrep.ReplayPath()
	if p == "" {
		return "", 0, false
	}
	var w struct {
		Detail struct {
			Family string `json:"family"`
			Seq    int    `json:"seq"`
		} `json:"detail"`
	}
	b, err := os.ReadFile(p)
	if err != nil || json.Unmarshal(b, &w) != nil || w.Detail.Family == "" {
		return "", 0, false
	}
	return w.Detail.Family, w.Detail.Seq, true
}

type c08Job struct {
	name string
	run  func()
}

// c08Parallel runs the jobs on a fixed number of workers.  Each worker notes the job it is running in
// $VERIF_OUT/c08-current-<n>.txt first, so that a process-fatal report (checkptr, ASan) identifies the
// candidate sequences; every sequence is reproducible from (seed, family, seq).
func c08Parallel(jobs []c08Job) {
	w := runtime.GOMAXPROCS(0)
	if w > 14 {
		w = 14
	}
	out := os.Getenv("VERIF_OUT")
	ch := make(chan c08Job)
	var wg sync.WaitGroup
	for i := 0; i < w; i++ {
		wg.Add(1)
		go func(i int) {
			defer wg.Done()
			for j := range ch {
				if out != "" {
					os.WriteFile(filepath.Join(out, fmt.Sprintf("c08-current-%d.txt", i)), []byte(j.name+"\n"), 0o644)
				}
				j.run()
			}
		}(i)
	}
	for _, j := range jobs {
		ch <- j
	}
	close(ch)
	wg.Wait()
}

func TestVerifC08Random(t *testing.T) {
	r := vrep.New("C08", "c08-random"+c08Tag(), "seeded random operation sequences (writes with flags, deletes, nested staging/release/cleanup, checkpoint/revert, bounded scans in both directions, snapshot reads, stage inspection, value history, key handles, iterator use after a write, size limits) executed in lock-step on the ART buffer, the RBT buffer and the reference model, every result and a whole-state audit compared after every operation; key families: tiny (all strings over {a,b} up to length 3 incl. the empty key), edgebytes (00/FF strings), longprefix (shared prefixes of 18..45 bytes, divergence around byte 20), random, limits (tiny + small entry/buffer limits), fanout (up to 257 siblings under one node, audits sampled), bigvals (values of 1..70000 bytes crossing value-log blocks), batched (100..600 keys of mixed lengths in dense prefix chains laid out so that the 32/96/224/480-item batch ends of BatchedSnapshotIter fall on chain heads; the snapshot is read through BatchedSnapshotIter / ForEachInSnapshotRange / SnapshotIter forward and reverse, bounded and unbounded, with later writes in between, after cleanup / revert / release), heldsnap (0..3 snapshot iterators - SnapshotIter, SnapshotIterReverse, BatchedSnapshotIter both ways, also over key-less ranges and on the empty buffer - kept open and consumed in steps across staged overwrites, deletes, flag updates, nested stages and new keys that grow inner nodes over 4/16/48 children and make other subtrees allocate nodes of every size class; each yielded item must be the next item of the snapshot as of the iterator's creation); distinct = distinct audited model states (content, flags, stage marks, checkpoints, dirty)")
	defer r.Finish(t)
	plan := []struct {
		fam string
		n   int
	}{
		{"tiny", vrep.Pick(650, 18000)}, {"longprefix", vrep.Pick(650, 18000)}, {"edgebytes", vrep.Pick(500, 12000)},
		{"random", vrep.Pick(500, 12000)}, {"limits", vrep.Pick(350, 8000)}, {"fanout", vrep.Pick(150, 2500)}, {"bigvals", vrep.Pick(200, 4500)},
		{"batched", vrep.Pick(100, 2500)}, {"heldsnap", vrep.Pick(150, 4000)},
	}
	var jobs []c08Job
	var mu sync.Mutex
	samples := 0
	if fam, seq, ok := c08Replay(); ok {
		// re-execute the one sequence of the witness
		for _, p := range plan {
			if p.fam == fam {
				x := c08RunSequence(r, fam, seq)
				t.Logf("replayed family=%s seq=%d: failed=%v\n%s", fam, seq, x.failed, strings.Join(x.trace, "\n"))
			}
		}
		return
	}
	for _, p := range plan {
		for i := 0; i < c08Scale(p.n); i++ {
			fam, i := p.fam, i
			jobs = append(jobs, c08Job{fmt.Sprintf("random family=%s seq=%d seed=%d", fam, i, vrep.Seed()), func() {
				x := c08RunSequence(r, fam, i)
				if i == 0 && !x.failed {
					mu.Lock()
					if samples < 5 {
						samples++
						tr := x.trace
						if len(tr) > 25 {
							tr = tr[len(tr)-25:]
						}
						r.Sample(map[string]any{"family": fam, "seq": i, "last_ops": tr, "final_len": x.m.len(), "final_size": x.m.size()})
					}
					mu.Unlock()
				}
			}})
		}
	}
	c08Parallel(jobs)
	r.Floor("sequences", c08Scale(vrep.Pick(2500, 60000)))
	r.Floor("undone_writes", 1000)
	r.Floor("op_revert", 100)
	r.Floor("cp_protected_overwrites", 5)
	r.Floor("cp_protected_values_restored", 3)
	r.Floor("iter_after_write_panicked_art", 100)
	r.Floor("bounded_scans_nonempty", 1000)
	r.Floor("batched_iter_refills", 1)
	r.Floor("held_items", 5000)
	r.Floor("held_open_over_keyless_range", 100)
	r.Floor("held_closed_early", 50)
	r.Floor("held_node_grown_under_open_iterator_to_5", 30)
	r.Floor("held_node_grown_under_open_iterator_to_17", 30)
	r.Floor("held_node_grown_under_open_iterator_to_49", 30)
	r.Floor("batched_scans_3plus_batches", 200)
	r.Floor("batched_interleaved_3plus_batches", 30)
	r.Floor("batched_scans_short_resume_key_after_longer", 50)
	r.Floor("entry_limit_hit", 20)
	r.Floor("buffer_limit_hit", 20)
	r.Floor("sequences_crossing_value_log_block", 50)
	r.Floor("fanout_256_or_more_siblings", 3)
	r.Assume("the reference model (c08_model_test.go) and bytes.Compare are trusted; the meaning of an empty non-nil upper bound is not documented and never asked (ART: unbounded, RBT forward iterator: nothing)")
}

// ---------------------------------------------------------------- exhaustive short sequences

type c08XOp struct {
	name string
	mk   func(x *c08Run) (c08Op, bool)
}

func c08Alphabet() []c08XOp {
	a, b := []byte("a"), []byte("ab")
	fixed := func(op c08Op) func(*c08Run) (c08Op, bool) { return func(*c08Run) (c08Op, bool) { return op, true } }
	return []c08XOp{
		{"set a w", fixed(c08Op{K: "set", Key: a, Val: []byte("w")})},
		{"set a x", fixed(c08Op{K: "set", Key: a, Val: []byte("x")})},
		{"set a ww", fixed(c08Op{K: "set", Key: a, Val: []byte("ww")})},
		{"set ab w", fixed(c08Op{K: "set", Key: b, Val: []byte("w")})},
		{"set ab x", fixed(c08Op{K: "set", Key: b, Val: []byte("x")})},
		{"del a", fixed(c08Op{K: "del", Key: a})},
		{"del ab", fixed(c08Op{K: "del", Key: b})},
		{"upd a SetKeyLocked", fixed(c08Op{K: "upd", Key: a, F: []kv.FlagsOp{kv.SetKeyLocked}})},
		{"upd a DelKeyLocked", fixed(c08Op{K: "upd", Key: a, F: []kv.FlagsOp{kv.DelKeyLocked}})},
		{"upd a SetPresumeKNE", fixed(c08Op{K: "upd", Key: a, F: []kv.FlagsOp{kv.SetPresumeKeyNotExists}})},
		{"upd ab SetKeyLocked", fixed(c08Op{K: "upd", Key: b, F: []kv.FlagsOp{kv.SetKeyLocked}})},
		{"setf a w SetNeedCC", fixed(c08Op{K: "setf", Key: a, Val: []byte("w"), F: []kv.FlagsOp{kv.SetNeedConstraintCheckInPrewrite}})},
		{"staging", func(x *c08Run) (c08Op, bool) { return c08Op{K: "staging"}, true }},
		{"release", func(x *c08Run) (c08Op, bool) { return c08Op{K: "release"}, x.m.depth() > 0 }},
		{"cleanup", func(x *c08Run) (c08Op, bool) { return c08Op{K: "cleanup"}, x.m.depth() > 0 }},
		{"checkpoint", func(x *c08Run) (c08Op, bool) { return c08Op{K: "checkpoint"}, true }},
		{"revert", func(x *c08Run) (c08Op, bool) {
			rv := x.revertible()
			if len(rv) == 0 {
				return c08Op{}, false
			}
			return c08Op{K: "revert", N: rv[len(rv)-1]}, true
		}},
	}
}

func TestVerifC08Exhaustive(t *testing.T) {
	depth := vrep.Pick(3, 4)
	r := vrep.New("C08", "c08-exhaustive"+c08Tag(), fmt.Sprintf("every sequence of %d operations over a 17-operation alphabet (two prefix-related keys, same-length and different-length overwrites, deletes, persistent and non-persistent flags, staging/release/cleanup, checkpoint/revert; inapplicable operations prune the sequence), whole-state audit after every operation on ART, RBT and the model; distinct = distinct audited model states", depth))
	defer r.Finish(t)
	alpha := c08Alphabet()
	pool := [][]byte{[]byte("a"), []byte("ab"), {}, []byte("b")}
	var jobs []c08Job
	total := 1
	for i := 0; i < depth; i++ {
		total *= len(alpha)
	}
	chunk := (total + 63) / 64
	first, last := 0, total
	if fam, seq, ok := c08Replay(); ok {
		if fam != "exhaustive" {
			return
		}
		first, last, chunk = seq, seq+1, 1
	}
	for start := first; start < last; start += chunk {
		start := start
		jobs = append(jobs, c08Job{fmt.Sprintf("exhaustive codes %d..%d depth=%d", start, start+chunk-1, depth), func() {
			for code := start; code < start+chunk && code < total; code++ {
				x := c08NewRun(r, "exhaustive", code, rand.New(rand.NewSource(int64(code))))
				x.pool, x.valLens = pool, c08SmallVals
				c, ok := code, true
				for d := 0; d < depth && ok && !x.stop; d++ {
					var op c08Op
					if op, ok = alpha[c%len(alpha)].mk(x); ok {
						x.step(op, true)
					}
					c /= len(alpha)
				}
				x.flush()
				if ok && !x.failed {
					r.Count("sequences", 1)
					r.Count("operations", x.nops)
					r.Count("cp_protected_overwrites", x.m.cpProtectedOverwrites)
				} else if !ok {
					r.Count("sequences_pruned", 1)
				}
			}
		}})
	}
	c08Parallel(jobs)
	if last-first != total {
		return
	}
	r.SetExhaustive(true)
	r.Floor("sequences", vrep.Pick(2000, 30000))
	if depth >= 4 {
		r.Floor("cp_protected_overwrites", 1)
	}
}

// ---------------------------------------------------------------- limits

func TestVerifC08Limits(t *testing.T) {
	r := vrep.New("C08", "c08-limits"+c08Tag(), "key / entry / buffer size limits at limit-1, limit, limit+1 on ART, RBT and the model: keys of 65534/65535/65536 bytes (MaxKeyLen = 65535), entries of len(key)+len(value) around SetEntrySizeLimit's entry limit for several key lengths incl. tombstones, buffer size around the buffer limit reached by growth of one value, by a new key and by a tombstone; distinct = distinct (limit, key length, value length, verdict) cases")
	defer r.Finish(t)
	if fam, _, ok := c08Replay(); ok && fam != "keylimit" && fam != "entrylimit" && fam != "bufferlimit" {
		return
	}
	// --- key length
	{
		x := c08NewRun(r, "keylimit", 0, vrep.Rand("c08/keylimit"))
		base := bytes.Repeat([]byte("K"), 65533)
		k34, k35a, k35b, k36 := c08Cat(base, []byte("a")), c08Cat(base, []byte("ab")), c08Cat(base, []byte("ac")), c08Cat(base, []byte("abc"))
		x.pool, x.valLens = [][]byte{k34, k35a, k35b, k36, base}, c08SmallVals
		for _, op := range []c08Op{
			{K: "set", Key: k34, Val: []byte("v")}, {K: "set", Key: k35a, Val: []byte("v")}, {K: "set", Key: k36, Val: []byte("v")},
			{K: "staging"}, {K: "del", Key: k36}, {K: "delf", Key: k36, F: []kv.FlagsOp{kv.SetKeyLocked}}, {K: "upd", Key: k36, F: []kv.FlagsOp{kv.SetKeyLocked}},
			{K: "setf", Key: k36, Val: []byte("v"), F: []kv.FlagsOp{kv.SetKeyLocked}}, {K: "del", Key: k35b}, {K: "upd", Key: k35a, F: []kv.FlagsOp{kv.SetKeyLocked}},
			{K: "iter", Lo: k35a, Hi: k36}, {K: "iterrev", Lo: k34, Hi: k35b}, {K: "cleanup"}, {K: "set", Key: base, Val: []byte("w")},
		} {
			x.step(op, true)
			r.Distinct(fmt.Sprintf("key|%d|%s", len(op.Key), op.K))
		}
		x.flush()
		r.Count("key_cases", x.nops)
	}
	// --- entry size
	for _, L := range []int{1, 2, 3, 10, 100, 4096, 70000} {
		for _, kl := range []int{0, 1, L / 2, L - 1} {
			if kl < 0 || kl > L {
				continue
			}
			x := c08NewRun(r, "entrylimit", L*100000+kl, vrep.Rand("c08/entrylimit"))
			key := bytes.Repeat([]byte("e"), kl)
			x.pool, x.valLens = [][]byte{key, c08Cat(key, []byte("1")), c08Cat(key, []byte("22"))}, c08SmallVals
			x.step(c08Op{K: "limits", E: uint64(L), B: ^uint64(0)}, false)
			for _, vl := range []int{L - kl - 1, L - kl, L - kl + 1} {
				if vl <= 0 {
					continue
				}
				x.step(c08Op{K: "set", Key: key, Val: c08MakeVal(vl, 1)}, true)
				x.step(c08Op{K: "setf", Key: key, Val: c08MakeVal(vl, 2), F: []kv.FlagsOp{kv.SetPresumeKeyNotExists}}, true)
				r.Distinct(fmt.Sprintf("entry|%d|%d|%d", L, kl, vl))
			}
			// tombstones: the entry is the key alone; flag updates are not entries
			for _, dk := range []int{L - 1, L, L + 1} {
				if dk < 0 || dk > 70001 {
					continue
				}
				k := bytes.Repeat([]byte("d"), dk)
				x.pool = append(x.pool, k)
				x.step(c08Op{K: "del", Key: k}, true)
				x.step(c08Op{K: "upd", Key: k, F: []kv.FlagsOp{kv.SetKeyLocked}}, true)
				r.Distinct(fmt.Sprintf("entry-del|%d|%d", L, dk))
			}
			x.flush()
			r.Count("entry_cases", x.nops)
		}
	}
	// --- buffer size
	for _, B := range []int{1, 2, 10, 100, 5000} {
		for shape := 0; shape < 4; shape++ {
			for delta := -1; delta <= 1; delta++ {
				x := c08NewRun(r, "bufferlimit", B*100+shape*10+delta+1, vrep.Rand("c08/bufferlimit"))
				k1, k2 := []byte("b"), []byte("c")
				x.pool, x.valLens = [][]byte{k1, k2, {}}, c08SmallVals
				x.step(c08Op{K: "limits", E: ^uint64(0), B: uint64(B)}, false)
				target := B + delta // size the buffer is driven to by the last write
				switch shape {
				case 0: // one entry of exactly the target size
					if target-1 >= 1 {
						x.step(c08Op{K: "set", Key: k1, Val: c08MakeVal(target-1, 0)}, true)
					}
				case 1: // growth of an existing value inside a stage
					if target-1 >= 2 {
						x.step(c08Op{K: "set", Key: k1, Val: c08MakeVal(1, 0)}, true)
						x.step(c08Op{K: "staging"}, true)
						x.step(c08Op{K: "set", Key: k1, Val: c08MakeVal(target-1, 0)}, true)
					}
				case 2: // a second key pushes the size over
					if target >= 4 {
						x.step(c08Op{K: "set", Key: k1, Val: c08MakeVal(target-3, 0)}, true)
						x.step(c08Op{K: "set", Key: k2, Val: c08MakeVal(1, 0)}, true)
					}
				case 3: // a tombstone (key bytes only) pushes the size over; undone writes free their size again
					if target >= 3 && B >= 3 {
						x.step(c08Op{K: "staging"}, true)
						x.step(c08Op{K: "set", Key: k2, Val: c08MakeVal(B-2, 0)}, true)
						x.step(c08Op{K: "cleanup"}, true)
						x.step(c08Op{K: "set", Key: k1, Val: c08MakeVal(target-2, 0)}, true)
						x.step(c08Op{K: "del", Key: k2}, true)
					}
				}
				r.Distinct(fmt.Sprintf("buffer|%d|%d|%d", B, shape, delta))
				x.flush()
				r.Count("buffer_cases", 1)
			}
		}
	}
	r.Floor("key_limit_hit", 3)
	r.Floor("entry_limit_hit", 20)
	r.Floor("buffer_limit_hit", 10)
}
