//go:build verif

package unionstore

// C08 workload "heldsnap": snapshot iterators that stay open across staged writes.
//
// A snapshot iterator reads what lies below the outermost stage and ignores staged data; the package's own
// TestSnapshotReaderWithWrite keeps a SnapshotIter open while the stage is written to, and the ART allocator
// keeps replaced nodes away from reuse while a snapshot iterator is open (art_arena.go).  Here 0..3 snapshot
// iterators (plain SnapshotIter / SnapshotIterReverse and GetSnapshot().BatchedSnapshotIter, forward and
// reverse, bounded, unbounded and over key-less ranges) are open at a time and consumed in small steps; in
// between the stage is written to: overwrites and deletes of snapshot keys, flag updates, new keys that grow
// the inner nodes across every size boundary (4 -> 5, 16 -> 17, 48 -> 49 children under one prefix) and new
// keys elsewhere that need fresh inner nodes of every size class, nested stages that are released or cleaned
// up.  Every item an open iterator yields must be the next item of the snapshot as of its creation.
//
// Restriction (documented in proposed_fixes/C08-4.md, an open question rather than a demanded property): while a
// plain snapshot iterator is open, a NEW key is only staged where its branching byte is larger than that of all
// its siblings.  The plain ART snapshot iterator keeps child indexes on its stack and a staged insert that
// lands before its cursor inside a node4/node16 shifts the children, so the iterator repeats a key (the
// replacement API, BatchedSnapshotIter / ForEachInSnapshotRange, is the one documented to "tolerate
// interleaving reads and writes").

import (
	"bytes"
	"fmt"
	"math/rand"
)

type c08Held struct {
	id     int
	kind   int // 0 SnapshotIter, 1 SnapshotIterReverse, 2 BatchedSnapshotIter forward, 3 reverse
	lo, hi []byte
	want   []c08Item
	pos    int
	its    [2]Iterator
	snaps  [2]MemBufferSnapshot
}

var c08HeldKinds = []string{"SnapshotIter", "SnapshotIterReverse", "BatchedSnapshotIter(fwd)", "BatchedSnapshotIter(rev)"}

func (x *c08Run) heldOpen(id, kind int, lo, hi []byte) *c08Held {
	rev := kind == 1 || kind == 3
	h := &c08Held{id: id, kind: kind, lo: lo, hi: hi, want: x.m.snapScan(lo, hi, rev)}
	x.trace = append(x.trace, fmt.Sprintf("held-open#%d(%s,lo=%s,hi=%s)", id, c08HeldKinds[kind], c08B(lo), c08B(hi)))
	x.count("held_open_"+c08HeldKinds[kind], 1)
	if len(h.want) == 0 {
		x.count("held_open_over_keyless_range", 1)
	}
	for i, im := range x.impls {
		if !x.must("open "+c08HeldKinds[kind], im, func() {
			switch kind {
			case 0:
				h.its[i] = im.db.SnapshotIter(lo, hi)
			case 1:
				h.its[i] = im.db.SnapshotIterReverse(hi, lo)
			default:
				h.snaps[i] = im.db.GetSnapshot()
				h.its[i] = h.snaps[i].BatchedSnapshotIter(lo, hi, rev)
			}
		}) {
			return nil
		}
	}
	return h
}

// heldAdvance consumes up to n items of an open snapshot iterator on both buffers.
func (x *c08Run) heldAdvance(h *c08Held, n int) {
	x.trace = append(x.trace, fmt.Sprintf("held-advance#%d(%d from %d of %d)", h.id, n, h.pos, len(h.want)))
	for ; n > 0 && !x.stop; n-- {
		for i, im := range x.impls {
			var valid bool
			var k, v []byte
			var err error
			if !x.must("held "+c08HeldKinds[h.kind], im, func() {
				if valid = h.its[i].Valid(); valid {
					k, v = c08Clone(h.its[i].Key()), c08Clone(h.its[i].Value())
					err = h.its[i].Next()
				}
			}) {
				return
			}
			sig := "held-snapshot-iter:" + c08HeldKinds[h.kind] + ":" + im.name
			if h.pos >= len(h.want) {
				if valid {
					x.fail(sig, "%s on %s opened over [%s,%s) and kept open across staged writes yields %s after the %d items of the snapshot", c08HeldKinds[h.kind], im.name, c08B(h.lo), c08B(h.hi), c08ItemStr(k, v, true), len(h.want))
					return
				}
				continue
			}
			w := h.want[h.pos]
			if !valid {
				x.fail(sig, "%s on %s opened over [%s,%s) and kept open across staged writes ends after %d items, the snapshot has %d (next %s)", c08HeldKinds[h.kind], im.name, c08B(h.lo), c08B(h.hi), h.pos, len(h.want), c08ItemStr([]byte(w.key), w.val, true))
				return
			}
			if string(k) != w.key || !bytes.Equal(v, w.val) {
				x.fail(sig, "%s on %s opened over [%s,%s) and kept open across staged writes yields %s as item %d, the snapshot has %s", c08HeldKinds[h.kind], im.name, c08B(h.lo), c08B(h.hi), c08ItemStr(k, v, true), h.pos, c08ItemStr([]byte(w.key), w.val, true))
				return
			}
			if err != nil {
				x.fail(sig+":error", "%s.Next on %s failed while the outermost stage is still open: %v", c08HeldKinds[h.kind], im.name, err)
				return
			}
			x.eval(1)
		}
		if h.pos >= len(h.want) {
			return
		}
		h.pos++
		x.count("held_items", 1)
	}
}

func (x *c08Run) heldClose(h *c08Held) {
	x.trace = append(x.trace, fmt.Sprintf("held-close#%d(at %d of %d)", h.id, h.pos, len(h.want)))
	if h.pos < len(h.want) {
		x.count("held_closed_early", 1)
	}
	for i, im := range x.impls {
		x.must("close "+c08HeldKinds[h.kind], im, func() {
			h.its[i].Close()
			if h.snaps[i] != nil {
				h.snaps[i].Close()
			}
		})
	}
}

// c08HeldGen hands out new keys whose branching byte is larger than that of every sibling ever inserted.
type c08HeldGen struct {
	groups    []byte
	second    map[byte]map[byte]bool // group -> distinct second bytes ever inserted (= children of the group's node)
	maxSecond map[byte]int
	maxThird  map[[2]byte]int
}

func (g *c08HeldGen) sibling(rng *rand.Rand, grp byte) ([]byte, bool) {
	b := g.maxSecond[grp] + 1 + rng.Intn(2)
	if b > 255 {
		return nil, false
	}
	g.maxSecond[grp] = b
	g.second[grp][byte(b)] = true
	return []byte{grp, byte(b)}, true
}

func (g *c08HeldGen) third(rng *rand.Rand, k []byte) ([]byte, bool) {
	p := [2]byte{k[0], k[1]}
	c, ok := g.maxThird[p]
	if !ok {
		c = -1
	}
	c += 1 + rng.Intn(3)
	if c > 255 {
		return nil, false
	}
	g.maxThird[p] = c
	return []byte{k[0], k[1], byte(c)}, true
}

func c08RunHeld(x *c08Run, rng *rand.Rand) {
	gen := &c08HeldGen{second: map[byte]map[byte]bool{}, maxSecond: map[byte]int{}, maxThird: map[[2]byte]int{}}
	val := func() []byte { return c08MakeVal(1+rng.Intn(3), byte(rng.Intn(4))) }
	setNew := func(k []byte) {
		x.pool = append(x.pool, k)
		x.step(c08Op{K: "set", Key: k, Val: val()}, false)
	}
	nextID := 0
	// ---- on some buffers the very first thing is a snapshot iterator over the still empty buffer
	if rng.Intn(6) == 0 {
		x.step(c08Op{K: "staging"}, false)
		for kind := 0; kind < 4; kind++ {
			if rng.Intn(2) == 0 {
				if h := x.heldOpen(nextID, kind, nil, nil); h != nil {
					x.heldAdvance(h, 1)
					x.heldClose(h)
				}
				nextID++
			}
		}
		x.step(c08Op{K: "release"}, false)
	}
	// ---- the committed content: groups of two-byte keys under one first byte, sized around the node capacities
	ng := 6 + rng.Intn(4)
	sizes := []int{1, 1, 2, 3, 3, 4, 4, 4, 5, 15, 16, 16, 17, 47, 48}
	var initial [][]byte
	for i := 0; i < ng; i++ {
		grp := byte('A' + 3*i)
		gen.groups = append(gen.groups, grp)
		gen.second[grp] = map[byte]bool{}
		gen.maxSecond[grp] = -1
		n := sizes[rng.Intn(len(sizes))]
		for _, b := range rng.Perm(120)[:n] {
			initial = append(initial, []byte{grp, byte(b)})
			gen.second[grp][byte(b)] = true
			if b > gen.maxSecond[grp] {
				gen.maxSecond[grp] = b
			}
		}
	}
	rng.Shuffle(len(initial), func(i, j int) { initial[i], initial[j] = initial[j], initial[i] })
	for _, k := range initial {
		if x.stop {
			return
		}
		setNew(k)
		if rng.Intn(12) == 0 {
			if t, ok := gen.third(rng, k); ok {
				setNew(t)
			}
		}
	}
	x.audit(true)
	growTo := func(grp byte, target int) {
		for len(gen.second[grp]) < target && !x.stop {
			k, ok := gen.sibling(rng, grp)
			if !ok {
				return
			}
			setNew(k)
		}
	}
	var committed [][]byte
	pick := func() []byte { return committed[rng.Intn(len(committed))] }
	// growUnder: the iterator h stands inside group grp.  Grow that group's node across the next size boundary,
	// make other parts of the tree ask for fresh nodes of every class, read on.
	growUnder := func(h *c08Held, grp byte) {
		for _, t := range []int{5, 17, 49} {
			if len(gen.second[grp]) < t {
				x.count("held_node_grown_under_open_iterator_to_"+fmt.Sprint(t), 1)
				growTo(grp, t)
				break
			}
		}
		for _, g2 := range gen.groups {
			if g2 == grp || x.stop {
				continue
			}
			switch n := len(gen.second[g2]); {
			case n <= 4:
				growTo(g2, 5) // asks for a node16 (and a node4 when the group was a single leaf)
			case n <= 16 && rng.Intn(2) == 0:
				growTo(g2, 17) // asks for a node48
			}
		}
		for i := 0; i < 3 && !x.stop; i++ {
			if k := pick(); len(k) == 2 {
				if t, ok := gen.third(rng, k); ok {
					setNew(t) // a leaf becomes a node4
				}
			}
		}
		x.heldAdvance(h, 2+rng.Intn(20))
	}
	for round := 0; round < 2+rng.Intn(2) && !x.stop; round++ {
		x.step(c08Op{K: "staging"}, false)
		committed = committed[:0]
		for _, it := range x.m.snapScan(nil, nil, false) {
			committed = append(committed, []byte(it.key))
		}
		if rng.Intn(5) > 0 {
			// scripted opening: (a key-less scan first, sometimes,) then ONE snapshot iterator read into the middle of
			// a group whose node is about to grow
			if rng.Intn(2) == 0 {
				if e := x.heldOpen(nextID, rng.Intn(4), []byte{0xF1}, []byte{0xF2}); e != nil {
					x.heldAdvance(e, 1)
					x.heldClose(e)
				}
				nextID++
			}
			kind := rng.Intn(2)
			if h := x.heldOpen(nextID, kind, nil, nil); h != nil {
				nextID++
				// groups with at least two snapshot keys and room to grow, smaller nodes preferred in turn
				var cand []byte
				for _, lim := range [][2]int{{2, 4}, {5, 16}, {17, 48}}[round%3:] {
					for _, g := range gen.groups {
						if n := len(gen.second[g]); n >= lim[0] && n <= lim[1] {
							cand = append(cand, g)
						}
					}
					if len(cand) > 0 {
						break
					}
				}
				if len(cand) > 0 {
					grp := cand[rng.Intn(len(cand))]
					first, last := -1, -1
					for i, w := range h.want {
						if len(w.key) > 0 && w.key[0] == grp {
							if first < 0 {
								first = i
							}
							last = i
						}
					}
					if first >= 0 && last > first {
						x.heldAdvance(h, first+1+rng.Intn(last-first))
						if !x.stop {
							growUnder(h, grp)
						}
					}
				}
				if !x.stop {
					x.heldAdvance(h, len(h.want)+1)
					x.heldClose(h)
				}
			}
		}
		bound := func() []byte {
			switch w := rng.Intn(10); {
			case w < 5:
				return nil
			case w < 7:
				return []byte{gen.groups[rng.Intn(len(gen.groups))]}
			default:
				return c08Clone(pick())
			}
		}
		var open []*c08Held
		steps := 40 + rng.Intn(50)
		for s := 0; s < steps && !x.stop; s++ {
			switch w := rng.Intn(100); {
			case w < 18:
				if len(open) < 3 {
					kind := rng.Intn(4)
					lo, hi := bound(), bound()
					if len(hi) == 0 {
						hi = nil
					}
					switch rng.Intn(4) {
					case 0: // a range that holds no key at all
						lo, hi = []byte{0xF0 + byte(rng.Intn(8))}, []byte{0xF8}
					case 1:
						lo, hi = nil, nil
					}
					if h := x.heldOpen(nextID, kind, lo, hi); h != nil {
						open = append(open, h)
					}
					nextID++
				}
			case w < 45:
				if len(open) > 0 {
					x.heldAdvance(open[rng.Intn(len(open))], 1+rng.Intn(8))
				}
			case w < 52:
				if len(open) > 0 {
					i := rng.Intn(len(open))
					x.heldClose(open[i])
					open = append(open[:i], open[i+1:]...)
				}
			case w < 58:
				x.step(c08Op{K: "set", Key: pick(), Val: val()}, false)
			case w < 62:
				x.step(c08Op{K: "del", Key: pick()}, false)
			case w < 78:
				if k, ok := gen.sibling(rng, gen.groups[rng.Intn(len(gen.groups))]); ok {
					setNew(k)
				}
			case w < 84:
				if k := pick(); len(k) == 2 {
					if t, ok := gen.third(rng, k); ok {
						setNew(t)
					}
				}
			case w < 87:
				x.step(c08Op{K: "upd", Key: pick(), F: x.pickFlagOps()}, false)
			case w < 90:
				if x.m.depth() < 3 {
					x.step(c08Op{K: "staging"}, false)
				}
			case w < 93:
				if x.m.depth() >= 2 {
					x.step(c08Op{K: []string{"cleanup", "release"}[rng.Intn(2)]}, false)
				}
			default:
				// exactly one open, partly consumed snapshot iterator: grow the node it stands in across the next
				// size boundary, make other parts of the tree ask for fresh nodes of every class, read on
				if len(open) != 1 || open[0].pos == 0 || open[0].pos >= len(open[0].want) || len(open[0].want[open[0].pos-1].key) == 0 {
					continue
				}
				h := open[0]
				grp := h.want[h.pos-1].key[0]
				if gen.second[grp] == nil {
					continue
				}
				growUnder(h, grp)
			}
		}
		// read every open iterator to its end, then leave the stage
		for _, h := range open {
			if x.stop {
				return
			}
			x.heldAdvance(h, len(h.want)+1)
			x.heldClose(h)
		}
		for x.m.depth() > 0 && !x.stop {
			x.step(c08Op{K: []string{"cleanup", "release"}[rng.Intn(2)]}, false)
		}
		x.audit(true)
	}
}
