//go:build verif

package unionstore

// C08 reference model: an ordered map key -> (value | tombstone, flags) with a
// stack of staging levels, written for clarity, not speed.
//
// Values are rollbackable, flags are not (rbt.go / art.go type comments): the
// model keeps one append-only list of value writes ("log"); a staging level or
// a checkpoint is a length of that list; undo pops writes from the end.  When
// the popped write was the first value the key ever got ("discarding a newly
// added KV") the non-persistent flags are cleared and, if no persistent flag
// remains, the key disappears (Len/Size/GetFlags/IterWithFlags no longer see
// it).  Persistent = locked, locked-value-exists, need-constraint-check,
// locked-in-share-mode (kv/keyflags.go persistentFlags).
//
// A same-length overwrite of a value written in the current (innermost) stage
// may replace that value in place (art.go trySwapValue / rbt.go setValue: "in
// place value swap only for values written in the current stage"), so the old
// version need not stay in the value history.  The model always keeps it and
// marks it optional: the value-history oracle accepts both "kept" and
// "replaced" (ART and RBT must still agree with each other).  What a
// checkpoint promises is decided by RevertToCheckpoint alone: the model undoes
// every write made after the checkpoint, whatever the implementation did in
// place.

import (
	"bytes"
	"errors"
	"sort"

	tikverr "github.com/tikv/client-go/v2/error"
	"github.com/tikv/client-go/v2/kv"
)

// ---------------------------------------------------------------- flags

type c08Flags uint32

const (
	mfPresumeKNE c08Flags = 1 << iota
	mfPrevPresumeKNE
	mfLocked
	mfLockedShare
	mfNeedLocked
	mfLockedValExist
	mfNeedCheckExists
	mfPrewriteOnly
	mfIgnoredIn2PC
	mfReadable
	mfNewlyInserted
	mfAssertExist
	mfAssertNotExist
	mfNeedConstraintCheck
)

const mfPersistent = mfLocked | mfLockedValExist | mfNeedConstraintCheck | mfLockedShare

// c08Apply re-implements the documented meaning of every kv.FlagsOp.
func c08Apply(f c08Flags, ops ...kv.FlagsOp) c08Flags {
	for _, op := range ops {
		switch op {
		case kv.SetPresumeKeyNotExists: // "Implies HasNeedCheckExists() == true"
			f |= mfPresumeKNE | mfNeedCheckExists
		case kv.DelPresumeKeyNotExists: // "reverts SetPresumeKeyNotExists"
			f &^= mfPresumeKNE | mfNeedCheckExists
		case kv.SetKeyLocked:
			f |= mfLocked
		case kv.DelKeyLocked:
			f &^= mfLocked
		case kv.SetNeedLocked:
			f |= mfNeedLocked
		case kv.DelNeedLocked:
			f &^= mfNeedLocked
		case kv.SetKeyLockedValueExists:
			// flagNeedConstraintCheckInPrewrite: "When the key gets locked (and the
			// existence is checked), the flag should be removed."
			f |= mfLockedValExist
			f &^= mfNeedConstraintCheck
		case kv.SetKeyLockedValueNotExists:
			f &^= mfLockedValExist
			f &^= mfNeedConstraintCheck
		case kv.DelNeedCheckExists:
			f &^= mfNeedCheckExists
		case kv.SetPrewriteOnly:
			f |= mfPrewriteOnly
		case kv.SetIgnoredIn2PC:
			f |= mfIgnoredIn2PC
		case kv.SetReadable:
			f |= mfReadable
		case kv.SetNewlyInserted:
			f |= mfNewlyInserted
		case kv.SetAssertExist:
			f &^= mfAssertNotExist
			f |= mfAssertExist
		case kv.SetAssertNotExist:
			f &^= mfAssertExist
			f |= mfAssertNotExist
		case kv.SetAssertUnknown:
			f |= mfAssertExist | mfAssertNotExist
		case kv.SetAssertNone:
			f &^= mfAssertExist | mfAssertNotExist
		case kv.SetNeedConstraintCheckInPrewrite:
			f |= mfNeedConstraintCheck
		case kv.DelNeedConstraintCheckInPrewrite:
			f &^= mfNeedConstraintCheck
		case kv.SetPreviousPresumeKNE:
			f |= mfPrevPresumeKNE
		case kv.SetKeyLockedInShareMode:
			f |= mfLockedShare
		case kv.SetKeyLockedInExclusiveMode:
			f &^= mfLockedShare
		}
	}
	return f
}

// c08Obs is what the exported accessors of kv.KeyFlags let a caller observe;
// model and implementation flags are compared through it, never bit by bit.
type c08Obs struct {
	PresumeKNE, Locked, Share, NeedLocked, ValExists, NeedCheckExists, PrewriteOnly, Ignored, Readable   bool
	NeedCC, NewlyInserted, AssertExist, AssertNotExist, AssertUnknown, AnyAssert, AnyPersistent, NonZero bool
}

func c08ObsReal(f kv.KeyFlags) c08Obs {
	return c08Obs{
		PresumeKNE: f.HasPresumeKeyNotExists(), Locked: f.HasLocked(), Share: f.HasLockedInShareMode(),
		NeedLocked: f.HasNeedLocked(), ValExists: f.HasLockedValueExists(), NeedCheckExists: f.HasNeedCheckExists(),
		PrewriteOnly: f.HasPrewriteOnly(), Ignored: f.HasIgnoredIn2PC(), Readable: f.HasReadable(),
		NeedCC: f.HasNeedConstraintCheckInPrewrite(), NewlyInserted: f.HasNewlyInserted(),
		AssertExist: f.HasAssertExist(), AssertNotExist: f.HasAssertNotExist(), AssertUnknown: f.HasAssertUnknown(),
		AnyAssert: f.HasAssertionFlags(), AnyPersistent: f.AndPersistent() != 0, NonZero: f != 0,
	}
}

func (f c08Flags) obs() c08Obs {
	ae, an := f&mfAssertExist != 0, f&mfAssertNotExist != 0
	return c08Obs{
		PresumeKNE: f&(mfPresumeKNE|mfPrevPresumeKNE) != 0, Locked: f&mfLocked != 0, Share: f&mfLockedShare != 0,
		NeedLocked: f&mfNeedLocked != 0, ValExists: f&mfLockedValExist != 0, NeedCheckExists: f&mfNeedCheckExists != 0,
		PrewriteOnly: f&mfPrewriteOnly != 0, Ignored: f&mfIgnoredIn2PC != 0, Readable: f&mfReadable != 0,
		NeedCC: f&mfNeedConstraintCheck != 0, NewlyInserted: f&mfNewlyInserted != 0,
		AssertExist: ae && !an, AssertNotExist: an && !ae, AssertUnknown: ae && an, AnyAssert: ae || an,
		AnyPersistent: f&mfPersistent != 0, NonZero: f != 0,
	}
}

// ---------------------------------------------------------------- errors

type c08Err int

const (
	eNil c08Err = iota
	eNotExist
	eKeyTooLarge
	eEntryTooLarge
	eTxnTooLarge
	eNilValue
	eOther
)

func (e c08Err) String() string {
	return [...]string{"nil", "ErrNotExist", "ErrKeyTooLarge", "ErrEntryTooLarge", "ErrTxnTooLarge", "ErrCannotSetNilValue", "other-error"}[e]
}

func c08Classify(err error) c08Err {
	if err == nil {
		return eNil
	}
	var k *tikverr.ErrKeyTooLarge
	var e *tikverr.ErrEntryTooLarge
	var t *tikverr.ErrTxnTooLarge
	switch {
	case tikverr.IsErrNotFound(err):
		return eNotExist
	case errors.As(err, &k):
		return eKeyTooLarge
	case errors.As(err, &e):
		return eEntryTooLarge
	case errors.As(err, &t):
		return eTxnTooLarge
	case errors.Is(err, tikverr.ErrCannotSetNilValue):
		return eNilValue
	}
	return eOther
}

// ---------------------------------------------------------------- model

const c08MaxKeyLen = 65535 // "MaxKeyLen = math.MaxUint16" in art_node.go and rbt.go

type c08Rec struct {
	val      []byte
	pos      int  // index in the log
	optional bool // an implementation may have replaced this version in place
	forced   bool // written to a new slot only because a still valid checkpoint protects the previous value
}

type c08Key struct {
	exists bool
	flags  c08Flags
	hist   []c08Rec // value history, newest last; empty = no value (flags only)
}

type c08Item struct {
	key    string
	val    []byte
	hasVal bool
	flags  c08Obs
}

type c08Model struct {
	keys       map[string]*c08Key
	log        []string // key of every value write that is still in effect or undoable
	stages     []int    // len(log) at each Staging()
	snap       map[string][]byte
	dirty      bool
	entryLimit uint64
	bufLimit   uint64
	cpValid    int // records below this position are protected by a still valid checkpoint
	// number of overwrites that a still valid checkpoint (and nothing else) kept out of place
	cpProtectedOverwrites int
	// number of those overwrites that were undone again while the protected value stayed (what D10 is about)
	cpProtectedRestores int
}

func c08NewModel() *c08Model {
	return &c08Model{keys: map[string]*c08Key{}, entryLimit: ^uint64(0), bufLimit: ^uint64(0)}
}

func (m *c08Model) depth() int { return len(m.stages) }

func (m *c08Model) len() int {
	n := 0
	for _, k := range m.keys {
		if k.exists {
			n++
		}
	}
	return n
}

func (m *c08Model) size() int {
	n := 0
	for name, k := range m.keys {
		if k.exists {
			n += len(name)
			if len(k.hist) > 0 {
				n += len(k.hist[len(k.hist)-1].val)
			}
		}
	}
	return n
}

// write is Set/SetWithFlags (val non-empty), Delete/DeleteWithFlags (val empty, non-nil)
// or UpdateFlags (val nil).
func (m *c08Model) write(key, val []byte, ops []kv.FlagsOp) c08Err {
	if len(key) > c08MaxKeyLen {
		return eKeyTooLarge
	}
	if val != nil && uint64(len(key)+len(val)) > m.entryLimit {
		return eEntryTooLarge
	}
	if m.depth() == 0 {
		m.dirty = true
	}
	k := m.keys[string(key)]
	if k == nil {
		k = &c08Key{}
		m.keys[string(key)] = k
	}
	if !k.exists {
		k.exists, k.flags, k.hist = true, 0, nil
	}
	if val != nil {
		// "the NeedConstraintCheckInPrewrite flag is temporary, every write to the
		// node removes the flag unless it's explicitly set"
		k.flags = c08Apply(k.flags, append([]kv.FlagsOp{kv.DelNeedConstraintCheckInPrewrite}, ops...)...)
	} else {
		k.flags = c08Apply(k.flags, ops...)
	}
	if k.flags&mfPersistent != 0 {
		m.dirty = true
	}
	if val == nil {
		return eNil
	}
	v := append([]byte{}, val...)
	forced := false
	if n := len(k.hist); n > 0 {
		top := &k.hist[n-1]
		inStage := m.depth() == 0 || top.pos >= m.stages[m.depth()-1]
		if len(top.val) > 0 && len(top.val) == len(v) && inStage {
			// the implementation may overwrite the old version in place: it need not stay in the history
			top.optional = true
			if top.pos < m.cpValid {
				// ... unless a still valid checkpoint has to be able to restore it
				m.cpProtectedOverwrites++
				forced = true
			}
		}
	}
	k.hist = append(k.hist, c08Rec{val: v, pos: len(m.log), forced: forced})
	m.log = append(m.log, string(key))
	if uint64(m.size()) > m.bufLimit {
		return eTxnTooLarge
	}
	return eNil
}

// truncate undoes every value write at or above position n and returns the keys concerned.
func (m *c08Model) truncate(n int) (touched []string) {
	seen := map[string]bool{}
	for len(m.log) > n {
		name := m.log[len(m.log)-1]
		if !seen[name] {
			seen[name] = true
			touched = append(touched, name)
		}
		m.log = m.log[:len(m.log)-1]
		k := m.keys[name]
		if h := k.hist; h[len(h)-1].forced && len(h) > 1 && h[len(h)-2].pos < n {
			m.cpProtectedRestores++
		}
		k.hist = k.hist[:len(k.hist)-1]
		if len(k.hist) == 0 {
			// a newly added KV is discarded
			k.flags &= mfPersistent
			if k.flags == 0 {
				k.exists = false
			}
		} else {
			k.hist[len(k.hist)-1].optional = false
		}
	}
	if m.cpValid > n {
		m.cpValid = n
	}
	return touched
}

func (m *c08Model) values() map[string][]byte {
	out := map[string][]byte{}
	for name, k := range m.keys {
		if k.exists && len(k.hist) > 0 {
			out[name] = k.hist[len(k.hist)-1].val
		}
	}
	return out
}

func (m *c08Model) staging() int {
	if m.depth() == 0 {
		m.snap = m.values()
	}
	m.stages = append(m.stages, len(m.log))
	return len(m.stages)
}

func (m *c08Model) release() {
	h := m.depth()
	if h == 1 {
		if len(m.log) != m.stages[0] {
			m.dirty = true
		}
		m.snap = nil
	}
	m.stages = m.stages[:h-1]
}

func (m *c08Model) cleanup() (touched []string) {
	h := m.depth()
	touched = m.truncate(m.stages[h-1])
	m.stages = m.stages[:h-1]
	if h == 1 {
		m.snap = nil
	}
	return touched
}

func (m *c08Model) checkpoint() int {
	n := len(m.log)
	if n > m.cpValid {
		m.cpValid = n
	}
	return n
}

// revertible says whether reverting to a checkpoint taken at position n is a
// meaningful request now: nothing below n was undone since and no open stage
// started after it.
func (m *c08Model) revertible(n int) bool {
	return n <= len(m.log) && (m.depth() == 0 || m.stages[m.depth()-1] <= n)
}

func (m *c08Model) revert(n int) (touched []string) { return m.truncate(n) }

func (m *c08Model) get(key []byte) ([]byte, c08Err) {
	k := m.keys[string(key)]
	if k == nil || !k.exists || len(k.hist) == 0 {
		return nil, eNotExist
	}
	return k.hist[len(k.hist)-1].val, eNil
}

func (m *c08Model) getFlags(key []byte) (c08Flags, c08Err) {
	k := m.keys[string(key)]
	if k == nil || !k.exists {
		return 0, eNotExist
	}
	return k.flags, eNil
}

func c08InRange(k string, lo, hi []byte) bool {
	if len(lo) > 0 && k < string(lo) {
		return false
	}
	if len(hi) > 0 && k >= string(hi) {
		return false
	}
	return true
}

// scan lists the keys in [lo,hi) (empty bound = unbounded) ascending or
// descending; withFlags also lists keys that only carry flags.
func (m *c08Model) scan(lo, hi []byte, rev, withFlags bool) []c08Item {
	var out []c08Item
	for name, k := range m.keys {
		if !k.exists || (!withFlags && len(k.hist) == 0) || !c08InRange(name, lo, hi) {
			continue
		}
		it := c08Item{key: name, flags: k.flags.obs()}
		if len(k.hist) > 0 {
			it.hasVal, it.val = true, k.hist[len(k.hist)-1].val
		}
		out = append(out, it)
	}
	sort.Slice(out, func(i, j int) bool { return (out[i].key < out[j].key) != rev })
	return out
}

// snapshot view: the values as of the creation of the outermost stage, or the
// current values when nothing is staged.
func (m *c08Model) snapView() map[string][]byte {
	if m.depth() > 0 {
		return m.snap
	}
	return m.values()
}

func (m *c08Model) snapGet(key []byte) ([]byte, c08Err) {
	v, ok := m.snapView()[string(key)]
	if !ok {
		return nil, eNotExist
	}
	return v, eNil
}

func (m *c08Model) snapScan(lo, hi []byte, rev bool) []c08Item {
	var out []c08Item
	for name, v := range m.snapView() {
		if c08InRange(name, lo, hi) {
			out = append(out, c08Item{key: name, val: v, hasVal: true})
		}
	}
	sort.Slice(out, func(i, j int) bool { return (out[i].key < out[j].key) != rev })
	return out
}

// inspect lists (key, flags, value) of every key whose current value was
// written in stage h or a stage nested in it, ordered by key.
func (m *c08Model) inspect(h int) []c08Item {
	var out []c08Item
	mark := m.stages[h-1]
	for name, k := range m.keys {
		if !k.exists || len(k.hist) == 0 {
			continue
		}
		top := k.hist[len(k.hist)-1]
		if top.pos >= mark {
			out = append(out, c08Item{key: name, val: top.val, hasVal: true, flags: k.flags.obs()})
		}
	}
	sort.Slice(out, func(i, j int) bool { return out[i].key < out[j].key })
	return out
}

// selectHistory returns the acceptable answers of SelectValueHistory: the
// newest value of the key's history for which pred holds (none=true: "no
// such value" is acceptable).
func (m *c08Model) selectHistory(key []byte, pred func([]byte) bool) (acceptable [][]byte, none bool, e c08Err) {
	k := m.keys[string(key)]
	if k == nil || !k.exists || len(k.hist) == 0 {
		return nil, false, eNotExist
	}
	for i := len(k.hist) - 1; i >= 0; i-- {
		r := k.hist[i]
		if pred(r.val) {
			acceptable = append(acceptable, r.val)
			if !r.optional {
				return acceptable, false, eNil
			}
		}
	}
	return acceptable, true, eNil
}

func c08ContainsBytes(set [][]byte, v []byte) bool {
	for _, s := range set {
		if bytes.Equal(s, v) {
			return true
		}
	}
	return false
}
