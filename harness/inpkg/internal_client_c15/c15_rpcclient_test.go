//go:build verif

package client

// C15 — the production path: the REAL RPCClient with a codec option
// (client.WithCodec, as rawkv/txnkv wire it) against a mock store that serves a
// physical-key map over the batch-commands stream and records every request
// exactly as it arrives on the wire.
//
// Workload: seeded sequences in which one *tikvrpc.Request object is sent 1-5
// times (the store answers the first sends with a NotLeader region error, the
// caller re-sends the very same object, as RegionRequestSender does),
// interleaved with complete other requests of the same and of other commands,
// through SendRequest and SendRequestAsync; first from one goroutine with
// GOMAXPROCS(1) (sync.Pool reuse inside the codec is then deterministic; the
// unit is built without -race because the race detector makes sync.Pool drop
// items at random), then from several goroutines.
//
// Oracles per send: (1) every key / range bound on the wire equals keyspace
// prefix + logical key exactly once (empty upper bound = keyspace end, reverse
// scans swap), other byte fields are unchanged; (2) the caller's request object
// is the same before and after (deep compare, same message pointer); (3) the
// decoded response is byte-for-byte the response an API v1 client gets from a
// store holding the same logical data (logical keys, no prefix); (4) at the
// end the keyspace store's keys with the prefix removed are the v1 store's keys.

import (
	"bytes"
	"context"
	"fmt"
	"reflect"
	"runtime"
	"sort"
	"strings"
	"sync"
	"testing"
	"time"

	"github.com/pingcap/kvproto/pkg/errorpb"
	"github.com/pingcap/kvproto/pkg/keyspacepb"
	"github.com/pingcap/kvproto/pkg/kvrpcpb"
	"github.com/pingcap/kvproto/pkg/tikvpb"
	"github.com/pingcap/log"
	"github.com/tikv/client-go/v2/internal/apicodec"
	"github.com/tikv/client-go/v2/internal/client/mockserver"
	"github.com/tikv/client-go/v2/tikvrpc"
	"github.com/tikv/client-go/v2/util/async"
	"github.com/tikv/client-go/v2/verifh/vcat"
	"github.com/tikv/client-go/v2/verifh/vrep"
	"go.uber.org/zap"
)

// ---------------------------------------------------------------- mock store

type c15Seen struct {
	msg     interface{} // the request message as decoded from the wire
	api     kvrpcpb.APIVersion
	ksid    uint32
	caseStr string
}

type c15Store struct {
	mu    sync.Mutex
	data  map[string][]byte   // physical key -> value
	fail  map[uint64]int      // task id -> number of sends to answer with a region error
	sends map[uint64]int      // task id -> sends seen
	seen  map[string]*c15Seen // "task/attempt" -> what arrived
	srv   *mockserver.MockServer
}

func c15NewStore() (*c15Store, error) {
	srv, port := mockserver.StartMockTikvService()
	if port <= 0 {
		return nil, fmt.Errorf("mock server did not start")
	}
	s := &c15Store{data: map[string][]byte{}, fail: map[uint64]int{}, sends: map[uint64]int{}, seen: map[string]*c15Seen{}, srv: srv}
	h := s.handle
	srv.OnBatchCommandsRequest.Store(&h)
	return s, nil
}

func (s *c15Store) sorted() []string {
	ks := make([]string, 0, len(s.data))
	for k := range s.data {
		ks = append(ks, k)
	}
	sort.Strings(ks)
	return ks
}

// scan returns the pairs of [lo,hi) ("" hi = unbounded), ascending or descending.
func (s *c15Store) scan(lo, hi []byte, limit uint32, desc bool) []*kvrpcpb.KvPair {
	var out []*kvrpcpb.KvPair
	ks := s.sorted()
	if desc {
		for i, j := 0, len(ks)-1; i < j; i, j = i+1, j-1 {
			ks[i], ks[j] = ks[j], ks[i]
		}
	}
	for _, k := range ks {
		if bytes.Compare([]byte(k), lo) < 0 || (len(hi) > 0 && bytes.Compare([]byte(k), hi) >= 0) {
			continue
		}
		if limit > 0 && uint32(len(out)) >= limit {
			break
		}
		out = append(out, &kvrpcpb.KvPair{Key: []byte(k), Value: s.data[k]})
	}
	return out
}

func (s *c15Store) handle(req *tikvpb.BatchCommandsRequest) (*tikvpb.BatchCommandsResponse, error) {
	s.mu.Lock()
	defer s.mu.Unlock()
	resp := &tikvpb.BatchCommandsResponse{RequestIds: req.GetRequestIds()}
	for _, r := range req.GetRequests() {
		w := reflect.ValueOf(r.Cmd)
		inner := w.Elem().Field(0).Interface()
		var ctx *kvrpcpb.Context
		if f := reflect.ValueOf(inner).Elem().FieldByName("Context"); f.IsValid() && !f.IsNil() {
			ctx = f.Interface().(*kvrpcpb.Context)
		}
		task := ctx.GetTaskId()
		s.sends[task]++
		attempt := s.sends[task]
		name := w.Elem().Type().Name()
		s.seen[fmt.Sprintf("%d/%d", task, attempt)] = &c15Seen{msg: inner, api: ctx.GetApiVersion(), ksid: ctx.GetKeyspaceId(), caseStr: name[strings.LastIndex(name, "_")+1:]}
		var re *errorpb.Error
		if attempt <= s.fail[task] {
			re = &errorpb.Error{Message: "not leader", NotLeader: &errorpb.NotLeader{RegionId: ctx.GetRegionId()}}
		}
		out := &tikvpb.BatchCommandsResponse_Response{}
		switch m := inner.(type) {
		case *kvrpcpb.GetRequest:
			g := &kvrpcpb.GetResponse{RegionError: re}
			if re == nil {
				if v, ok := s.data[string(m.Key)]; ok {
					g.Value = v
				} else {
					g.NotFound = true
				}
			}
			out.Cmd = &tikvpb.BatchCommandsResponse_Response_Get{Get: g}
		case *kvrpcpb.BatchGetRequest:
			g := &kvrpcpb.BatchGetResponse{RegionError: re}
			if re == nil {
				for _, k := range m.Keys {
					if v, ok := s.data[string(k)]; ok {
						g.Pairs = append(g.Pairs, &kvrpcpb.KvPair{Key: k, Value: v})
					}
				}
			}
			out.Cmd = &tikvpb.BatchCommandsResponse_Response_BatchGet{BatchGet: g}
		case *kvrpcpb.ScanRequest:
			g := &kvrpcpb.ScanResponse{RegionError: re}
			if re == nil {
				if m.Reverse {
					g.Pairs = s.scan(m.EndKey, m.StartKey, m.Limit, true)
				} else {
					g.Pairs = s.scan(m.StartKey, m.EndKey, m.Limit, false)
				}
			}
			out.Cmd = &tikvpb.BatchCommandsResponse_Response_Scan{Scan: g}
		case *kvrpcpb.PrewriteRequest:
			g := &kvrpcpb.PrewriteResponse{RegionError: re}
			if re == nil {
				for _, mu := range m.Mutations {
					if mu.Op == kvrpcpb.Op_Del {
						delete(s.data, string(mu.Key))
					} else {
						s.data[string(mu.Key)] = mu.Value
					}
				}
			}
			out.Cmd = &tikvpb.BatchCommandsResponse_Response_Prewrite{Prewrite: g}
		case *kvrpcpb.CommitRequest:
			out.Cmd = &tikvpb.BatchCommandsResponse_Response_Commit{Commit: &kvrpcpb.CommitResponse{RegionError: re, CommitVersion: m.CommitVersion}}
		case *kvrpcpb.RawGetRequest:
			g := &kvrpcpb.RawGetResponse{RegionError: re}
			if re == nil {
				if v, ok := s.data[string(m.Key)]; ok {
					g.Value = v
				} else {
					g.NotFound = true
				}
			}
			out.Cmd = &tikvpb.BatchCommandsResponse_Response_RawGet{RawGet: g}
		case *kvrpcpb.RawPutRequest:
			if re == nil {
				s.data[string(m.Key)] = m.Value
			}
			out.Cmd = &tikvpb.BatchCommandsResponse_Response_RawPut{RawPut: &kvrpcpb.RawPutResponse{RegionError: re}}
		case *kvrpcpb.RawBatchPutRequest:
			if re == nil {
				for _, p := range m.Pairs {
					s.data[string(p.Key)] = p.Value
				}
			}
			out.Cmd = &tikvpb.BatchCommandsResponse_Response_RawBatchPut{RawBatchPut: &kvrpcpb.RawBatchPutResponse{RegionError: re}}
		case *kvrpcpb.RawBatchGetRequest:
			g := &kvrpcpb.RawBatchGetResponse{RegionError: re}
			if re == nil {
				for _, k := range m.Keys {
					if v, ok := s.data[string(k)]; ok {
						g.Pairs = append(g.Pairs, &kvrpcpb.KvPair{Key: k, Value: v})
					}
				}
			}
			out.Cmd = &tikvpb.BatchCommandsResponse_Response_RawBatchGet{RawBatchGet: g}
		case *kvrpcpb.RawDeleteRequest:
			if re == nil {
				delete(s.data, string(m.Key))
			}
			out.Cmd = &tikvpb.BatchCommandsResponse_Response_RawDelete{RawDelete: &kvrpcpb.RawDeleteResponse{RegionError: re}}
		case *kvrpcpb.RawDeleteRangeRequest:
			if re == nil {
				for _, p := range s.scan(m.StartKey, m.EndKey, 0, false) {
					delete(s.data, string(p.Key))
				}
			}
			out.Cmd = &tikvpb.BatchCommandsResponse_Response_RawDeleteRange{RawDeleteRange: &kvrpcpb.RawDeleteRangeResponse{RegionError: re}}
		case *kvrpcpb.RawScanRequest:
			g := &kvrpcpb.RawScanResponse{RegionError: re}
			if re == nil {
				if m.Reverse {
					g.Kvs = s.scan(m.EndKey, m.StartKey, m.Limit, true)
				} else {
					g.Kvs = s.scan(m.StartKey, m.EndKey, m.Limit, false)
				}
			}
			out.Cmd = &tikvpb.BatchCommandsResponse_Response_RawScan{RawScan: g}
		default:
			out.Cmd = &tikvpb.BatchCommandsResponse_Response_Empty{Empty: &tikvpb.BatchCommandsEmptyResponse{}}
		}
		resp.Responses = append(resp.Responses, out)
	}
	return resp, nil
}

// ---------------------------------------------------------------- universes

type c15Side struct {
	name   string
	store  *c15Store
	cli    *RPCClient
	prefix []byte // nil = API v1
	end    []byte
}

func c15Next(p []byte) []byte {
	e := append([]byte(nil), p...)
	for i := len(e) - 1; i >= 0; i-- {
		e[i]++
		if e[i] != 0 {
			return e
		}
	}
	return nil
}

// ---------------------------------------------------------------- program

var c15Keys = [][]byte{{0}, []byte("a"), []byte("ab"), []byte("b"), []byte("key-a"), []byte("key-b"), []byte("m"), []byte("x\x00\x00\x07"), []byte("z"), {0xFF}, {0xFF, 0xFF}}

type c15Op struct {
	id    uint64
	cmd   tikvrpc.CmdType
	mk    func() interface{} // builds a fresh logical message
	fails int
	async bool
	// other complete operations executed between two sends of this one
	between [][]*c15Op
}

func c15GenOps(rng interface{ Intn(int) int }, n int, raw bool, nextID *uint64, depth int) []*c15Op {
	pick := func() []byte { return c15Keys[rng.Intn(len(c15Keys))] }
	bound := func() []byte {
		if rng.Intn(3) == 0 {
			return nil
		}
		return pick()
	}
	pickN := func() [][]byte {
		var ks [][]byte
		for i := 0; i < 1+rng.Intn(4); i++ {
			ks = append(ks, pick())
		}
		return ks
	}
	var ops []*c15Op
	for i := 0; i < n; i++ {
		*nextID++
		op := &c15Op{id: *nextID, async: rng.Intn(3) == 0}
		switch f := rng.Intn(10); {
		case f < 4:
			op.fails = 0
		case f < 6:
			op.fails = 1
		case f < 8:
			op.fails = 2
		default:
			op.fails = 3 + rng.Intn(2)
		}
		val := []byte(fmt.Sprintf("v%d", op.id))
		ver := uint64(1000 + op.id)
		if raw {
			switch rng.Intn(7) {
			case 0:
				k := pick()
				op.cmd, op.mk = tikvrpc.CmdRawGet, func() interface{} { return &kvrpcpb.RawGetRequest{Key: k} }
			case 1:
				k := pick()
				op.cmd, op.mk = tikvrpc.CmdRawPut, func() interface{} { return &kvrpcpb.RawPutRequest{Key: k, Value: val} }
			case 2:
				ks := pickN()
				op.cmd, op.mk = tikvrpc.CmdRawBatchGet, func() interface{} { return &kvrpcpb.RawBatchGetRequest{Keys: ks} }
			case 3:
				ks := pickN()
				op.cmd, op.mk = tikvrpc.CmdRawBatchPut, func() interface{} {
					m := &kvrpcpb.RawBatchPutRequest{}
					for _, k := range ks {
						m.Pairs = append(m.Pairs, &kvrpcpb.KvPair{Key: k, Value: val})
					}
					return m
				}
			case 4:
				k := pick()
				op.cmd, op.mk = tikvrpc.CmdRawDelete, func() interface{} { return &kvrpcpb.RawDeleteRequest{Key: k} }
			case 5:
				s, e := bound(), bound()
				op.cmd, op.mk = tikvrpc.CmdRawDeleteRange, func() interface{} { return &kvrpcpb.RawDeleteRangeRequest{StartKey: s, EndKey: e} }
			default:
				s, e, rev, lim := bound(), bound(), rng.Intn(2) == 0, uint32(1+rng.Intn(6))
				op.cmd, op.mk = tikvrpc.CmdRawScan, func() interface{} {
					return &kvrpcpb.RawScanRequest{StartKey: s, EndKey: e, Reverse: rev, Limit: lim}
				}
			}
		} else {
			switch rng.Intn(6) {
			case 0, 1:
				k := pick()
				op.cmd, op.mk = tikvrpc.CmdGet, func() interface{} { return &kvrpcpb.GetRequest{Key: k, Version: ver} }
			case 2:
				ks := pickN()
				op.cmd, op.mk = tikvrpc.CmdBatchGet, func() interface{} { return &kvrpcpb.BatchGetRequest{Keys: ks, Version: ver} }
			case 3:
				s, e, rev, lim := bound(), bound(), rng.Intn(2) == 0, uint32(1+rng.Intn(6))
				op.cmd, op.mk = tikvrpc.CmdScan, func() interface{} {
					return &kvrpcpb.ScanRequest{StartKey: s, EndKey: e, Reverse: rev, Limit: lim, Version: ver}
				}
			case 4:
				ks := pickN()
				del := rng.Intn(4) == 0
				op.cmd, op.mk = tikvrpc.CmdPrewrite, func() interface{} {
					m := &kvrpcpb.PrewriteRequest{PrimaryLock: ks[0], StartVersion: ver, Secondaries: ks[1:]}
					for i, k := range ks {
						mu := &kvrpcpb.Mutation{Op: kvrpcpb.Op_Put, Key: k, Value: val}
						if del && i == 0 {
							mu.Op = kvrpcpb.Op_Del
						}
						m.Mutations = append(m.Mutations, mu)
					}
					return m
				}
			default:
				ks := pickN()
				withPrimary := rng.Intn(2) == 0
				op.cmd, op.mk = tikvrpc.CmdCommit, func() interface{} {
					m := &kvrpcpb.CommitRequest{Keys: ks, StartVersion: ver, CommitVersion: ver + 1}
					if withPrimary {
						m.PrimaryKey = ks[0]
					}
					return m
				}
			}
		}
		if depth == 0 && op.fails > 0 {
			for s := 0; s < op.fails; s++ {
				var b []*c15Op
				if rng.Intn(2) == 0 {
					b = c15GenOps(rng, 1+rng.Intn(2), raw, nextID, 1)
				}
				op.between = append(op.between, b)
			}
		}
		ops = append(ops, op)
	}
	return ops
}

// ---------------------------------------------------------------- execution + oracles

// c15MsgWire is the marshalled message without its context: attaching the
// context to the message is the one documented modification of a request
// (tikvrpc.AttachContext; the API v1 codec shares the message with its clone).
func c15MsgWire(msg interface{}) string {
	c := vcat.Clone(msg)
	if f := reflect.ValueOf(c).Elem().FieldByName("Context"); f.IsValid() && f.CanSet() {
		f.Set(reflect.Zero(f.Type()))
	}
	return vcat.Wire(c)
}

type c15Run struct {
	r     *vrep.Report
	mu    sync.Mutex
	seenS map[string]bool
	phase string
}

func (x *c15Run) violate(sig, msg string, detail any) {
	x.mu.Lock()
	first := !x.seenS[sig]
	x.seenS[sig] = true
	x.mu.Unlock()
	if first {
		x.r.Violate(sig, msg, detail)
	} else {
		x.r.Count("repeated_violation_occurrences", 1)
	}
}

type c15Role int

const (
	c15NonKey c15Role = iota
	c15Point
	c15Lower
	c15Upper
)

func c15RoleOf(l *vcat.Leaf) c15Role {
	switch l.Name {
	case "key", "keys", "primary_lock", "primary_key", "secondaries":
		return c15Point
	case "start_key", "end_key":
		role := c15Lower
		if l.Name == "end_key" {
			role = c15Upper
		}
		if rv, ok := l.Sibling("reverse"); ok && rv.Kind() == reflect.Bool && rv.Bool() {
			if role == c15Lower {
				role = c15Upper
			} else {
				role = c15Lower
			}
		}
		return role
	}
	return c15NonKey
}

// checkWire compares what arrived at the store with the logical request.
func (x *c15Run) checkWire(side *c15Side, op *c15Op, attempt int, logical interface{}) {
	side.store.mu.Lock()
	seen := side.store.seen[fmt.Sprintf("%d/%d", op.id, attempt)]
	side.store.mu.Unlock()
	where := fmt.Sprintf("%s %s task %d send #%d (%s, async=%v)", side.name, op.cmd, op.id, attempt, x.phase, op.async)
	if seen == nil {
		x.violate("rpc:not-on-wire", where+": the store never saw this send", nil)
		return
	}
	if reflect.TypeOf(seen.msg) != reflect.TypeOf(logical) {
		x.violate("rpc:wrong-command", fmt.Sprintf("%s: arrived as %T", where, seen.msg), nil)
		return
	}
	if side.prefix != nil && seen.api != kvrpcpb.APIVersion_V2 {
		x.violate("rpc:context-api-version", fmt.Sprintf("%s: context on the wire says api version %v", where, seen.api), nil)
	}
	got := map[string][]byte{}
	vcat.Walk(seen.msg, func(l *vcat.Leaf) {
		if len(l.Chain) > 0 && l.Chain[0] == "context" {
			return
		}
		got[l.Path] = append([]byte(nil), l.Bytes()...)
	})
	n := 0
	vcat.Walk(logical, func(l *vcat.Leaf) {
		if len(l.Chain) > 0 && l.Chain[0] == "context" {
			return
		}
		n++
		w, g := l.Bytes(), got[l.Path]
		role := c15RoleOf(l)
		x.r.Eval(1)
		ok := false
		switch {
		case role == c15NonKey || side.prefix == nil:
			ok = bytes.Equal(w, g)
		case role == c15Point && len(w) == 0:
			ok = len(g) == 0 || bytes.Equal(g, side.prefix)
		case role == c15Upper && len(w) == 0:
			ok = !bytes.HasPrefix(g, side.prefix) && bytes.Compare(g, side.prefix) > 0 && bytes.Compare(g, side.end) <= 0
		default:
			ok = bytes.Equal(g, append(append([]byte(nil), side.prefix...), w...))
		}
		if !ok {
			kind := "wrong-on-wire"
			if side.prefix != nil && bytes.HasPrefix(g, append(append([]byte(nil), side.prefix...), side.prefix...)) {
				kind = "double-prefix"
			} else if side.prefix != nil && role != c15NonKey && bytes.Equal(g, w) {
				kind = "not-prefixed"
			}
			x.violate(fmt.Sprintf("rpc:%s:%s:%s", op.cmd, strings.Join(l.Chain, "."), kind),
				fmt.Sprintf("%s: field %s = %q goes on the wire as %q (keyspace prefix %x)", where, l.Path, w, g, side.prefix),
				map[string]any{"side": side.name, "cmd": op.cmd.String(), "send": attempt, "phase": x.phase, "field": l.Path, "logical": fmt.Sprintf("%q", w), "wire": fmt.Sprintf("%q", g)})
		}
	})
	if len(got) != n {
		x.violate("rpc:field-count", fmt.Sprintf("%s: %d byte fields sent, %d arrived", where, n, len(got)), nil)
	}
}

func (x *c15Run) send(side *c15Side, req *tikvrpc.Request, isAsync bool) (resp *tikvrpc.Response, err error) {
	defer func() {
		if p := recover(); p != nil {
			x.violate("rpc:panic", fmt.Sprintf("%s: sending %s (%s, async=%v) panicked: %v", side.name, req.Type, x.phase, isAsync, p), nil)
			resp, err = nil, fmt.Errorf("panic: %v", p)
		}
	}()
	ctx := context.Background()
	if !isAsync {
		return side.cli.SendRequest(ctx, side.store.srv.Addr(), req, 10*time.Second)
	}
	rl := async.NewRunLoop()
	done := false
	cb := async.NewCallback(rl, func(r *tikvrpc.Response, e error) { resp, err, done = r, e, true })
	side.cli.SendRequestAsync(ctx, side.store.srv.Addr(), req, cb)
	for i := 0; !done && i < 1000; i++ {
		cctx, cancel := context.WithTimeout(ctx, 10*time.Second)
		rl.Exec(cctx)
		cancel()
	}
	if !done {
		return nil, fmt.Errorf("async callback never ran")
	}
	return resp, err
}

// exec runs one operation (with its retries and what happens between them) on
// every side and returns the final response of each side.
func (x *c15Run) exec(sides []*c15Side, op *c15Op) {
	type st struct {
		req     *tikvrpc.Request
		logical interface{}
		before  tikvrpc.Request
		msg     interface{}
		wire    string
	}
	sts := make([]*st, len(sides))
	for i, side := range sides {
		logical := op.mk()
		req := tikvrpc.NewRequest(op.cmd, op.mk(), kvrpcpb.Context{TaskId: op.id, RegionId: 3, ResourceGroupTag: []byte("rg")})
		side.store.mu.Lock()
		side.store.fail[op.id] = op.fails
		side.store.mu.Unlock()
		sts[i] = &st{req: req, logical: logical, before: *req, msg: req.Req, wire: c15MsgWire(req.Req)}
	}
	var finals []string
	for attempt := 1; attempt <= op.fails+1; attempt++ {
		finals = finals[:0]
		for i, side := range sides {
			s := sts[i]
			var resp *tikvrpc.Response
			var err error
			func() {
				defer func() {
					if p := recover(); p != nil {
						err = fmt.Errorf("panic: %v", p)
					}
				}()
				resp, err = x.send(side, s.req, op.async)
			}()
			x.r.Eval(1)
			x.r.Count("sends", 1)
			if attempt > 1 {
				x.r.Count("resends_of_same_request_object", 1)
			}
			where := fmt.Sprintf("%s %s task %d send #%d (%s, async=%v)", side.name, op.cmd, op.id, attempt, x.phase, op.async)
			// (2) the caller's request is untouched
			if s.req.Req != s.msg || c15MsgWire(s.req.Req) != s.wire || !reflect.DeepEqual(*s.req, s.before) {
				x.violate("rpc:caller-request-modified",
					fmt.Sprintf("%s: the caller's request object was modified by the send: message %v (was %v)", where, s.req.Req, s.logical),
					map[string]any{"side": side.name, "cmd": op.cmd.String(), "send": attempt, "phase": x.phase, "async": op.async})
				// keep going with a pristine object so that later findings are not consequences of this one
				s.req = tikvrpc.NewRequest(op.cmd, op.mk(), kvrpcpb.Context{TaskId: op.id, RegionId: 3, ResourceGroupTag: []byte("rg")})
				s.before, s.msg, s.wire = *s.req, s.req.Req, c15MsgWire(s.req.Req)
			}
			// (1) the wire
			x.checkWire(side, op, attempt, s.logical)
			if err != nil || resp == nil || resp.Resp == nil {
				x.violate("rpc:send-error", fmt.Sprintf("%s: %v", where, err), nil)
				finals = append(finals, "error")
				continue
			}
			re, _ := resp.GetRegionError()
			if (re != nil) != (attempt <= op.fails) {
				x.violate("rpc:region-error-mismatch", fmt.Sprintf("%s: region error %v, the store injected one: %v", where, re, attempt <= op.fails), nil)
			}
			finals = append(finals, vcat.Wire(resp.Resp))
		}
		// (3) same decoded response on every side
		for i := 1; i < len(finals); i++ {
			if finals[i] != finals[0] {
				x.violate("rpc:response-differs",
					fmt.Sprintf("%s task %d send #%d (%s): the %s client decodes %q, the %s client %q", op.cmd, op.id, attempt, x.phase, sides[0].name, finals[0], sides[i].name, finals[i]),
					map[string]any{"cmd": op.cmd.String(), "send": attempt, "phase": x.phase})
			}
		}
		if attempt <= len(op.between) {
			for _, b := range op.between[attempt-1] {
				x.r.Count("ops_between_resends", 1)
				x.exec(sides, b)
			}
		}
	}
	x.r.Distinct(fmt.Sprintf("%s|fails=%d|async=%v|between=%d", op.cmd, op.fails, op.async, len(op.between)))
}

func c15NewSide(name string, codec apicodec.Codec, prefix []byte) (*c15Side, error) {
	st, err := c15NewStore()
	if err != nil {
		return nil, err
	}
	return &c15Side{name: name, store: st, cli: NewRPCClient(WithCodec(codec)), prefix: prefix, end: c15Next(prefix)}, nil
}

func (s *c15Side) close() {
	s.cli.Close()
	s.store.srv.Stop()
}

func TestVerifC15RPCClientCodec(t *testing.T) {
	r := vrep.New("C15", "c15-rpcclient",
		"the real RPCClient with client.WithCodec against a recording mock store (batch-commands stream, physical-key map): seeded sequences where one tikvrpc.Request object is sent 1-5 times (injected NotLeader answers), interleaved with complete other requests, sync and async; commands Get/BatchGet/Scan(+reverse)/Prewrite/Commit under a txn keyspace codec and RawGet/RawPut/RawBatchGet/RawBatchPut/RawDelete/RawDeleteRange/RawScan(+reverse) under a raw keyspace codec, each mirrored by an API v1 client on its own store; phase 1 single goroutine with GOMAXPROCS(1) (deterministic sync.Pool reuse, built without -race), phase 2 several goroutines; per send: wire fields = prefix+logical exactly once, caller's request deep-equal before/after, decoded responses equal between keyspace and v1 client; distinct = (command, injected failures, async, interleaving)")
	defer r.Finish(t)
	log.ReplaceGlobals(zap.NewNop(), nil)
	x := &c15Run{r: r, seenS: map[string]bool{}}
	rng := vrep.Rand("c15-rpcclient")
	type universe struct {
		raw   bool
		sides []*c15Side
	}
	mkUniverse := func(raw bool, id uint32) (*universe, error) {
		mode, mb := apicodec.Mode(apicodec.ModeTxn), byte('x')
		if raw {
			mode, mb = apicodec.ModeRaw, 'r'
		}
		c2, err := apicodec.NewCodecV2(mode, &keyspacepb.KeyspaceMeta{Keyspace: &keyspacepb.KeyspaceMeta_Id{Id: id}, Name: "ks"})
		if err != nil {
			return nil, err
		}
		v1, err := c15NewSide("api-v1", apicodec.NewCodecV1(mode), nil)
		if err != nil {
			return nil, err
		}
		ks, err := c15NewSide(fmt.Sprintf("keyspace-%#x", id), c2, []byte{mb, byte(id >> 16), byte(id >> 8), byte(id)})
		if err != nil {
			return nil, err
		}
		return &universe{raw: raw, sides: []*c15Side{v1, ks}}, nil
	}
	compareStores := func(u *universe, what string) {
		v1, ks := u.sides[0].store, u.sides[1].store
		v1.mu.Lock()
		ks.mu.Lock()
		defer v1.mu.Unlock()
		defer ks.mu.Unlock()
		var a, b strings.Builder
		for _, k := range v1.sorted() {
			fmt.Fprintf(&a, "%q=%q ", k, v1.data[k])
		}
		for _, k := range ks.sorted() {
			if !bytes.HasPrefix([]byte(k), u.sides[1].prefix) {
				x.violate("rpc:store:key-outside-keyspace", fmt.Sprintf("%s: the keyspace store holds key %q outside the keyspace %x", what, k, u.sides[1].prefix), nil)
				continue
			}
			fmt.Fprintf(&b, "%q=%q ", k[4:], ks.data[k])
		}
		r.Eval(1)
		if a.String() != b.String() {
			x.violate("rpc:store:content-differs", fmt.Sprintf("%s: the keyspace store (prefix removed) holds %s, the v1 store %s", what, b.String(), a.String()), nil)
		}
	}
	var nextID uint64
	// ---- phase 1: one goroutine, one P
	old := runtime.GOMAXPROCS(1)
	x.phase = "single-goroutine,GOMAXPROCS=1"
	for ui, cfg := range []struct {
		raw bool
		id  uint32
	}{{false, 7}, {true, 0x0102FF}, {false, 0xFFFFFF}} {
		u, err := mkUniverse(cfg.raw, cfg.id)
		if err != nil {
			runtime.GOMAXPROCS(old)
			r.Inconc("universe: %v", err)
			return
		}
		ops := c15GenOps(rng, vrep.Pick(60, 400), cfg.raw, &nextID, 0)
		for _, op := range ops {
			x.exec(u.sides, op)
		}
		compareStores(u, fmt.Sprintf("phase 1 universe %d", ui))
		r.Count("programs", 1)
		for _, s := range u.sides {
			s.close()
		}
	}
	runtime.GOMAXPROCS(old)
	// ---- phase 2: several goroutines share the clients
	x.phase = "4-goroutines"
	for _, raw := range []bool{false, true} {
		u, err := mkUniverse(raw, 0x0100)
		if err != nil {
			r.Inconc("universe: %v", err)
			return
		}
		var wg sync.WaitGroup
		for g := 0; g < 4; g++ {
			// read-only programs per goroutine would hide nothing: writes of different goroutines target
			// the same keys, so only per-send oracles (wire, caller's request) and region-error shape are judged here
			ops := c15GenOps(rng, vrep.Pick(40, 300), raw, &nextID, 0)
			wg.Add(1)
			go func(ops []*c15Op) {
				defer wg.Done()
				for _, op := range ops {
					x.execConcurrent(u.sides, op)
				}
			}(ops)
		}
		wg.Wait()
		r.Count("programs", 1)
		for _, s := range u.sides {
			s.close()
		}
	}
	r.Floor("resends_of_same_request_object", 100)
	r.Floor("ops_between_resends", 30)
	r.Floor("sends", 500)
}

// execConcurrent is exec without the cross-side response comparison (other
// goroutines write the same keys in an unsynchronised order on the two stores).
func (x *c15Run) execConcurrent(sides []*c15Side, op *c15Op) {
	for _, side := range sides {
		logical := op.mk()
		req := tikvrpc.NewRequest(op.cmd, op.mk(), kvrpcpb.Context{TaskId: op.id, RegionId: 3})
		side.store.mu.Lock()
		side.store.fail[op.id] = op.fails
		side.store.mu.Unlock()
		before, msg, wire := *req, req.Req, c15MsgWire(req.Req)
		for attempt := 1; attempt <= op.fails+1; attempt++ {
			resp, err := x.send(side, req, op.async)
			x.r.Eval(1)
			x.r.Count("sends", 1)
			x.r.Count("concurrent_sends", 1)
			if attempt > 1 {
				x.r.Count("resends_of_same_request_object", 1)
			}
			where := fmt.Sprintf("%s %s task %d send #%d (%s, async=%v)", side.name, op.cmd, op.id, attempt, x.phase, op.async)
			if req.Req != msg || c15MsgWire(req.Req) != wire || !reflect.DeepEqual(*req, before) {
				x.violate("rpc:caller-request-modified", fmt.Sprintf("%s: the caller's request object was modified by the send: message %v (was %v)", where, req.Req, logical),
					map[string]any{"side": side.name, "cmd": op.cmd.String(), "send": attempt, "phase": x.phase})
				req = tikvrpc.NewRequest(op.cmd, op.mk(), kvrpcpb.Context{TaskId: op.id, RegionId: 3})
				before, msg, wire = *req, req.Req, c15MsgWire(req.Req)
			}
			x.checkWire(side, op, attempt, logical)
			if err != nil || resp == nil {
				x.violate("rpc:send-error", fmt.Sprintf("%s: %v", where, err), nil)
				continue
			}
			// response keys are logical: nothing the client hands back may carry the prefix
			if side.prefix != nil && resp.Resp != nil {
				vcat.Walk(resp.Resp, func(l *vcat.Leaf) {
					if (l.Name == "key") && bytes.HasPrefix(l.Bytes(), side.prefix[:1]) && bytes.HasPrefix(l.Bytes(), side.prefix) {
						x.violate("rpc:response-key-prefixed", fmt.Sprintf("%s: response field %s = %q still carries the keyspace prefix", where, l.Path, l.Bytes()), nil)
					}
				})
			}
		}
	}
	x.r.Distinct(fmt.Sprintf("conc|%s|fails=%d|async=%v", op.cmd, op.fails, op.async))
}
