//go:build verif

package locate

// C09 — the peer / store health family.
//
// The statement quantifies over "leader transfer, peer add/remove, store
// stop/start and stale or reordered PD answers ... interleaved with request
// sends" and demands that "once topology changes stop, every request converges
// to the store that currently leads the region holding its keys instead of
// failing or looping".  The scenarios of c09_core.go change WHO leads a region
// and WHERE its peers are, but every peer PD lists is a peer the client may
// use.  This family adds the changes after which the client has to drop peers
// of a PD answer:
//
//   - leader transfer to a chosen position of the peer list (first / middle /
//     last), optionally without PD noticing (PD keeps naming the old leader:
//     stale leader info on an otherwise current region description);
//   - PD reports a peer in DownPeers (biased to the leader and to the last
//     peer); raft may or may not have elected another leader, PD may or may not
//     have noticed;
//   - a store is decommissioned: marked tombstone in PD or removed from PD
//     (GetStore fails with "invalid store ID"), in two stages as in a real
//     cluster whose region heartbeats lag: first the store goes, later its
//     peers leave the regions (conf change);
//   - a peer becomes a witness (non-leader witnesses are not sent requests);
//   - a client restart (new cache) in the middle of all that;
//
// and an observation that asks the cache for the RPC context of a located
// region in every replica-read mode, as RegionRequestSender does, plus real
// sends.  Oracle of the observation (c09RPCCtx):
//
//	no panic; the context names a peer of the cached region, the peer's store
//	is the context's store, the address is not empty; the peer is one that some
//	answer handed to this cache listed as available (a peer that every PD
//	answer reported in DownPeers, or as a non-leader witness, was never offered
//	to the client); the store was not decommissioned before this cache existed
//	(such a store resolves as tombstone at first sight).
//
// Convergence is judged as in c09_core.go by the RPC interposer (genuine
// response from the store that really leads the region that holds the key).
// A panic inside the client during a send is reported as send:client-panic.

import (
	"fmt"
	"math/rand"
	"runtime"
	"sort"
	"sync"
	"testing"

	"github.com/pingcap/kvproto/pkg/metapb"
	"github.com/tikv/client-go/v2/internal/mockstore/mocktikv"
	"github.com/tikv/client-go/v2/kv"
	"github.com/tikv/client-go/v2/verifh/vrep"
	"github.com/tikv/pd/client/clients/router"
)

// ---------------------------------------------------------------- bookkeeping used by the world

// notePDAnswer: which peers did this answer offer to the client, and does it
// name a leader the client has to filter out (coverage of the family).
func (w *c09World) notePDAnswer(r *router.Region) {
	down := func(p *metapb.Peer) bool {
		for _, dp := range r.DownPeers {
			if dp.GetId() == p.GetId() && dp.GetStoreId() == p.GetStoreId() {
				return true
			}
		}
		return false
	}
	lid := r.Leader.GetId()
	n := len(r.Meta.Peers)
	for i, p := range r.Meta.Peers {
		filtered := down(p) || (p.IsWitness && p.Id != lid)
		if !filtered {
			w.peerUp.Store(p.Id, true)
		}
		if p.Id != lid || lid == 0 {
			continue
		}
		if !down(p) && !w.deadBirth[p.StoreId] {
			continue
		}
		// the leader PD names is a peer the client must not use
		w.r.Count("pd_answers_naming_filtered_leader", 1)
		switch {
		case n >= 2 && i == n-1:
			w.r.Count("pd_answers_naming_filtered_leader_last_peer", 1)
		case i == 0:
			w.r.Count("pd_answers_naming_filtered_leader_first_peer", 1)
		default:
			w.r.Count("pd_answers_naming_filtered_leader_middle_peer", 1)
		}
		if down(p) {
			w.r.Count("pd_answers_naming_down_leader", 1)
		} else {
			w.r.Count("pd_answers_naming_leader_on_decommissioned_store", 1)
		}
	}
	if len(r.DownPeers) > 0 {
		w.r.Count("pd_answers_with_down_peers", 1)
	}
}

// healthStr: the peer/store health state, for violation details.
func (w *c09World) healthStr() string {
	w.topoMu.RLock()
	defer w.topoMu.RUnlock()
	var dead, down, lag []string
	for s, m := range w.dead {
		dead = append(dead, fmt.Sprintf("store %d %s", s, m))
	}
	for p := range w.downMarks {
		down = append(down, fmt.Sprintf("peer %d", p))
	}
	for r, p := range w.pdLeader {
		lag = append(lag, fmt.Sprintf("r%d->peer %d", r, p))
	}
	sort.Strings(dead)
	sort.Strings(down)
	sort.Strings(lag)
	return fmt.Sprintf("decommissioned=%v down_peers=%v pd_still_names_leader=%v", dead, down, lag)
}

func (w *c09World) running(s uint64) bool { return w.dead[s] == "" && !w.stopped[s] }

// electLocked: raft elects a leader other than peer `avoid` among the peers on
// running stores (preferring peers PD does not report down and non-witnesses).
func (w *c09World) electLocked(rng *rand.Rand, meta *metapb.Region, avoid uint64) uint64 {
	var best, ok []*metapb.Peer
	for _, p := range meta.Peers {
		if p.Id == avoid || !w.running(p.StoreId) {
			continue
		}
		ok = append(ok, p)
		if !w.downMarks[p.Id] && !p.IsWitness {
			best = append(best, p)
		}
	}
	if len(best) > 0 {
		ok = best
	}
	if len(ok) == 0 {
		return 0
	}
	p := ok[rng.Intn(len(ok))]
	w.cluster.ChangeLeader(meta.Id, p.Id)
	return p.Id
}

// pdLags: PD keeps naming peer `old` as the leader of the region.
func (w *c09World) pdLags(regionID, old uint64) {
	if _, ok := w.pdLeader[regionID]; !ok && old != 0 {
		w.pdLeader[regionID] = old
		w.r.Count("pd_leader_info_lags", 1)
	}
}

// finishDecommissionLocked: the peers on the decommissioned store s leave their regions.
func (w *c09World) finishDecommissionLocked(s uint64) int {
	n := 0
	for _, r := range w.cluster.ScanRegions(nil, nil, 0) {
		for _, p := range r.Meta.Peers {
			if p.StoreId != s {
				continue
			}
			var others []*metapb.Peer
			for _, q := range r.Meta.Peers {
				if w.dead[q.StoreId] == "" {
					others = append(others, q)
				}
			}
			if len(others) == 0 {
				for _, t := range w.storeIDs {
					if w.dead[t] == "" {
						np := &metapb.Peer{Id: w.cluster.AllocID(), StoreId: t}
						w.cluster.AddPeer(r.Meta.Id, t, np.Id)
						others = append(others, np)
						break
					}
				}
			}
			if r.Leader.GetId() == p.Id && len(others) > 0 {
				nl := others[0]
				for _, q := range others {
					if !w.downMarks[q.Id] && !w.stopped[q.StoreId] {
						nl = q
						break
					}
				}
				w.cluster.ChangeLeader(r.Meta.Id, nl.Id)
			}
			w.cluster.RemovePeer(r.Meta.Id, p.Id)
			if w.downMarks[p.Id] {
				w.cluster.RemoveDownPeer(p.Id)
				delete(w.downMarks, p.Id)
			}
			n++
		}
	}
	return n
}

// saneWitnessesLocked keeps witnesses within what raft allows: the peer that
// leads a region is not a witness, and a region keeps at least one full peer on
// a store that still exists (otherwise the witness flags are dropped, a conf
// change).  Called before every snapshot once a witness exists.
func (w *c09World) saneWitnessesLocked() {
	leaders := map[uint64]uint64{}
	for _, r := range w.cluster.ScanRegions(nil, nil, 0) {
		leaders[r.Meta.Id] = r.Leader.GetId()
	}
	w.cluster.Lock()
	defer w.cluster.Unlock()
	for _, cr := range w.cluster.GetAllRegions() {
		full, any := false, false
		for _, q := range cr.Meta.Peers {
			any = any || q.IsWitness
			if !q.IsWitness && w.dead[q.StoreId] == "" {
				full = true
			}
		}
		if !any {
			continue
		}
		changed := false
		for _, q := range cr.Meta.Peers {
			if q.IsWitness && (!full || leaders[cr.Meta.Id] == q.Id) {
				q.IsWitness = false
				changed = true
			}
		}
		if changed {
			ep := cr.Meta.RegionEpoch
			cr.Meta.RegionEpoch = &metapb.RegionEpoch{ConfVer: ep.GetConfVer() + 1, Version: ep.GetVersion()}
		}
	}
}

// settlePeersLocked ends the health chaos (caller holds topoMu.Lock, every
// stopped store runs again): decommissions are completed, the peers that
// really lead a region are not reported down, PD knows the real leaders.
// Followers may stay reported down.  A no-op when the family was not used.
func (w *c09World) settlePeersLocked() {
	if len(w.dead) == 0 && len(w.downMarks) == 0 && len(w.pdLeader) == 0 {
		return
	}
	for _, s := range w.storeIDs {
		if w.dead[s] != "" {
			w.finishDecommissionLocked(s)
		}
	}
	for _, r := range w.cluster.ScanRegions(nil, nil, 0) {
		if id := r.Leader.GetId(); w.downMarks[id] {
			w.cluster.RemoveDownPeer(id)
			delete(w.downMarks, id)
		}
	}
	w.pdLeader = map[uint64]uint64{}
}

// ---------------------------------------------------------------- health changes

const (
	c09HLeaderTo = iota
	c09HPeerDown
	c09HPeerRecovers
	c09HDecommission
	c09HPeersLeaveDeadStore
	c09HPDHeartbeat
	c09HWitness
)

// c09HealthPlan pins down the random choices of a health change (zero value = random).
type c09HealthPlan struct {
	region   uint64 // 0 = any
	pos      int    // 1 first, 2 middle, 3 last peer of the list; 0 = random (biased to last)
	lag      int    // 1 PD notices, 2 PD keeps naming the old leader; 0 = random
	elect    int    // 1 raft elects another leader at once, 2 it does not (yet); 0 = random
	removed  bool   // decommission: the store vanishes from PD instead of becoming a tombstone
	fixedMod bool   // use `removed` as given
}

func c09Coin(rng *rand.Rand, plan, pct int) bool {
	if plan != 0 {
		return plan == 2
	}
	return rng.Intn(100) < pct
}

func c09PickPos(rng *rand.Rand, n, pos int) int {
	if pos == 0 {
		x := rng.Intn(100)
		switch {
		case x < 50:
			pos = 3
		case x < 70:
			pos = 1
		default:
			pos = 2
		}
	}
	switch {
	case pos == 3 || n < 2:
		return n - 1
	case pos == 1 || n < 3:
		return 0
	default:
		return 1 + rng.Intn(n-2)
	}
}

// health applies one peer/store health change; "" if not applicable.
func (w *c09World) health(rng *rand.Rand, kind int, pl c09HealthPlan) string {
	w.topoMu.Lock()
	defer w.topoMu.Unlock()
	cur := w.cur()
	var regs []*router.Region
	for _, r := range cur.regs {
		if pl.region == 0 || r.Meta.Id == pl.region {
			regs = append(regs, r)
		}
	}
	if len(regs) == 0 {
		return ""
	}
	desc := ""
	switch kind {
	case c09HLeaderTo:
		var cs []*router.Region
		for _, r := range regs {
			if len(r.Meta.Peers) >= 2 {
				cs = append(cs, r)
			}
		}
		if len(cs) == 0 {
			return ""
		}
		r := cs[rng.Intn(len(cs))]
		old := cur.leaderOf(r)
		i := c09PickPos(rng, len(r.Meta.Peers), pl.pos)
		if r.Meta.Peers[i].Id == old {
			if pl.pos != 0 {
				return ""
			}
			i = (i + 1 + rng.Intn(len(r.Meta.Peers)-1)) % len(r.Meta.Peers)
		}
		p := r.Meta.Peers[i]
		w.cluster.ChangeLeader(r.Meta.Id, p.Id)
		lag := c09Coin(rng, pl.lag, 35)
		if lag {
			w.pdLags(r.Meta.Id, old)
		}
		desc = fmt.Sprintf("leader r%d -> peer %d (#%d of %d) on store %d, PD notices: %v", r.Meta.Id, p.Id, i+1, len(r.Meta.Peers), p.StoreId, !lag)
		if i == len(r.Meta.Peers)-1 {
			w.r.Count("health_leader_to_last_peer", 1)
		}
		w.r.Count("health_leader_to", 1)
	case c09HPeerDown:
		r := regs[rng.Intn(len(regs))]
		leader := cur.leaderOf(r)
		var p *metapb.Peer
		x := rng.Intn(100)
		switch {
		case x < 55 || pl.region != 0:
			for _, q := range r.Meta.Peers {
				if q.Id == leader {
					p = q
				}
			}
		case x < 80:
			p = r.Meta.Peers[len(r.Meta.Peers)-1]
		}
		if p == nil {
			p = r.Meta.Peers[rng.Intn(len(r.Meta.Peers))]
		}
		if w.downMarks[p.Id] {
			return ""
		}
		w.cluster.MarkPeerDown(p.Id)
		w.downMarks[p.Id] = true
		note := ""
		if p.Id == leader {
			w.r.Count("health_leader_reported_down", 1)
			if !c09Coin(rng, pl.elect, 40) {
				if nl := w.electLocked(rng, r.Meta, p.Id); nl != 0 {
					lag := c09Coin(rng, pl.lag, 70)
					if lag {
						w.pdLags(r.Meta.Id, p.Id)
					}
					note = fmt.Sprintf(", raft elects peer %d, PD notices: %v", nl, !lag)
				}
			} else {
				note = ", it still leads"
			}
		}
		desc = fmt.Sprintf("PD reports peer %d (store %d) of r%d down%s", p.Id, p.StoreId, r.Meta.Id, note)
		w.r.Count("health_peer_down", 1)
	case c09HPeerRecovers:
		var ids []uint64
		for id := range w.downMarks {
			ids = append(ids, id)
		}
		if len(ids) == 0 {
			return ""
		}
		sort.Slice(ids, func(i, j int) bool { return ids[i] < ids[j] })
		id := ids[rng.Intn(len(ids))]
		w.cluster.RemoveDownPeer(id)
		delete(w.downMarks, id)
		desc = fmt.Sprintf("PD no longer reports peer %d down", id)
		w.r.Count("health_peer_recovers", 1)
	case c09HDecommission:
		var live []uint64
		for _, s := range w.storeIDs {
			if w.dead[s] == "" {
				live = append(live, s)
			}
		}
		if len(live) < 3 {
			return ""
		}
		// bias: a store that holds the leader of a region as the LAST peer of its list
		var pref []uint64
		for _, r := range regs {
			if n := len(r.Meta.Peers); n >= 2 && r.Meta.Peers[n-1].Id == cur.leaderOf(r) && w.dead[r.Meta.Peers[n-1].StoreId] == "" {
				pref = append(pref, r.Meta.Peers[n-1].StoreId)
			}
		}
		s := live[rng.Intn(len(live))]
		if pl.region != 0 {
			// scripted: the store of the peer that leads the region, wherever it is in the list
			s = w.leaderStore(cur, regs[0])
			if s == 0 || w.dead[s] != "" {
				return ""
			}
		} else if len(pref) > 0 && rng.Intn(100) < 60 {
			s = pref[rng.Intn(len(pref))]
		}
		removed := rng.Intn(100) < 35
		if pl.fixedMod {
			removed = pl.removed
		}
		mode := "tombstone"
		if removed {
			mode = "removed"
			w.cluster.RemoveStore(s)
		} else {
			w.cluster.MarkTombstone(s)
		}
		w.dead[s] = mode
		delete(w.stopped, s)
		elect := !c09Coin(rng, pl.elect, 40)
		lag := c09Coin(rng, pl.lag, 70)
		moved := 0
		for _, r := range cur.regs {
			if w.leaderStore(cur, r) != s {
				continue
			}
			if elect {
				old := cur.leaderOf(r)
				if w.electLocked(rng, r.Meta, old) != 0 {
					moved++
					if lag {
						w.pdLags(r.Meta.Id, old)
					}
				}
			}
		}
		desc = fmt.Sprintf("decommission store %d (%s in PD); its peers are still members; leaders re-elected: %d, PD notices: %v", s, mode, moved, !lag)
		w.r.Count("health_decommission_"+mode, 1)
	case c09HPeersLeaveDeadStore:
		var ds []uint64
		for _, s := range w.storeIDs {
			if w.dead[s] != "" {
				ds = append(ds, s)
			}
		}
		if len(ds) == 0 {
			return ""
		}
		s := ds[rng.Intn(len(ds))]
		n := w.finishDecommissionLocked(s)
		if n == 0 {
			return ""
		}
		desc = fmt.Sprintf("%d peers on decommissioned store %d left their regions", n, s)
		w.r.Count("health_peers_leave_dead_store", 1)
	case c09HPDHeartbeat:
		if len(w.pdLeader) == 0 {
			return ""
		}
		w.pdLeader = map[uint64]uint64{}
		desc = "region heartbeats: PD knows the real leaders"
		w.r.Count("health_pd_heartbeat", 1)
	case c09HWitness:
		var cs []*router.Region
		for _, r := range regs {
			if len(r.Meta.Peers) >= 3 {
				cs = append(cs, r)
			}
		}
		if len(cs) == 0 {
			return ""
		}
		r := cs[rng.Intn(len(cs))]
		leader := cur.leaderOf(r)
		i := c09PickPos(rng, len(r.Meta.Peers), pl.pos)
		p := r.Meta.Peers[i]
		if p.Id == leader || p.Id == r.Leader.GetId() {
			return ""
		}
		to := !p.IsWitness
		if to {
			for _, q := range r.Meta.Peers {
				if q.IsWitness {
					return "" // one witness per region
				}
			}
		}
		w.cluster.Lock()
		for _, cr := range w.cluster.GetAllRegions() {
			if cr.Meta.Id != r.Meta.Id {
				continue
			}
			for _, q := range cr.Meta.Peers {
				if q.Id == p.Id {
					q.IsWitness = to
				}
			}
			ep := cr.Meta.RegionEpoch
			cr.Meta.RegionEpoch = &metapb.RegionEpoch{ConfVer: ep.GetConfVer() + 1, Version: ep.GetVersion()}
		}
		w.cluster.Unlock()
		w.nWitness++
		desc = fmt.Sprintf("peer %d (#%d) of r%d witness=%v", p.Id, i+1, r.Meta.Id, to)
		w.r.Count("health_witness_switch", 1)
	}
	if desc != "" {
		w.snapshotLocked()
		w.changes.Add(1)
		w.r.Count("topology_changes", 1)
		w.r.Count("health_changes", 1)
		w.logf("CHANGE %s", desc)
	}
	return desc
}

var c09HealthWeights = []int{26, 24, 8, 12, 8, 10, 12}

func (w *c09World) randomHealth(rng *rand.Rand) string {
	for try := 0; try < 8; try++ {
		if d := w.health(rng, c09Weighted(rng, c09HealthWeights), c09HealthPlan{}); d != "" {
			return d
		}
	}
	return ""
}

// ---------------------------------------------------------------- the observation

func c09PeerStr(p *metapb.Peer) string {
	if p == nil {
		return "<nil>"
	}
	return fmt.Sprintf("peer %d on store %d", p.Id, p.StoreId)
}

// rpcCtx asks the cache for the RPC context of a located region, as the
// request sender does, and judges it.
func (w *c09World) rpcCtx(api string, key []byte, loc *KeyLocation, mode kv.ReplicaReadType, seed uint32) (ctx *RPCContext) {
	detail := map[string]any{"key": c09K(key), "location": c09LocStr(loc), "replica_read": mode.String(), "seed": seed}
	panicked := false
	var leaderStore uint64
	func() {
		defer func() {
			if p := recover(); p != nil {
				panicked = true
				buf := make([]byte, 5000)
				buf = buf[:runtime.Stack(buf, false)]
				detail["panic_value"], detail["stack"], detail["peer_health"] = fmt.Sprint(p), string(buf), w.healthStr()
				w.r.Eval(1)
				w.violate("rpcctx:client-panic", fmt.Sprintf("%s(%s) returned %s; asking the cache for the RPC context of that region (%s) panicked: %v",
					api, c09K(key), c09LocStr(loc), mode, p), detail)
			}
		}()
		var err error
		ctx, err = w.cache.GetTiKVRPCContext(w.bo(c09LookupBudgetMs), loc.Region, mode, seed)
		if err != nil {
			ctx = nil
		}
		if r := w.cache.GetCachedRegionWithRLock(loc.Region); r != nil {
			leaderStore = r.GetLeaderStoreID()
		}
	}()
	w.r.Eval(1)
	w.r.Count("rpcctx_checked", 1)
	if panicked || ctx == nil {
		if ctx == nil && !panicked {
			w.r.Count("rpcctx_nil", 1)
		}
		return nil
	}
	w.logf("  rpc context (%s): %s addr=%s leader-store=%d", mode, c09PeerStr(ctx.Peer), ctx.Addr, leaderStore)
	detail["rpc_context"] = fmt.Sprintf("%s addr=%q", c09PeerStr(ctx.Peer), ctx.Addr)
	if ctx.Peer == nil || ctx.Store == nil || ctx.Addr == "" || ctx.Meta == nil {
		w.violate("rpcctx:incomplete", fmt.Sprintf("the RPC context of %s (%s) lacks a peer, a store or an address: %s addr=%q", c09LocStr(loc), mode, c09PeerStr(ctx.Peer), ctx.Addr), detail)
		return nil
	}
	member := false
	for _, p := range ctx.Meta.Peers {
		if p.Id == ctx.Peer.Id && p.StoreId == ctx.Peer.StoreId {
			member = true
		}
	}
	if !member || ctx.Store.StoreID() != ctx.Peer.StoreId {
		w.violate("rpcctx:peer-not-of-the-region", fmt.Sprintf("the RPC context of %s (%s) names %s / store %d, which is not a usable peer of the cached region %v",
			c09LocStr(loc), mode, c09PeerStr(ctx.Peer), ctx.Store.StoreID(), ctx.Meta.Peers), detail)
		return ctx
	}
	if _, ok := w.peerUp.Load(ctx.Peer.Id); !ok {
		detail["peer_health"] = w.healthStr()
		w.violate("rpcctx:peer-never-reported-available", fmt.Sprintf("the RPC context of %s (%s) names %s, which every answer given to this client reported as down or as a non-leader witness",
			c09LocStr(loc), mode, c09PeerStr(ctx.Peer)), detail)
	}
	if w.deadBirth[ctx.Peer.StoreId] {
		detail["peer_health"] = w.healthStr()
		w.violate("rpcctx:peer-on-decommissioned-store", fmt.Sprintf("the RPC context of %s (%s) names %s; that store was a tombstone / removed from PD before this client started",
			c09LocStr(loc), mode, c09PeerStr(ctx.Peer)), detail)
	}
	return ctx
}

var c09ReadModes = []kv.ReplicaReadType{kv.ReplicaReadFollower, kv.ReplicaReadMixed, kv.ReplicaReadPreferLeader, kv.ReplicaReadLearner}

// opRPCCtx: locate a key (by one of the lookup APIs), take the RPC context of
// the located region for a leader request and for one other replica-read
// mode, then send a request for the key.
func (w *c09World) opRPCCtx(rng *rand.Rand, ph c09Phase, key []byte) {
	if key == nil {
		key = w.randKey(rng)
	}
	var loc *KeyLocation
	var err error
	api := "LocateKey"
	switch x := rng.Intn(10); {
	case x < 6:
		w.logf("RPCCTX LocateKey(%s)", c09K(key))
		loc, err = w.cache.LocateKey(w.bo(c09LookupBudgetMs), key)
		if err == nil {
			w.checkLoc(api, key, loc, false)
		}
	case x < 8:
		api = "LocateKeyRange"
		end := append(append([]byte{}, key...), 0)
		w.logf("RPCCTX LocateKeyRange[%s,%s)", c09K(key), c09K(end))
		var locs []*KeyLocation
		locs, err = w.cache.LocateKeyRange(w.bo(c09LookupBudgetMs), key, end)
		if err == nil {
			w.checkCover(api, []kv.KeyRange{{StartKey: key, EndKey: end}}, locs, false)
			if len(locs) > 0 {
				loc = locs[0]
			}
		}
	default:
		api = "BatchLocateKeyRanges"
		end := append(append([]byte{}, key...), 0)
		rs := []kv.KeyRange{{StartKey: key, EndKey: end}}
		w.logf("RPCCTX BatchLocateKeyRanges[%s,%s)", c09K(key), c09K(end))
		var locs []*KeyLocation
		locs, err = w.cache.BatchLocateKeyRanges(w.bo(c09LookupBudgetMs), rs)
		if err == nil {
			w.checkCover(api, rs, locs, false)
			if len(locs) > 0 {
				loc = locs[0]
			}
		}
	}
	if err != nil {
		w.lookupErr(ph, api, err, false)
		w.observe("op-end", nil)
		return
	}
	if loc == nil {
		w.observe("op-end", nil)
		return
	}
	w.logf("  -> %s", c09LocStr(loc))
	w.rpcCtx(api, key, loc, kv.ReplicaReadLeader, 0)
	w.rpcCtx(api, key, loc, c09ReadModes[rng.Intn(len(c09ReadModes))], rng.Uint32())
	w.observe("op-end", nil)
	w.r.Count("rpcctx_ops", 1)
	w.opSendKey(key, ph)
}

func (w *c09World) opSendKey(key []byte, ph c09Phase) {
	budget := c09ChaosSendBudget
	if ph.quiet {
		budget = c09ConvergeBudgetMs
	}
	w.logf("SEND key=%s", c09K(key))
	res := w.send(key, budget)
	w.logf("  -> ok=%v loops=%d rpcs=%d err=%v", res.ok, res.loops, res.rpcs, res.err)
	if res.ok {
		w.r.Count("sends_ok", 1)
	} else {
		w.r.Count("sends_failed_during_chaos", 1)
		if ph.quiet && !res.panicked {
			w.convergeFailure(key, res)
		}
	}
	w.observe("op-end", nil)
}

// keyIn: a key of the universe inside region r ("" region start counts).
func (w *c09World) keyIn(rng *rand.Rand, r *router.Region) []byte {
	s, e := w.dec(r.Meta.StartKey), w.dec(r.Meta.EndKey)
	var ks [][]byte
	for _, k := range w.keys {
		if c09Contains(s, e, k) {
			ks = append(ks, k)
		}
	}
	if len(ks) == 0 {
		return s
	}
	return ks[rng.Intn(len(ks))]
}

// restart: the client restarts (a new, cold or partially warmed cache).
func (w *c09World) restart(rng *rand.Rand, ph c09Phase) {
	w.newCache()
	w.r.Count("client_restarts", 1)
	if rng.Intn(2) == 0 {
		st := w.warm(rng, ph)
		w.logf("START STATE %s", st)
	}
}

// motifFilteredLeader composes the general operations above into the window
// the family is about: the peer PD names as leader of a region is one the
// client has to drop, the region is (re)loaded from PD in that window, and a
// request follows.  Everything is a parameter: position of the leader in the
// peer list, why the peer is unusable, whether raft already moved on, whether
// the cache is cold / restarted / invalidated, which API loads the region.
func (w *c09World) motifFilteredLeader(rng *rand.Rand, ph c09Phase) {
	cur := w.cur()
	var cs []*router.Region
	for _, r := range cur.regs {
		if len(r.Meta.Peers) >= 2 {
			cs = append(cs, r)
		}
	}
	if len(cs) == 0 {
		return
	}
	r := cs[rng.Intn(len(cs))]
	key := w.keyIn(rng, r)
	pos := []int{3, 3, 3, 1, 2, 0}[rng.Intn(6)]
	w.logf("MOTIF filtered leader on r%d (position plan %d), key %s", r.Meta.Id, pos, c09K(key))
	w.health(rng, c09HLeaderTo, c09HealthPlan{region: r.Meta.Id, pos: pos, lag: 1})
	pl := c09HealthPlan{region: r.Meta.Id, lag: 1 + rng.Intn(2), elect: 1 + rng.Intn(2)}
	if pl.elect == 1 {
		pl.lag = 2 // raft moved on at once, PD still names the old leader
	}
	how := rng.Intn(3)
	d := ""
	switch how {
	case 0:
		d = w.health(rng, c09HPeerDown, pl)
	default:
		pl.fixedMod, pl.removed = true, how == 2
		d = w.health(rng, c09HDecommission, pl)
		if d == "" {
			d = w.health(rng, c09HPeerDown, pl)
			how = 0
		}
	}
	if d == "" {
		return
	}
	// the region is loaded from PD in that window
	switch x := rng.Intn(10); {
	case how != 0 && x < 6, how == 0 && x < 2:
		w.restart(rng, c09Phase{})
	case x < 8:
		if l := w.cache.TryLocateKey(key); l != nil {
			w.logf("motif INVALIDATE %s", c09LocStr(l))
			w.cache.InvalidateCachedRegionWithReason(l.Region, []InvalidReason{Other, NoLeader, StoreNotFound}[rng.Intn(3)])
		}
	default:
		w.invalidateSome(rng, 100)
	}
	w.opRPCCtx(rng, ph, key)
	// raft moves on (if it had not), the request has to follow
	if rng.Intn(2) == 0 {
		w.health(rng, c09HLeaderTo, c09HealthPlan{region: r.Meta.Id, pos: []int{1, 2, 0}[rng.Intn(3)], lag: 1 + rng.Intn(2)})
	}
	w.opRPCCtx(rng, ph, key)
	w.r.Count("motif_filtered_leader", 1)
}

// ---------------------------------------------------------------- scenario engine

func c09Peers(r *vrep.Report, stream string, idx int, mvcc mocktikv.MVCCStore, concurrent bool) {
	rng := vrep.Rand(fmt.Sprintf("%s-%d", stream, idx))
	txn := rng.Intn(3) == 0
	desc := fmt.Sprintf("%s #%d seed=%d txn=%v", stream, idx, vrep.Seed(), txn)
	w := c09NewWorld(r, desc, rng, mvcc, txn, 3+rng.Intn(3))
	defer w.close()
	c09Layout(w, rng, 0, 4)
	// health changes that predate the client: cold caches meet them
	for i := rng.Intn(4); i > 0; i-- {
		w.randomHealth(rng)
	}
	chaos := c09Phase{quiet: false}
	w.newCache()
	if rng.Intn(3) > 0 {
		w.logf("START STATE %s", w.warm(rng, chaos))
	}
	w.mu.Lock()
	w.pStale = []float64{0, 0.2, 0.4}[rng.Intn(3)]
	w.noBatch = rng.Intn(8) == 0
	w.mu.Unlock()
	weights := []int{14, 10, 4, 8, 16, 26, 12, 5, 3, 5}
	steps := 20 + rng.Intn(25)
	for i := 0; i < steps; i++ {
		x := rng.Intn(100)
		switch {
		case x < 20:
			w.randomHealth(rng)
		case x < 30:
			w.randomChange(rng)
		case x < 36:
			w.motifFilteredLeader(rng, chaos)
		case x < 56:
			w.op(rng, chaos, c09Weighted(rng, weights))
		case x < 74:
			w.opRPCCtx(rng, chaos, nil)
		case x < 84:
			w.opSend(rng, chaos)
		case x < 89:
			if rng.Intn(2) == 0 {
				w.invalidateSome(rng, 30+rng.Intn(70))
			} else {
				w.opInvalidate(rng)
			}
		case x < 92:
			w.restart(rng, chaos)
		case x < 96:
			w.opEpochNotMatch(rng, chaos)
		default:
			w.opCtxEnd(rng, chaos)
		}
	}
	if concurrent {
		w.concurrent.Store(true)
		var wg sync.WaitGroup
		nWorkers := 3 + rng.Intn(3)
		nChanges := 8 + rng.Intn(10)
		crng := rand.New(rand.NewSource(rng.Int63()))
		wg.Add(1)
		go func() {
			defer wg.Done()
			for i := 0; i < nChanges; i++ {
				if crng.Intn(3) == 0 {
					w.randomChange(crng)
				} else {
					w.randomHealth(crng)
				}
				for j := 0; j < 20; j++ {
					runtime.Gosched()
				}
			}
		}()
		for g := 0; g < nWorkers; g++ {
			wrng := rand.New(rand.NewSource(rng.Int63()))
			wg.Add(1)
			go func() {
				defer wg.Done()
				for i := 0; i < 20; i++ {
					x := wrng.Intn(100)
					switch {
					case x < 40:
						w.op(wrng, chaos, c09Weighted(wrng, weights))
					case x < 80:
						w.opRPCCtx(wrng, chaos, nil)
					case x < 92:
						w.opSend(wrng, chaos)
					default:
						w.invalidateSome(wrng, 50)
					}
					w.r.Count("concurrent_ops", 1)
				}
			}()
		}
		wg.Wait()
		w.concurrent.Store(false)
		w.wbReset.Store(true)
		w.logf("CONCURRENT PHASE OVER")
	}
	w.settle()
	quiet := c09Phase{quiet: true}
	w.checkConverged(w.keys)
	for i := 0; i < 6; i++ {
		switch i % 3 {
		case 0:
			w.opRPCCtx(rng, quiet, nil)
		case 1:
			w.op(rng, quiet, c09Weighted(rng, weights))
		default:
			w.invalidateSome(rng, 60)
			w.opRPCCtx(rng, quiet, nil)
		}
	}
	w.finish()
}

func TestVerifC09Peers(t *testing.T) {
	r := vrep.New("C09", "c09-core-peers", "peer/store health family: leader transfer to a chosen position of the peer list, PD DownPeers, store tombstone/removal in two stages, witnesses, lagging PD leader info, client restarts; all lookup APIs, the RPC context of located regions in every replica-read mode, sends; a share of the scenarios with racing goroutines; then convergence of every key: clauses (1)-(3), (5), no panic; "+c09Rule)
	defer r.Finish(t)
	r.Assume("a peer PD reports in DownPeers, a non-leader witness, and a peer on a store that is a tombstone in PD / unknown to PD are peers the client does not send requests to (newRegion's filters); PD may name such a peer as leader (its leader info lags behind raft)")
	mvcc := mocktikv.MustNewMVCCStore()
	defer mvcc.Close()
	n := vrep.Pick(700, 12000)
	for i := 0; i < n; i++ {
		i := i
		if !c09Guard(r, t, fmt.Sprintf("c09-peers #%d", i), func() { c09Peers(r, "c09-peers", i, mvcc, i%5 == 4) }) {
			break
		}
	}
	r.Floor("rpcctx_checked", vrep.Pick(10000, 170000))
	r.Floor("motif_filtered_leader", vrep.Pick(500, 8000))
	r.Floor("health_leader_to_last_peer", vrep.Pick(800, 13000))
	r.Floor("health_leader_reported_down", vrep.Pick(800, 13000))
	r.Floor("health_decommission_tombstone", vrep.Pick(300, 5000))
	r.Floor("health_decommission_removed", vrep.Pick(150, 2500))
	r.Floor("health_witness_switch", vrep.Pick(200, 3000))
	r.Floor("pd_leader_info_lags", vrep.Pick(800, 13000))
	r.Floor("client_restarts", vrep.Pick(500, 8000))
	r.Floor("pd_answers_with_down_peers", vrep.Pick(3000, 50000))
	r.Floor("pd_answers_naming_filtered_leader", vrep.Pick(1000, 16000))
	r.Floor("pd_answers_naming_filtered_leader_last_peer", vrep.Pick(300, 5000))
	r.Floor("pd_answers_naming_filtered_leader_first_peer", vrep.Pick(100, 1600))
	r.Floor("pd_answers_naming_down_leader", vrep.Pick(500, 8000))
	r.Floor("pd_answers_naming_leader_on_decommissioned_store", vrep.Pick(100, 1600))
	r.Floor("converged_requests", vrep.Pick(15000, 250000))
	r.Floor("converged_after_retries", vrep.Pick(300, 5000))
}
