//go:build verif

package locate

// C09 oracles (structural, no ground truth about *which* region is current):
//
//  (1) containment: every KeyLocation returned for a key contains it
//      (LocateEndKey: start < key <= end, empty end = +inf), and the
//      (RegionVerID, range) pair it names is a region version that really
//      existed with exactly that range;
//  (2) coverage: the locations of LocateKeyRange / BatchLocateKeyRanges, taken
//      in order, cover every requested range without a gap, up to and
//      including an unbounded last region; when everything the cache knows
//      stems from one topology (no change, no stale PD answer since it was
//      created) they are moreover strictly sorted and non-overlapping;
//  (3) grouping: GroupKeysByRegion puts every key into exactly one group, the
//      group's region version contains the key, `first` is the group of
//      keys[0];
//  (5) convergence: see checkConverged in c09_core.go.

import (
	"bytes"
	"fmt"
	"math/rand"
	"sort"
	"strings"

	"github.com/tikv/client-go/v2/kv"
)

func c09LocStr(l *KeyLocation) string {
	if l == nil {
		return "<nil>"
	}
	return fmt.Sprintf("r%d@%d.%d[%s,%s)", l.Region.GetID(), l.Region.GetVer(), l.Region.GetConfVer(), c09K(l.StartKey), c09K(l.EndKey))
}

func c09LocsStr(ls []*KeyLocation) string {
	var sb strings.Builder
	for i, l := range ls {
		if i > 0 {
			sb.WriteByte(' ')
		}
		sb.WriteString(c09LocStr(l))
	}
	return sb.String()
}

func c09RangesStr(rs []kv.KeyRange) string {
	var sb strings.Builder
	for i, r := range rs {
		if i > 0 {
			sb.WriteByte(' ')
		}
		fmt.Fprintf(&sb, "[%s,%s)", c09K(r.StartKey), c09K(r.EndKey))
	}
	return sb.String()
}

func (w *c09World) remember(l *KeyLocation) {
	w.mu.Lock()
	if len(w.seenVers) < 256 {
		w.seenVers = append(w.seenVers, l.Region)
	} else {
		w.seenVers[int(l.Region.GetID()+l.Region.GetVer())%256] = l.Region
	}
	w.mu.Unlock()
}

// checkIdentity: the location names a region version that existed, with its true range.
func (w *c09World) checkIdentity(api string, l *KeyLocation) bool {
	rg, ok := w.regRange(l.Region)
	if !ok {
		w.violate("loc:unknown-region-version:"+api, fmt.Sprintf("%s returned %s, a region version that never existed", api, c09LocStr(l)), nil)
		return false
	}
	if !bytes.Equal(rg.start, l.StartKey) || !bytes.Equal(rg.end, l.EndKey) {
		w.violate("loc:range-differs-from-region-version:"+api, fmt.Sprintf("%s returned %s but that region version spans [%s,%s)",
			api, c09LocStr(l), c09K(rg.start), c09K(rg.end)), nil)
		return false
	}
	return true
}

// checkLoc is clause (1).
func (w *c09World) checkLoc(api string, key []byte, l *KeyLocation, byEnd bool) {
	w.r.Eval(1)
	w.r.Count("lookups_checked", 1)
	if l == nil {
		w.violate("loc:nil-without-error:"+api, fmt.Sprintf("%s(%s) returned nil location and nil error", api, c09K(key)), nil)
		return
	}
	w.remember(l)
	w.checkIdentity(api, l)
	ok := false
	if byEnd && len(key) == 0 {
		// Region.ContainsByEnd: "Only a region's right bound expands to inf contains the point at inf."
		ok = len(l.EndKey) == 0
		if !ok {
			w.violate("contain:"+api+":empty-key-means-inf", fmt.Sprintf("%s('') returned %s; an empty end key stands for +inf, which only the region with an empty end key contains (Region.ContainsByEnd)",
				api, c09LocStr(l)), map[string]any{"location": c09LocStr(l)})
		}
		return
	}
	if byEnd {
		ok = c09ContainsByEnd(l.StartKey, l.EndKey, key)
	} else {
		ok = c09Contains(l.StartKey, l.EndKey, key)
	}
	if !ok {
		w.violate("contain:"+api, fmt.Sprintf("%s(%s) returned %s which does not contain the key", api, c09K(key), c09LocStr(l)),
			map[string]any{"key": c09K(key), "location": c09LocStr(l)})
	}
}

// c09Cover decides whether locs, taken in order, cover all ranges without a
// gap: is there a non-decreasing choice of locations l(1) <= l(2) <= ... such
// that the first contains the start of the first range, each next one
// contains the end key of its predecessor, and the chain reaches the end of
// every range (or an unbounded location).  Exhaustive search, so that a
// reported gap is certain.  Returns the furthest uncovered key reached.
func c09Cover(ranges []kv.KeyRange, locs []*KeyLocation) (bool, []byte) {
	var furthest []byte
	var rec func(ri int, cursor []byte, li int) bool
	rec = func(ri int, cursor []byte, li int) bool {
		if ri >= len(ranges) {
			return true
		}
		if bytes.Compare(cursor, furthest) > 0 || furthest == nil {
			furthest = append([]byte{}, cursor...)
		}
		for j := li; j < len(locs); j++ {
			l := locs[j]
			if !c09Contains(l.StartKey, l.EndKey, cursor) {
				continue
			}
			if len(l.EndKey) == 0 {
				return true // reaches +inf: everything after is covered
			}
			// skip every range that ends at or before this location's end
			// (range ri is covered from cursor on, later ones lie inside
			// [cursor, l.EndKey) entirely)
			nri := ri
			for nri < len(ranges) && len(ranges[nri].EndKey) > 0 && bytes.Compare(l.EndKey, ranges[nri].EndKey) >= 0 {
				nri++
			}
			if nri >= len(ranges) {
				return true
			}
			ncur := l.EndKey
			if bytes.Compare(ranges[nri].StartKey, ncur) > 0 {
				ncur = ranges[nri].StartKey
			}
			if rec(nri, ncur, j) {
				return true
			}
		}
		return false
	}
	if len(ranges) == 0 {
		return true, nil
	}
	return rec(0, ranges[0].StartKey, 0), furthest
}

// checkCover is clause (2).
func (w *c09World) checkCover(api string, ranges []kv.KeyRange, locs []*KeyLocation, strictOK bool) {
	w.r.Eval(1)
	w.r.Count("lookups_checked", 1)
	w.r.Count("range_lookups_checked", 1)
	for _, l := range locs {
		if l == nil {
			w.violate("range:nil-location:"+api, fmt.Sprintf("%s(%s) returned a nil location", api, c09RangesStr(ranges)), nil)
			return
		}
		w.remember(l)
		w.checkIdentity(api, l)
	}
	if len(locs) >= 2 {
		w.r.Count("range_lookups_multi_region", 1)
	}
	if len(locs) > 128 {
		w.r.Count("range_results_over_128_regions", 1)
	}
	ok, at := c09Cover(ranges, locs)
	if !ok {
		// shape of the gap: is anything returned beyond it?
		shape := "tail-missing"
		for _, l := range locs {
			if bytes.Compare(l.StartKey, at) > 0 {
				shape = "hole"
			}
		}
		w.violate("range:gap:"+api+":"+shape, fmt.Sprintf("%s(%s) returned %s: not covered from key %s on (%s)", api, c09RangesStr(ranges),
			c09LocsStr(locs), c09K(at), shape), map[string]any{"ranges": c09RangesStr(ranges), "locations": c09LocsStr(locs), "uncovered_from": c09K(at)})
		return
	}
	// overlaps are legitimate when cached and fresh knowledge of different age are
	// stitched (region_cache_test expects them); only in a consistent world
	// they cannot be explained.
	overlap := false
	for i := 0; i+1 < len(locs); i++ {
		a, b := locs[i], locs[i+1]
		if len(a.EndKey) == 0 || bytes.Compare(a.EndKey, b.StartKey) > 0 || bytes.Compare(a.StartKey, b.StartKey) >= 0 {
			overlap = true
		}
	}
	if overlap {
		w.r.Count("range_results_with_overlap", 1)
		if strictOK {
			w.violate("range:unsorted-or-overlapping:"+api, fmt.Sprintf("%s(%s) returned %s: not strictly sorted / overlapping although all knowledge stems from one topology",
				api, c09RangesStr(ranges), c09LocsStr(locs)), map[string]any{"ranges": c09RangesStr(ranges), "locations": c09LocsStr(locs)})
		}
	}
}

// checkGroups is clause (3).
func (w *c09World) checkGroups(keys [][]byte, groups map[RegionVerID][][]byte, first RegionVerID) {
	w.r.Eval(1)
	w.r.Count("lookups_checked", 1)
	ks := func() string {
		var s []string
		for _, k := range keys {
			s = append(s, c09K(k))
		}
		return strings.Join(s, ",")
	}
	gs := func() string {
		var s []string
		for id, g := range groups {
			var t []string
			for _, k := range g {
				t = append(t, c09K(k))
			}
			s = append(s, fmt.Sprintf("r%d@%d.%d:{%s}", id.GetID(), id.GetVer(), id.GetConfVer(), strings.Join(t, ",")))
		}
		sort.Strings(s)
		return strings.Join(s, " ")
	}
	seen := map[string]int{}
	for id, g := range groups {
		rg, ok := w.regRange(id)
		if !ok {
			w.violate("group:unknown-region-version", fmt.Sprintf("GroupKeysByRegion(%s) has a group for r%d@%d.%d which never existed: %s",
				ks(), id.GetID(), id.GetVer(), id.GetConfVer(), gs()), nil)
			continue
		}
		for _, k := range g {
			seen[string(k)]++
			if !c09Contains(rg.start, rg.end, k) {
				w.violate("group:key-outside-its-region", fmt.Sprintf("GroupKeysByRegion(%s) put key %s into r%d@%d.%d [%s,%s): %s",
					ks(), c09K(k), id.GetID(), id.GetVer(), id.GetConfVer(), c09K(rg.start), c09K(rg.end), gs()),
					map[string]any{"keys": ks(), "groups": gs()})
			}
		}
	}
	for _, k := range keys {
		if seen[string(k)] != 1 {
			w.violate("group:key-not-in-exactly-one-group", fmt.Sprintf("GroupKeysByRegion(%s): key %s is in %d groups: %s", ks(), c09K(k), seen[string(k)], gs()),
				map[string]any{"keys": ks(), "groups": gs()})
		}
	}
	total := 0
	for _, n := range seen {
		total += n
	}
	if total != len(keys) {
		w.violate("group:foreign-keys", fmt.Sprintf("GroupKeysByRegion(%s) returned %d keys in groups: %s", ks(), total, gs()), nil)
	}
	if len(keys) > 0 {
		found := false
		for _, k := range groups[first] {
			if bytes.Equal(k, keys[0]) {
				found = true
			}
		}
		if !found {
			w.violate("group:first-is-not-group-of-first-key", fmt.Sprintf("GroupKeysByRegion(%s): first=r%d@%d.%d does not hold keys[0]: %s",
				ks(), first.GetID(), first.GetVer(), first.GetConfVer(), gs()), nil)
		}
	}
	if len(groups) >= 2 {
		w.r.Count("groupings_multi_region", 1)
	}
}

// ---------------------------------------------------------------- input generators

func (w *c09World) randKey(rng *rand.Rand) []byte { return w.keys[rng.Intn(len(w.keys))] }

// randRanges: 1..maxN sorted, non-empty, non-overlapping ranges over the key
// universe; neighbours may touch; the first may start at -inf, the last may be
// unbounded.
func (w *c09World) randRanges(rng *rand.Rand, maxN int) []kv.KeyRange {
	n := 1 + rng.Intn(maxN)
	pts := map[string]struct{}{}
	for len(pts) < 2*n {
		k := w.keys[1+rng.Intn(len(w.keys)-1)] // non-empty
		pts[string(k)] = struct{}{}
	}
	var ps []string
	for k := range pts {
		ps = append(ps, k)
	}
	sort.Strings(ps)
	var out []kv.KeyRange
	for i := 0; i < n; i++ {
		out = append(out, kv.KeyRange{StartKey: []byte(ps[2*i]), EndKey: []byte(ps[2*i+1])})
	}
	for i := 0; i+1 < n; i++ {
		if rng.Intn(5) == 0 { // touching neighbours
			out[i].EndKey = append([]byte{}, out[i+1].StartKey...)
		}
	}
	if rng.Intn(5) == 0 {
		out[0].StartKey = []byte{}
	}
	if rng.Intn(4) == 0 {
		out[n-1].EndKey = []byte{}
	}
	return out
}

func (w *c09World) randKeySet(rng *rand.Rand) [][]byte {
	n := 2 + rng.Intn(7)
	pts := map[string]struct{}{}
	for len(pts) < n {
		pts[string(w.randKey(rng))] = struct{}{}
	}
	var ps []string
	for k := range pts {
		ps = append(ps, k)
	}
	sort.Strings(ps)
	if rng.Intn(3) == 0 {
		rng.Shuffle(len(ps), func(i, j int) { ps[i], ps[j] = ps[j], ps[i] })
	}
	var out [][]byte
	for _, p := range ps {
		out = append(out, []byte(p))
	}
	return out
}
