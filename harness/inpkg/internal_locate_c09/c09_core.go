//go:build verif

package locate

// C09 workloads: seeded scenario engines over the world of c09_world.go.
//
//   static      the topology is built first, then caches are created and put
//               into a start state (cold / partially warm with a hole in the
//               middle and a cached unbounded last region / warm then partially
//               invalidated / born TTL-expired) and all lookup APIs plus sends
//               run with fresh PD answers.  Everything the cache knows stems
//               from one topology, so even the strict clauses apply.
//   dynamic     one driver goroutine interleaves topology changes, stale PD
//               answers, lookups, sends and invalidations; then the chaos
//               stops and every key's request has to converge.
//   concurrent  the same with several lookup/send goroutines racing a
//               topology-changing goroutine (under -race), then convergence.

import (
	"bytes"
	"context"
	"fmt"
	"math/rand"
	"runtime"
	"sync"
	"testing"
	"time"

	"github.com/golang/protobuf/proto" //nolint:staticcheck
	"github.com/pingcap/kvproto/pkg/metapb"
	"github.com/tikv/client-go/v2/config/retry"
	"github.com/tikv/client-go/v2/internal/mockstore/mocktikv"
	"github.com/tikv/client-go/v2/kv"
	"github.com/tikv/client-go/v2/verifh/vrep"
)

const (
	c09LookupBudgetMs   = 20000 // virtual ms (back-off sleeps are skipped)
	c09ChaosSendBudget  = 3000  // sends during chaos may fail
	c09ConvergeBudgetMs = 40000 // the retry budget of clause (5)
)

type c09Phase struct {
	quiet bool        // no chaos: lookups and sends must succeed
	end   *c09CtxPlan // the caller's context of this lookup ends during the call
}

func (w *c09World) boPh(ph c09Phase) *retry.Backoffer {
	if ph.end != nil {
		return retry.NewBackofferWithVars(context.WithValue(ph.end.ctx, c09OpKey{}, 1), c09LookupBudgetMs, nil)
	}
	return w.bo(c09LookupBudgetMs)
}

type c09OpKey struct{}

func (w *c09World) lookupErr(ph c09Phase, api string, err error, expected bool) {
	w.r.Count("lookup_errors", 1)
	w.logf("  -> error: %v", err)
	if ph.end != nil && ph.end.fired.Load() {
		// the caller's context ended during this call: its error is not judged
		w.r.Count("ctx_ended_calls_failed", 1)
		return
	}
	if ph.quiet && !expected {
		w.r.Eval(1)
		w.violate("quiescent:lookup-error:"+api, fmt.Sprintf("%s failed although nothing changes, every store runs and PD answers are fresh: %v", api, err), nil)
	}
}

func (w *c09World) fp(api, args string) {
	w.r.Distinct(w.cur().bounds(w.dec) + "#" + api + "#" + args)
}

// op runs one lookup operation chosen by kind and judges its result.
// kinds: 0 LocateKey 1 LocateEndKey 2 TryLocateKey 3 LocateRegionByID
// 4 LocateKeyRange 5 BatchLocateKeyRanges 6 GroupKeysByRegion
// 7 LoadRegionsInKeyRange 8 ListRegionIDsInKeyRange 9 BatchLoadRegionsFromKey
func (w *c09World) op(rng *rand.Rand, ph c09Phase, kind int) {
	switch kind {
	case 0:
		key := w.randKey(rng)
		w.logf("LocateKey(%s)", c09K(key))
		loc, err := w.cache.LocateKey(w.boPh(ph), key)
		if err != nil {
			w.lookupErr(ph, "LocateKey", err, false)
		} else {
			w.logf("  -> %s", c09LocStr(loc))
			w.checkLoc("LocateKey", key, loc, false)
			w.fp("LocateKey", c09K(key))
		}
	case 1:
		key := w.randKey(rng) // the empty key stands for +inf (Region.ContainsByEnd)
		if rng.Intn(2) == 0 {
			// bias: a key that is (or recently was) a region boundary, the case in which the
			// lookup needs the region *before* the one PD reports for the key
			w.mu.Lock()
			sn := w.snaps[len(w.snaps)-1-rng.Intn(min(len(w.snaps), 4))]
			w.mu.Unlock()
			if len(sn.regs) > 1 {
				key = w.dec(sn.regs[1+rng.Intn(len(sn.regs)-1)].Meta.StartKey)
			}
		}
		w.logf("LocateEndKey(%s)", c09K(key))
		loc, err := w.cache.LocateEndKey(w.boPh(ph), key)
		if err != nil {
			w.lookupErr(ph, "LocateEndKey", err, false)
		} else {
			w.logf("  -> %s", c09LocStr(loc))
			w.checkLoc("LocateEndKey", key, loc, true)
			w.fp("LocateEndKey", c09K(key))
		}
	case 2:
		key := w.randKey(rng)
		w.logf("TryLocateKey(%s)", c09K(key))
		loc := w.cache.TryLocateKey(key)
		w.logf("  -> %s", c09LocStr(loc))
		if loc != nil {
			w.checkLoc("TryLocateKey", key, loc, false)
			w.r.Count("try_locate_hits", 1)
		} else {
			w.r.Count("try_locate_misses", 1)
		}
	case 3:
		w.mu.Lock()
		id := w.allIDs[rng.Intn(len(w.allIDs))]
		w.mu.Unlock()
		exists := w.cur().byID(id) != nil
		w.logf("LocateRegionByID(%d) exists-now=%v", id, exists)
		loc, err := w.cache.LocateRegionByID(w.boPh(ph), id)
		if err != nil {
			w.lookupErr(ph, "LocateRegionByID", err, !exists)
		} else {
			w.logf("  -> %s", c09LocStr(loc))
			w.r.Eval(1)
			w.r.Count("lookups_checked", 1)
			if loc == nil {
				w.violate("loc:nil-without-error:LocateRegionByID", fmt.Sprintf("LocateRegionByID(%d) returned nil, nil", id), nil)
			} else {
				w.remember(loc)
				w.checkIdentity("LocateRegionByID", loc)
				if loc.Region.GetID() != id {
					w.violate("contain:LocateRegionByID", fmt.Sprintf("LocateRegionByID(%d) returned %s", id, c09LocStr(loc)), nil)
				}
			}
		}
	case 4:
		rs := w.randRanges(rng, 1)
		strict := w.consistent()
		w.logf("LocateKeyRange%s", c09RangesStr(rs))
		locs, err := w.cache.LocateKeyRange(w.boPh(ph), rs[0].StartKey, rs[0].EndKey)
		if err != nil {
			w.lookupErr(ph, "LocateKeyRange", err, false)
		} else {
			w.logf("  -> %s", c09LocsStr(locs))
			w.checkCover("LocateKeyRange", rs, locs, strict && w.consistent())
			w.fp("LocateKeyRange", c09RangesStr(rs))
		}
	case 5:
		rs := w.randRanges(rng, 4)
		strict := w.consistent()
		var opts []BatchLocateKeyRangesOpt
		if rng.Intn(4) == 0 {
			opts = append(opts, WithNeedRegionHasLeaderPeer()) // every region has a leader here
		}
		if rng.Intn(6) == 0 {
			opts = append(opts, WithNeedBuckets())
		}
		hits := ""
		if !w.concurrent.Load() && w.r.SampleN() < 5 {
			hits = w.cachedPicture()
		}
		w.logf("BatchLocateKeyRanges(%s)", c09RangesStr(rs))
		locs, err := w.cache.BatchLocateKeyRanges(w.boPh(ph), append([]kv.KeyRange(nil), rs...), opts...)
		if err != nil {
			w.lookupErr(ph, "BatchLocateKeyRanges", err, false)
		} else {
			w.logf("  -> %s", c09LocsStr(locs))
			w.checkCover("BatchLocateKeyRanges", rs, locs, strict && w.consistent())
			w.fp("BatchLocateKeyRanges", c09RangesStr(rs))
			if hits != "" && len(locs) >= 3 && len(rs) >= 2 {
				w.r.Sample(map[string]any{"scenario": w.desc, "layout": w.cur().layout(w.dec), "cached_before": hits,
					"ranges": c09RangesStr(rs), "locations": c09LocsStr(locs)})
			}
		}
	case 6:
		keys := w.randKeySet(rng)
		w.logf("GroupKeysByRegion(%d keys)", len(keys))
		groups, first, err := w.cache.GroupKeysByRegion(w.boPh(ph), keys, nil)
		if err != nil {
			w.lookupErr(ph, "GroupKeysByRegion", err, false)
		} else {
			w.checkGroups(keys, groups, first)
			w.fp("GroupKeysByRegion", fmt.Sprint(len(keys), c09K(keys[0]), c09K(keys[len(keys)-1])))
		}
	case 7:
		rs := w.randRanges(rng, 1)
		w.logf("LoadRegionsInKeyRange%s", c09RangesStr(rs))
		regs, err := w.cache.LoadRegionsInKeyRange(w.boPh(ph), rs[0].StartKey, rs[0].EndKey)
		if err != nil {
			w.lookupErr(ph, "LoadRegionsInKeyRange", err, false)
		} else {
			var locs []*KeyLocation
			for _, r := range regs {
				locs = append(locs, &KeyLocation{Region: r.VerID(), StartKey: r.StartKey(), EndKey: r.EndKey()})
			}
			w.logf("  -> %s", c09LocsStr(locs))
			w.checkCover("LoadRegionsInKeyRange", rs, locs, false)
			w.fp("LoadRegionsInKeyRange", c09RangesStr(rs))
		}
	case 8:
		rs := w.randRanges(rng, 1)
		if len(rs[0].EndKey) == 0 {
			rs[0].EndKey = []byte{0xff, 0xff, 0xff}
		}
		w.logf("ListRegionIDsInKeyRange%s", c09RangesStr(rs))
		ids, err := w.cache.ListRegionIDsInKeyRange(w.boPh(ph), rs[0].StartKey, rs[0].EndKey)
		if err != nil {
			w.lookupErr(ph, "ListRegionIDsInKeyRange", err, false)
		} else {
			w.logf("  -> %v", ids)
			w.r.Eval(1)
			w.r.Count("lookups_checked", 1)
			if len(ids) == 0 {
				w.violate("range:gap:ListRegionIDsInKeyRange:empty", fmt.Sprintf("ListRegionIDsInKeyRange%s returned no region and no error", c09RangesStr(rs)), nil)
			}
		}
	case 9:
		// a batch load that is cut by its limit: only part of the key space gets cached
		start := w.randKey(rng)
		n := 1 + rng.Intn(3)
		w.logf("BatchLoadRegionsFromKey(%s, %d)", c09K(start), n)
		end, err := w.cache.BatchLoadRegionsFromKey(w.boPh(ph), start, n)
		if err != nil {
			w.lookupErr(ph, "BatchLoadRegionsFromKey", err, false)
		} else {
			w.logf("  -> next key %s", c09K(end))
			w.r.Eval(1)
			w.r.Count("lookups_checked", 1)
			w.r.Count("limited_batch_loads", 1)
			if len(end) > 0 && bytes.Compare(end, start) <= 0 {
				w.violate("range:gap:BatchLoadRegionsFromKey:no-progress", fmt.Sprintf("BatchLoadRegionsFromKey(%s,%d) returned end key %s", c09K(start), n, c09K(end)), nil)
			}
		}
	}
	w.observe("op-end", nil)
}

// cachedPicture: which regions of the current layout are served from the cache
// (for samples only; TryLocateKey touches the TTL, so it is used sparingly).
func (w *c09World) cachedPicture() string {
	s := ""
	for _, r := range w.cur().regs {
		k := w.dec(r.Meta.StartKey)
		if w.cache.TryLocateKey(k) != nil {
			s += "H"
		} else {
			s += "-"
		}
	}
	return s
}

func (w *c09World) opSend(rng *rand.Rand, ph c09Phase) {
	key := w.randKey(rng)
	budget := c09ChaosSendBudget
	if ph.quiet {
		budget = c09ConvergeBudgetMs
	}
	w.logf("SEND key=%s", c09K(key))
	res := w.send(key, budget)
	w.logf("  -> ok=%v loops=%d rpcs=%d err=%v", res.ok, res.loops, res.rpcs, res.err)
	if res.ok {
		w.r.Count("sends_ok", 1)
	} else {
		w.r.Count("sends_failed_during_chaos", 1)
		if ph.quiet && !res.panicked {
			w.convergeFailure(key, res)
		}
	}
	w.observe("op-end", nil)
}

// c09CtxWeights: which lookup runs under a context that ends during the call.
var c09CtxWeights = []int{16, 12, 0, 10, 12, 22, 10, 8, 4, 6}

// invalidateAll makes the next lookups go to PD (otherwise a context that ends
// "at the n-th PD request" would rarely end at all).
func (w *c09World) invalidateSome(rng *rand.Rand, pct int) {
	w.mu.Lock()
	vs := append([]RegionVerID(nil), w.seenVers...)
	w.mu.Unlock()
	for _, v := range vs {
		if rng.Intn(100) < pct {
			w.cache.InvalidateCachedRegion(v)
		}
	}
}

// opCtxEnd: a lookup whose caller context is cancelled / runs out at its n-th
// PD request (before it is sent, or when its answer arrives).  The call itself
// may fail; the same lookup repeated under a live context is judged as any
// other, and the index walker judges what the interrupted call left behind.
func (w *c09World) opCtxEnd(rng *rand.Rand, ph c09Phase) {
	kind := c09Weighted(rng, c09CtxWeights)
	seed := rng.Int63()
	pl := c09NewCtxPlan(rng)
	if rng.Intn(100) < 70 {
		w.invalidateSome(rng, 30+rng.Intn(70))
	}
	w.logf("CTX-END lookup: %s", pl)
	eph := ph
	eph.end = pl
	w.op(rand.New(rand.NewSource(seed)), eph, kind)
	w.r.Count("ctx_end_lookups", 1)
	if pl.fired.Load() {
		w.r.Count("ctx_end_lookups_fired", 1)
	}
	// the same lookup with a live context
	w.logf("CTX-END follow-up with a live context")
	w.op(rand.New(rand.NewSource(seed)), ph, kind)
}

// opTwin: two goroutines look up the same thing at the same time; the context
// of one of them ends during its call.
func (w *c09World) opTwin(rng *rand.Rand, ph c09Phase) {
	kind := []int{0, 0, 1, 5, 4, 6}[rng.Intn(6)]
	seed := rng.Int63()
	pl := c09NewCtxPlan(rng)
	w.invalidateSome(rng, 50+rng.Intn(50))
	w.logf("TWIN lookup (kind %d): one caller's %s", kind, pl)
	was := w.concurrent.Swap(true)
	var wg sync.WaitGroup
	wg.Add(2)
	go func() {
		defer wg.Done()
		eph := ph
		eph.end = pl
		w.op(rand.New(rand.NewSource(seed)), eph, kind)
	}()
	go func() {
		defer wg.Done()
		// the twin with the live context is judged as any other lookup
		w.op(rand.New(rand.NewSource(seed)), ph, kind)
	}()
	wg.Wait()
	w.concurrent.Store(was)
	w.wbReset.Store(true)
	w.r.Count("twin_lookups", 1)
	if pl.fired.Load() {
		w.r.Count("twin_lookups_fired", 1)
	}
	w.op(rand.New(rand.NewSource(seed)), ph, kind)
}

// opEpochNotMatch: the harness plays the store.  A key is located, the RPC
// context of the located region is obtained as the sender would, and the
// "store" answers EpochNotMatch with the regions one store would list: the
// target's description and 0-2 of its neighbours, all taken from one topology
// (the current one, or an older one = a store that lags), in any order.
// OnRegionEpochNotMatch is called as the sender calls it.  Judged:
//
//	(a) retry=true ("the epoch in ctx is ahead of TiKV's", the documented
//	    meaning of the flag) only if the listed description of the TARGET is
//	    older than the epoch of the request;
//	(b) otherwise, when the list is the current topology, the target's current
//	    description is cached afterwards and the refuted entry no longer serves
//	    requests; what gets installed is judged by the index walker;
//	(c) convergence is judged by the sends that follow (checkConverged and the
//	    "refuted epoch re-sent" rule of the RPC interposer).
func (w *c09World) opEpochNotMatch(rng *rand.Rand, ph c09Phase) {
	key := w.randKey(rng)
	// prefer a key whose cached region is out of date (that is when a store answers EpochNotMatch)
	for try := 0; try < 8; try++ {
		k := w.randKey(rng)
		if l := w.cache.TryLocateKey(k); l != nil {
			if r := w.cur().byID(l.Region.GetID()); r != nil &&
				(r.Meta.RegionEpoch.GetVersion() != l.Region.GetVer() || r.Meta.RegionEpoch.GetConfVer() != l.Region.GetConfVer()) {
				key = k
				break
			}
		}
	}
	bo := w.bo(c09LookupBudgetMs)
	loc, err := w.cache.LocateKey(bo, key)
	if err != nil {
		w.lookupErr(ph, "LocateKey", err, false)
		return
	}
	w.checkLoc("LocateKey", key, loc, false)
	w.mu.Lock()
	n := len(w.snaps)
	sn := w.snaps[n-1]
	fresh := true
	if n > 1 && !ph.quiet && rng.Intn(4) == 0 {
		sn = w.snaps[n-1-(1+rng.Intn(min(n-1, 4)))]
		fresh = false
	}
	w.mu.Unlock()
	ti := -1
	for i, r := range sn.regs {
		if r.Meta.Id == loc.Region.GetID() {
			ti = i
		}
	}
	if ti < 0 {
		return // the store would say RegionNotFound
	}
	tep := sn.regs[ti].Meta.GetRegionEpoch()
	tver := NewRegionVerID(loc.Region.GetID(), tep.GetConfVer(), tep.GetVersion())
	if tver == loc.Region {
		return // epochs match: the store would serve the request
	}
	rctx, err := w.cache.GetTiKVRPCContext(bo, loc.Region, kv.ReplicaReadLeader, 0)
	if err != nil || rctx == nil {
		return
	}
	idx := []int{ti}
	switch rng.Intn(4) {
	case 0:
	case 1:
		idx = append(idx, ti+1)
	case 2:
		idx = append(idx, ti-1, ti+1)
	default:
		idx = append(idx, ti+1, ti+2)
	}
	var metas []*metapb.Region
	var ids []RegionVerID
	lower, higher := false, false
	told := ""
	for _, i := range idx {
		if i < 0 || i >= len(sn.regs) {
			continue
		}
		m := proto.Clone(sn.regs[i].Meta).(*metapb.Region)
		m.StartKey, m.EndKey = w.dec(m.StartKey), w.dec(m.EndKey) // the client decodes region errors before handling them
		metas = append(metas, m)
		for _, p := range m.GetPeers() {
			w.peerUp.Store(p.Id, true) // a store's list carries no health information: every listed peer is offered to the client
		}
		v := NewRegionVerID(m.Id, m.RegionEpoch.GetConfVer(), m.RegionEpoch.GetVersion())
		ids = append(ids, v)
		if i != ti && v.GetVer() < loc.Region.GetVer() {
			lower = true
		}
		if i != ti && v.GetVer() > loc.Region.GetVer() {
			higher = true
		}
	}
	rng.Shuffle(len(metas), func(i, j int) { metas[i], metas[j] = metas[j], metas[i]; ids[i], ids[j] = ids[j], ids[i] })
	for _, v := range ids {
		told += fmt.Sprintf("r%d@%d.%d ", v.GetID(), v.GetVer(), v.GetConfVer())
	}
	lag := tver.GetConfVer() < loc.Region.GetConfVer() || tver.GetVer() < loc.Region.GetVer()
	w.logf("EPOCH-NOT-MATCH for key %s sent to %s: store lists %s(fresh=%v)", c09K(key), c09LocStr(loc), told, fresh)
	w.observe("enm-deliver", ids)
	retryFlag, err := w.cache.OnRegionEpochNotMatch(bo, rctx, metas)
	w.observe("op-end", nil)
	w.logf("  -> retry=%v err=%v", retryFlag, err)
	w.r.Eval(1)
	w.r.Count("enm_injected", 1)
	if lower {
		w.r.Count("enm_with_lower_version_neighbour", 1)
	}
	if higher {
		w.r.Count("enm_with_higher_version_neighbour", 1)
	}
	if lag {
		w.r.Count("enm_from_lagging_store", 1)
	}
	detail := map[string]any{"key": c09K(key), "request_epoch": c09LocStr(loc), "listed": told}
	if retryFlag && !lag {
		w.violate("enm:retry-although-store-is-not-behind", fmt.Sprintf("OnRegionEpochNotMatch(request to %s, store lists %s) returned retry=true: the same stale request is to be sent again, although the store's description of region %d is not older than the request's",
			c09LocStr(loc), told, loc.Region.GetID()), detail)
		return
	}
	if err != nil || retryFlag || !fresh || w.concurrent.Load() {
		return // under concurrency the topology and the cache move between the steps of this check
	}
	// (b) the list was the current topology: nothing cached can be newer than it
	if w.cache.GetCachedRegionWithRLock(tver) == nil {
		w.violate("enm:current-description-not-installed", fmt.Sprintf("after OnRegionEpochNotMatch(request to %s, store lists %s) the current description r%d@%d.%d of the target is not cached",
			c09LocStr(loc), told, tver.GetID(), tver.GetVer(), tver.GetConfVer()), detail)
	}
	if c2, _ := w.cache.GetTiKVRPCContext(w.bo(c09LookupBudgetMs), loc.Region, kv.ReplicaReadLeader, 0); c2 != nil {
		w.violate("enm:refuted-entry-still-serves", fmt.Sprintf("after OnRegionEpochNotMatch(request to %s, store lists %s) the refuted entry still yields an RPC context", c09LocStr(loc), told), detail)
	}
	w.r.Count("enm_installed_checked", 1)
}

func (w *c09World) opInvalidate(rng *rand.Rand) {
	if c09WBOp != nil && rng.Intn(2) == 0 {
		if d := c09WBOp(w, rng); d != "" {
			w.logf("WB %s", d)
			w.r.Count("whitebox_invalidations", 1)
			w.observe("op-end", nil)
			return
		}
	}
	w.mu.Lock()
	if len(w.seenVers) == 0 {
		w.mu.Unlock()
		return
	}
	id := w.seenVers[rng.Intn(len(w.seenVers))]
	w.mu.Unlock()
	reasons := []InvalidReason{Other, NoLeader, RegionNotFound, EpochNotMatch, StoreNotFound}
	reason := reasons[rng.Intn(len(reasons))]
	w.logf("INVALIDATE r%d@%d.%d reason=%s", id.GetID(), id.GetVer(), id.GetConfVer(), reason)
	w.cache.InvalidateCachedRegionWithReason(id, reason)
	w.r.Count("invalidations", 1)
	w.observe("op-end", nil)
}

func (w *c09World) convergeFailure(key []byte, res c09SendResult) {
	sig := "converge:request-failed"
	if res.loops > 400 || res.rpcs > 2000 {
		sig = "converge:attempt-bound-exceeded"
	}
	w.violate(sig, fmt.Sprintf("after the changes stopped the request for key %s did not converge within %d ms of back-off budget: loops=%d rpcs=%d err=%v last region error=%s",
		c09K(key), c09ConvergeBudgetMs, res.loops, res.rpcs, res.err, res.lastRegEr),
		map[string]any{"key": c09K(key), "loops": res.loops, "rpcs": res.rpcs, "error": fmt.Sprint(res.err)})
}

// motifRightDerive scripts the sequence in which the cache holds two entries
// of ONE region id under different start keys and then meets a stale PD
// answer for that id:
//
//	the wide region X is cached; X splits and the original id keeps the RIGHT
//	half (new id Y on the left); X gets a conf change; the old wide entry is
//	invalidated (or left to expire / to the GC); a right-half key is looked up
//	(current X learned), then a left-half key (Y learned, the old wide X entry
//	evicted); X's entry needs a refresh and the first PD answer comes from the
//	topology before the conf change (same version, older conf_ver).
//
// All lookups are judged by the usual oracles; clause (4) by the index walker.
func (w *c09World) motifRightDerive(rng *rand.Rand, ph c09Phase) bool {
	type cand struct {
		id uint64
		k  string
		kl []byte
	}
	var cs []cand
	for _, r := range w.cur().regs {
		s, e := w.dec(r.Meta.StartKey), w.dec(r.Meta.EndKey)
		for _, k := range w.cands {
			if bytes.Compare(s, []byte(k)) < 0 && (len(e) == 0 || bytes.Compare([]byte(k), e) < 0) {
				cs = append(cs, cand{r.Meta.Id, k, s})
			}
		}
	}
	if len(cs) == 0 {
		return false
	}
	c := cs[rng.Intn(len(cs))]
	kr, kl := []byte(c.k), c.kl
	if rng.Intn(2) == 0 {
		kr = append([]byte(c.k), 0)
	}
	locate := func(key []byte) *KeyLocation {
		w.logf("motif LocateKey(%s)", c09K(key))
		loc, err := w.cache.LocateKey(w.bo(c09LookupBudgetMs), key)
		if err != nil {
			w.lookupErr(ph, "LocateKey", err, false)
			w.observe("op-end", nil)
			return nil
		}
		w.logf("  -> %s", c09LocStr(loc))
		w.checkLoc("LocateKey", key, loc, false)
		w.observe("op-end", nil)
		return loc
	}
	w.logf("MOTIF right-derive on r%d at %s", c.id, c.k)
	wide := locate(kr)
	w.tgtRegion, w.tgtKey, w.forceDerive = c.id, c.k, 2
	d := w.change(rng, 0)
	w.tgtKey, w.forceDerive = "", 0
	if d == "" {
		w.tgtRegion = 0
		return false
	}
	nConf := 1 + rng.Intn(2)
	snapBeforeConf := w.cur().seq
	for i := 0; i < nConf; i++ {
		if w.change(rng, 3+rng.Intn(2)) == "" {
			if w.change(rng, 3) == "" {
				w.change(rng, 4)
			}
		}
	}
	w.tgtRegion = 0
	if w.cur().seq == snapBeforeConf {
		return false // no conf change was possible
	}
	switch rng.Intn(3) {
	case 0:
		if wide != nil {
			w.logf("motif INVALIDATE %s", c09LocStr(wide))
			w.cache.InvalidateCachedRegion(wide.Region)
		}
	case 1:
		if c09WBOp != nil {
			w.logf("motif WB %s", c09WBOp(w, rng))
		}
	}
	var x *KeyLocation
	if rng.Intn(4) > 0 {
		x = locate(kr)
		locate(kl)
	} else {
		locate(kl)
		x = locate(kr)
	}
	if x != nil {
		if rng.Intn(3) > 0 || c09WBOp == nil {
			w.logf("motif INVALIDATE %s", c09LocStr(x))
			w.cache.InvalidateCachedRegionWithReason(x.Region, []InvalidReason{Other, NoLeader, StoreNotFound}[rng.Intn(3)])
		} else {
			w.logf("motif WB %s", c09WBOp(w, rng))
		}
	}
	if rng.Intn(4) > 0 {
		w.mu.Lock()
		w.forceSnap = snapBeforeConf
		w.mu.Unlock()
	}
	locate(kr)
	w.mu.Lock()
	w.forceSnap = -1
	w.mu.Unlock()
	locate(kr)
	w.r.Count("motif_right_derive", 1)
	return true
}

// checkConverged is clause (5): every key's request reaches the leader of the
// region that holds it (judged by the RPC interposer against ground truth)
// within the retry budget.
func (w *c09World) checkConverged(keys [][]byte) {
	for _, key := range keys {
		w.logf("CONVERGE key=%s", c09K(key))
		res := w.send(key, c09ConvergeBudgetMs)
		w.r.Eval(1)
		w.logf("  -> ok=%v loops=%d rpcs=%d err=%v", res.ok, res.loops, res.rpcs, res.err)
		if !res.ok {
			if !res.panicked { // a panic was reported as send:client-panic already
				w.convergeFailure(key, res)
			}
			continue
		}
		w.r.Count("converged_requests", 1)
		if res.loops > 1 || res.rpcs > 1 {
			w.r.Count("converged_after_retries", 1)
		}
		w.observe("op-end", nil)
	}
}

// ---------------------------------------------------------------- start states

// warm puts the (new) cache into a start state; returns its name.
func (w *c09World) warm(rng *rand.Rand, ph c09Phase) string {
	regs := w.cur().regs
	inside := func(i int) []byte { return w.dec(regs[i].Meta.StartKey) }
	load := func(i int) {
		key := inside(i)
		w.logf("warm LocateKey(%s)", c09K(key))
		loc, err := w.cache.LocateKey(w.bo(c09LookupBudgetMs), key)
		if err != nil {
			w.lookupErr(ph, "LocateKey", err, false)
			return
		}
		w.checkLoc("LocateKey", key, loc, false)
		w.observe("op-end", nil)
	}
	kind := rng.Intn(10)
	switch {
	case kind < 1:
		w.r.Count("start_cold", 1)
		return "cold"
	case kind < 6:
		// holes: first and (unbounded) last region likely cached, the middle likely not
		for i := range regs {
			p := 35
			if i == 0 {
				p = 70
			}
			if i == len(regs)-1 {
				p = 85
			}
			if rng.Intn(100) < p {
				load(i)
			}
		}
		w.r.Count("start_partially_warm", 1)
		return "partially-warm"
	case kind < 8:
		for i := range regs {
			load(i)
		}
		n := 0
		for i := range regs {
			if rng.Intn(100) < 45 {
				if loc := w.cache.TryLocateKey(inside(i)); loc != nil {
					w.logf("warm INVALIDATE %s", c09LocStr(loc))
					w.cache.InvalidateCachedRegion(loc.Region)
					n++
				}
			}
		}
		w.observe("op-end", nil)
		w.r.Count("start_partially_invalidated", 1)
		return fmt.Sprintf("warm-then-%d-invalidated", n)
	default:
		// entries loaded while the TTL is negative are born expired
		var expired, fresh []int
		for i := range regs {
			switch rng.Intn(3) {
			case 0:
				expired = append(expired, i)
			case 1:
				fresh = append(fresh, i)
			}
		}
		SetRegionCacheTTLWithJitter(-100, 0)
		for _, i := range expired {
			load(i)
		}
		SetRegionCacheTTLWithJitter(600, 60)
		for _, i := range fresh {
			load(i)
		}
		w.r.Count("start_ttl_expired", 1)
		return fmt.Sprintf("ttl-expired:%d fresh:%d", len(expired), len(fresh))
	}
}

// ---------------------------------------------------------------- scenario engines

func c09Guard(r *vrep.Report, t *testing.T, desc string, f func()) bool {
	done := make(chan struct{})
	go func() {
		defer close(done)
		defer func() {
			if p := recover(); p != nil {
				buf := make([]byte, 6000)
				buf = buf[:runtime.Stack(buf, false)]
				r.Violate("harness-or-cache:panic-in-scenario", fmt.Sprintf("scenario %s panicked: %v", desc, p),
					map[string]any{"scenario": desc, "stack": string(buf)})
			}
		}()
		f()
	}()
	select {
	case <-done:
		return true
	case <-time.After(150 * time.Second):
		r.Inconc("watchdog: scenario %s did not end within 150 s wall clock", desc)
		return false
	}
}

func c09Layout(w *c09World, rng *rand.Rand, minSplit, maxSplit int) {
	n := minSplit + rng.Intn(maxSplit-minSplit+1)
	for i := 0; i < n; i++ {
		w.change(rng, 0)
	}
	for i := rng.Intn(5); i > 0; i-- {
		w.change(rng, 2+rng.Intn(3))
	}
	if rng.Intn(3) == 0 { // some history for the version numbers
		w.change(rng, 1)
		w.change(rng, 0)
	}
}

func c09Static(r *vrep.Report, stream string, idx int, mvcc mocktikv.MVCCStore, big bool) {
	rng := vrep.Rand(fmt.Sprintf("%s-%d", stream, idx))
	txn := rng.Intn(3) == 0
	desc := fmt.Sprintf("%s #%d seed=%d txn=%v", stream, idx, vrep.Seed(), txn)
	w := c09NewWorld(r, desc, rng, mvcc, txn, 3+rng.Intn(3))
	defer w.close()
	if big {
		w.keys, w.cands = c09BigKeys, c09BigCands
		c09Layout(w, rng, 132, 230)
		r.Count("big_layouts", 1)
	} else {
		c09Layout(w, rng, 2, 7)
	}
	w.mu.Lock()
	w.noBatch = rng.Intn(6) == 0
	w.pGap = []float64{0, 0, 0.12}[rng.Intn(3)]
	w.mu.Unlock()
	ph := c09Phase{quiet: true}
	weights := []int{8, 8, 5, 5, 15, 35, 8, 4, 3, 5} // LocateKey EndKey Try ByID KeyRange Batch Group LoadRegions ListIDs BatchLoadFromKey
	rounds := 2 + rng.Intn(2)
	for round := 0; round < rounds; round++ {
		w.newCache()
		st := w.warm(rng, ph)
		w.logf("START STATE %s", st)
		nOps := 5 + rng.Intn(6)
		for i := 0; i < nOps; i++ {
			x := rng.Intn(100)
			switch {
			case x < 76:
				w.op(rng, ph, c09Weighted(rng, weights))
			case x < 82:
				w.opSend(rng, ph)
			case x < 90:
				w.opCtxEnd(rng, ph)
			case x < 93:
				w.opTwin(rng, ph)
			default:
				w.opInvalidate(rng)
			}
		}
	}
	// a few keys end to end
	var keys [][]byte
	for i := 0; i < 6; i++ {
		keys = append(keys, w.randKey(rng))
	}
	w.checkConverged(keys)
	w.finish()
}

func c09Weighted(rng *rand.Rand, weights []int) int {
	sum := 0
	for _, x := range weights {
		sum += x
	}
	x := rng.Intn(sum)
	for i, wgt := range weights {
		if x < wgt {
			return i
		}
		x -= wgt
	}
	return 0
}

func (w *c09World) finish() {
	w.mu.Lock()
	n := len(w.layouts)
	w.mu.Unlock()
	w.r.Count("distinct_layouts_per_scenario_sum", n)
	w.r.Count("scenarios", 1)
}

func c09Dynamic(r *vrep.Report, stream string, idx int, mvcc mocktikv.MVCCStore, concurrent, big bool) {
	rng := vrep.Rand(fmt.Sprintf("%s-%d", stream, idx))
	txn := rng.Intn(3) == 0
	desc := fmt.Sprintf("%s #%d seed=%d txn=%v", stream, idx, vrep.Seed(), txn)
	w := c09NewWorld(r, desc, rng, mvcc, txn, 3+rng.Intn(3))
	defer w.close()
	if big {
		w.keys, w.cands = c09BigKeys, c09BigCands
		c09Layout(w, rng, 132, 230)
		r.Count("big_layouts", 1)
	} else {
		c09Layout(w, rng, 0, 5)
	}
	w.mu.Lock()
	w.noBatch = rng.Intn(8) == 0
	w.pGap = []float64{0, 0, 0.1}[rng.Intn(3)]
	w.mu.Unlock()
	w.newCache()
	st := w.warm(rng, c09Phase{quiet: true})
	w.logf("START STATE %s", st)
	stale := []float64{0, 0.25, 0.5}[rng.Intn(3)]
	w.mu.Lock()
	w.pStale = stale
	w.mu.Unlock()
	chaos := c09Phase{quiet: false}
	weights := []int{14, 12, 6, 8, 18, 30, 12, 5, 3, 5}
	steps := 25 + rng.Intn(30)
	motifAt := -1
	if rng.Intn(2) == 0 {
		motifAt = rng.Intn(steps)
	}
	for i := 0; i < steps; i++ {
		if i == motifAt {
			w.motifRightDerive(rng, chaos)
		}
		x := rng.Intn(100)
		switch {
		case x < 26:
			w.randomChange(rng)
		case x < 72:
			w.op(rng, chaos, c09Weighted(rng, weights))
		case x < 84:
			w.opSend(rng, chaos)
		case x < 90:
			w.opCtxEnd(rng, chaos)
		case x < 93:
			w.opTwin(rng, chaos)
		case x < 97:
			w.opEpochNotMatch(rng, chaos)
		default:
			w.opInvalidate(rng)
		}
	}
	if concurrent {
		w.concurrent.Store(true)
		var wg sync.WaitGroup
		nWorkers := 4 + rng.Intn(4)
		nChanges := 10 + rng.Intn(15)
		crng := rand.New(rand.NewSource(rng.Int63()))
		wg.Add(1)
		go func() {
			defer wg.Done()
			for i := 0; i < nChanges; i++ {
				w.randomChange(crng)
				for j := 0; j < 20; j++ {
					runtime.Gosched()
				}
			}
		}()
		for g := 0; g < nWorkers; g++ {
			wrng := rand.New(rand.NewSource(rng.Int63()))
			wg.Add(1)
			go func() {
				defer wg.Done()
				for i := 0; i < 25; i++ {
					x := wrng.Intn(100)
					switch {
					case x < 72:
						w.op(wrng, chaos, c09Weighted(wrng, weights))
					case x < 85:
						w.opSend(wrng, chaos)
					case x < 93:
						w.opCtxEnd(wrng, chaos)
					case x < 96:
						w.opEpochNotMatch(wrng, chaos)
					default:
						w.opInvalidate(wrng)
					}
					w.r.Count("concurrent_ops", 1)
				}
			}()
		}
		wg.Wait()
		w.concurrent.Store(false)
		w.logf("CONCURRENT PHASE OVER")
	}
	w.settle()
	for i := 0; i < 3; i++ {
		w.opEpochNotMatch(rng, c09Phase{quiet: true})
	}
	if big {
		var ks [][]byte
		for i := 0; i < 60; i++ {
			ks = append(ks, w.randKey(rng))
		}
		w.checkConverged(ks)
	} else {
		w.checkConverged(w.keys)
	}
	quiet := c09Phase{quiet: true}
	for i := 0; i < 8; i++ {
		if i%4 == 1 {
			w.opCtxEnd(rng, quiet)
			continue
		}
		w.op(rng, quiet, c09Weighted(rng, weights))
	}
	w.finish()
}

// ---------------------------------------------------------------- tests

const c09Rule = "non-trivial = distinct (region boundary layout, lookup API, arguments) triples; " +
	"lookups_checked = oracle evaluations of clauses (1)-(3); converged_requests = clause (5) evaluations that succeeded"

func TestVerifC09Static(t *testing.T) {
	r := vrep.New("C09", "c09-core-static", "static topologies, caches in every start state (cold / holes + cached unbounded last region / partially invalidated / TTL-expired), fresh PD: clauses (1)-(3) incl. strict sortedness, (5); "+c09Rule)
	defer r.Finish(t)
	r.Assume("region epochs follow TiKV's rules (split: both halves parent.version+1 and parent's conf_ver; merge: max+1); the harness enforces them on the mocktikv.Cluster under the cluster lock (a no-op on trees whose mocktikv already follows them)")
	r.Assume("the PD interposer (harness code, c09_world.go) implements GetRegion/GetPrevRegion/GetRegionByID/ScanRegions/BatchScanRegions over complete topology snapshots; regions always have a leader")
	mvcc := mocktikv.MustNewMVCCStore()
	defer mvcc.Close()
	n := vrep.Pick(1200, 20000)
	for i := 0; i < n; i++ {
		i := i
		if !c09Guard(r, t, fmt.Sprintf("c09-static #%d", i), func() { c09Static(r, "c09-static", i, mvcc, false) }) {
			break
		}
	}
	n = vrep.Pick(8, 120)
	for i := 0; i < n; i++ {
		i := i
		if !c09Guard(r, t, fmt.Sprintf("c09-static-big #%d", i), func() { c09Static(r, "c09-static-big", i, mvcc, true) }) {
			break
		}
	}
	r.Floor("big_layouts", vrep.Pick(8, 120))
	r.Floor("range_results_over_128_regions", vrep.Pick(5, 80))
	r.Floor("lookups_checked", vrep.Pick(20000, 300000))
	r.Floor("range_lookups_multi_region", vrep.Pick(5000, 80000))
	r.Floor("groupings_multi_region", vrep.Pick(800, 12000))
	r.Floor("start_partially_warm", vrep.Pick(800, 12000))
	r.Floor("start_ttl_expired", vrep.Pick(300, 5000))
	r.Floor("start_partially_invalidated", vrep.Pick(300, 5000))
	r.Floor("converged_requests", vrep.Pick(4000, 60000))
}

func TestVerifC09Dynamic(t *testing.T) {
	r := vrep.New("C09", "c09-core-dynamic", "one driver interleaves split/merge/leader/peer/store changes, stale PD answers, all lookup APIs, sends, invalidations; then convergence of every key: clauses (1)-(3) gap-freedom, (5); "+c09Rule)
	defer r.Finish(t)
	mvcc := mocktikv.MustNewMVCCStore()
	defer mvcc.Close()
	n := vrep.Pick(800, 14000)
	for i := 0; i < n; i++ {
		i := i
		if !c09Guard(r, t, fmt.Sprintf("c09-dynamic #%d", i), func() { c09Dynamic(r, "c09-dynamic", i, mvcc, false, false) }) {
			break
		}
	}
	n = vrep.Pick(6, 100)
	for i := 0; i < n; i++ {
		i := i
		if !c09Guard(r, t, fmt.Sprintf("c09-dynamic-big #%d", i), func() { c09Dynamic(r, "c09-dynamic-big", i, mvcc, false, true) }) {
			break
		}
	}
	r.Floor("big_layouts", vrep.Pick(6, 100))
	r.Floor("ctx_end_lookups_fired", vrep.Pick(750, 12000))
	r.Floor("ctx_ended_after_pd_answer", vrep.Pick(500, 8000))
	r.Floor("ctx_ended_before_pd_request", vrep.Pick(500, 8000))
	r.Floor("twin_lookups_fired", vrep.Pick(220, 3500))
	r.Floor("enm_injected", vrep.Pick(700, 11000))
	r.Floor("enm_with_lower_version_neighbour", vrep.Pick(130, 2000))
	r.Floor("enm_with_higher_version_neighbour", vrep.Pick(250, 4000))
	r.Floor("enm_installed_checked", vrep.Pick(600, 9500))
	r.Floor("lookups_checked", vrep.Pick(30000, 500000))
	r.Floor("topology_changes", vrep.Pick(6000, 100000))
	r.Floor("pd_stale_answers", vrep.Pick(600, 10000))
	r.Floor("rpc_epoch_not_match", vrep.Pick(480, 8000))
	r.Floor("rpc_not_leader", vrep.Pick(500, 8000))
	r.Floor("converged_requests", vrep.Pick(20000, 350000))
	r.Floor("converged_after_retries", vrep.Pick(420, 7000))
}

func TestVerifC09Concurrent(t *testing.T) {
	r := vrep.New("C09", "c09-core-concurrent", "as dynamic, plus a phase where 4-7 lookup/send goroutines race a topology-changing goroutine and delayed PD answers (under -race), then convergence; "+c09Rule)
	defer r.Finish(t)
	mvcc := mocktikv.MustNewMVCCStore()
	defer mvcc.Close()
	n := vrep.Pick(200, 3500)
	for i := 0; i < n; i++ {
		i := i
		if !c09Guard(r, t, fmt.Sprintf("c09-concurrent #%d", i), func() { c09Dynamic(r, "c09-concurrent", i, mvcc, true, false) }) {
			break
		}
	}
	r.Floor("ctx_end_lookups_fired", vrep.Pick(400, 7000))
	r.Floor("concurrent_ops", vrep.Pick(15000, 250000))
	r.Floor("topology_changes", vrep.Pick(3000, 50000))
	r.Floor("converged_requests", vrep.Pick(5000, 90000))
}
