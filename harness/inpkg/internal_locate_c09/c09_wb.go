//go:build verif

package locate

// C09 white-box extension — clause (4), non-regression of the cached index.
//
// The cache of this unit is built without the background GC (NewTestRegionCache
// + SetPDClient), so every change of the index happens in the driver goroutine
// and a GC round is an explicit workload step.  The ordered index (mu.sorted),
// the by-version map (mu.regions) and the newest-version map
// (mu.latestVersions) are walked at every interaction of the cache with the
// outside world (PD call enter/exit, RPC enter/exit, end of an operation).
// Between two consecutive walks the cache can have installed at most the
// regions of ONE answer (a PD answer computed from one topology snapshot, or
// the current regions of one EpochNotMatch reply), so a transition can be
// judged exactly:
//
//	(4a) per region id the newest-version record does not go backwards;
//	(4b) a delivered region version that was newly installed is not older
//	     than ANY entry of the same region id that was in the index before
//	     (version or conf_ver; the entries are compared, not the cache's own
//	     latestVersions bookkeeping — a region id can have several entries
//	     under different start keys once the original id keeps the right half
//	     of a split), and not older (version) than an entry that was in the
//	     index before and starts inside its range.
//
// No false alarm through "evicted earlier in the same batch": the regions of
// one answer are disjoint, and the version of the region owning a given key
// never decreases along splits (both halves +1) and merges (max+1), so a
// region of an older snapshot can never evict (version >=) a newer entry of
// another id that has moved onto its keys.
//
// This file uses private fields and may stop compiling after a refactor; its
// unit is marked optional.

import (
	"bytes"
	"context"
	"fmt"
	"math/rand"
	"strings"
	"sync/atomic"
	"testing"
	"time"

	"github.com/tikv/client-go/v2/internal/apicodec"
	"github.com/tikv/client-go/v2/internal/mockstore/mocktikv"
	"github.com/tikv/client-go/v2/verifh/vrep"
	pd "github.com/tikv/pd/client"
)

type c09IdxEntry struct {
	ver        RegionVerID
	start, end []byte
	ttl        int64
	flags      int32
}

func (e c09IdxEntry) String() string {
	return fmt.Sprintf("r%d@%d.%d[%s,%s)ttl=%d,flags=%d", e.ver.id, e.ver.ver, e.ver.confVer, c09K(e.start), c09K(e.end), e.ttl, e.flags)
}

type c09IdxSnap struct {
	entries []c09IdxEntry
	latest  map[uint64]RegionVerID
	regions map[RegionVerID]struct{}
}

func (s *c09IdxSnap) String() string {
	var sb strings.Builder
	for i, e := range s.entries {
		if i > 0 {
			sb.WriteByte(' ')
		}
		sb.WriteString(e.String())
	}
	return sb.String()
}

func (s *c09IdxSnap) entry(v RegionVerID) (c09IdxEntry, bool) {
	for _, e := range s.entries {
		if e.ver == v {
			return e, true
		}
	}
	return c09IdxEntry{}, false
}

func c09WalkIndex(c *RegionCache) *c09IdxSnap {
	s := &c09IdxSnap{latest: map[uint64]RegionVerID{}, regions: map[RegionVerID]struct{}{}}
	c.mu.RLock()
	defer c.mu.RUnlock()
	c.mu.sorted.b.Ascend(func(item *btreeItem) bool {
		r := item.cachedRegion
		s.entries = append(s.entries, c09IdxEntry{ver: r.VerID(), start: r.StartKey(), end: r.EndKey(),
			ttl: atomic.LoadInt64(&r.ttl), flags: r.getSyncFlags()})
		return true
	})
	for id, v := range c.mu.latestVersions {
		s.latest[id] = v
	}
	for v := range c.mu.regions {
		s.regions[v] = struct{}{}
	}
	return s
}

type c09WBState struct {
	prev    *c09IdxSnap
	pending []RegionVerID
	gc      func(context.Context, time.Time) bool
}

// c09WBNewCache: a region cache without background jobs (no GC goroutine).
func c09WBNewCache(w *c09World, pdc pd.Client) *RegionCache {
	c := NewTestRegionCache()
	c.codec = apicodec.NewCodecV1(apicodec.ModeRaw)
	if cp, ok := pdc.(*CodecPDClient); ok {
		c.codec = cp.GetCodec()
	}
	c.SetPDClient(pdc)
	c.clusterID = pdc.GetClusterID(context.Background())
	return c
}

func c09WBObserve(w *c09World, point string, delivered []RegionVerID) {
	st, _ := w.wbState.(*c09WBState)
	if st == nil {
		st = &c09WBState{}
		w.wbState = st
	}
	cur := c09WalkIndex(w.cache)
	w.r.Count("index_walks", 1)
	c09JudgeMaps(w, point, cur)
	if w.wbReset.Swap(false) {
		// several callers were at work since the last walk: no single answer explains the transition
		st.prev, st.pending = nil, nil
	}
	if st.prev != nil {
		c09JudgeTransition(w, point, st.prev, cur, st.pending)
	}
	st.prev = cur
	st.pending = delivered
}

// c09JudgeMaps: the three structures of the index describe the same set of
// entries: every entry of the ordered index is in the by-version map and vice
// versa, and the newest-version record of an id names a version that is there.
func c09JudgeMaps(w *c09World, point string, cur *c09IdxSnap) {
	w.r.Eval(1)
	inSorted := map[RegionVerID]int{}
	for _, e := range cur.entries {
		inSorted[e.ver]++
	}
	bad := ""
	for v, n := range inSorted {
		if _, ok := cur.regions[v]; !ok {
			bad = fmt.Sprintf("r%d@%d.%d is in the ordered index but not in the by-version map", v.id, v.ver, v.confVer)
		}
		if n > 1 {
			bad = fmt.Sprintf("r%d@%d.%d is in the ordered index %d times", v.id, v.ver, v.confVer, n)
		}
	}
	for v := range cur.regions {
		if inSorted[v] == 0 {
			bad = fmt.Sprintf("r%d@%d.%d is in the by-version map but not in the ordered index", v.id, v.ver, v.confVer)
		}
	}
	for id, v := range cur.latest {
		if _, ok := cur.regions[v]; !ok || v.id != id {
			bad = fmt.Sprintf("newest-version record of region %d names r%d@%d.%d which is not cached", id, v.id, v.ver, v.confVer)
		}
	}
	if bad != "" {
		w.violate("index:maps-inconsistent", bad, map[string]any{"observed_at": point, "index": cur.String()})
	}
}

func c09JudgeTransition(w *c09World, point string, prev, cur *c09IdxSnap, pending []RegionVerID) {
	w.r.Eval(1)
	detail := func() map[string]any {
		var ds []string
		for _, d := range pending {
			rg, _ := w.regRange(d)
			ds = append(ds, fmt.Sprintf("r%d@%d.%d[%s,%s)", d.id, d.ver, d.confVer, c09K(rg.start), c09K(rg.end)))
		}
		return map[string]any{"observed_at": point, "index_before": prev.String(), "index_after": cur.String(), "delivered_in_between": strings.Join(ds, " ")}
	}
	// (4a) the newest-version record of an id does not go backwards
	for id, pv := range prev.latest {
		cv, ok := cur.latest[id]
		if !ok || cv == pv {
			continue
		}
		if cv.ver < pv.ver || cv.confVer < pv.confVer {
			w.violate("index:epoch-regressed", fmt.Sprintf("region %d: cached newest epoch went from (ver %d, conf %d) to (ver %d, conf %d)",
				id, pv.ver, pv.confVer, cv.ver, cv.confVer), detail())
		}
	}
	multi := map[uint64]int{}
	for _, e := range cur.entries {
		multi[e.ver.id]++
	}
	for _, n := range multi {
		if n >= 2 {
			w.r.Count("walks_with_two_entries_of_one_id", 1)
			break
		}
	}
	// (4b)
	for _, d := range pending {
		_, before := prev.regions[d]
		_, after := cur.regions[d]
		rg, known := w.regRange(d)
		if !known {
			continue
		}
		var newer *c09IdxEntry
		why := ""
		for i := range prev.entries {
			p := prev.entries[i]
			if p.ver == d {
				continue
			}
			if p.ver.id == d.id && (p.ver.ver > d.ver || p.ver.confVer > d.confVer) {
				newer, why = &prev.entries[i], "same region id"
				break
			}
			if bytes.Compare(p.start, rg.start) >= 0 && (len(rg.end) == 0 || bytes.Compare(p.start, rg.end) < 0) && p.ver.ver > d.ver {
				newer, why = &prev.entries[i], "starts inside its range"
				break
			}
		}
		switch {
		case !before && after:
			w.r.Count("installs_observed", 1)
			if newer != nil {
				sig := "index:stale-installed-over-newer"
				if why == "same region id" {
					sig = "index:stale-installed-over-newer-of-same-id"
				}
				w.violate(sig, fmt.Sprintf("delivered r%d@%d.%d[%s,%s) was installed although the cache held the newer %s (%s)",
					d.id, d.ver, d.confVer, c09K(rg.start), c09K(rg.end), newer.String(), why), detail())
			}
		case !after:
			if newer != nil {
				w.r.Count("stale_deliveries_refused", 1)
				if why == "same region id" && newer.ver.ver == d.ver {
					w.r.Count("stale_conf_ver_deliveries_refused", 1)
				}
			}
		}
	}
}

// c09WBStep: direct manipulation of a cached entry, as the cache itself does
// on send failures / GC scans / the passing of time.
func c09WBStep(w *c09World, rng *rand.Rand) string {
	var regs []*Region
	w.cache.mu.RLock()
	w.cache.mu.sorted.b.Ascend(func(item *btreeItem) bool {
		regs = append(regs, item.cachedRegion)
		return true
	})
	w.cache.mu.RUnlock()
	if len(regs) == 0 {
		return ""
	}
	if rng.Intn(5) == 0 {
		// one round of the cache GC (collects expired entries, sets delayed-reload flags)
		st, _ := w.wbState.(*c09WBState)
		if st == nil {
			st = &c09WBState{}
			w.wbState = st
		}
		if st.gc == nil {
			st.gc = w.cache.gcRoundFunc(cleanRegionNumPerRound)
		}
		st.gc(context.Background(), time.Now())
		w.r.Count("gc_rounds", 1)
		return "GC round"
	}
	r := regs[rng.Intn(len(regs))]
	v := r.VerID()
	switch rng.Intn(4) {
	case 0:
		r.setSyncFlags(needReloadOnAccess)
		return fmt.Sprintf("r%d@%d.%d needReloadOnAccess", v.id, v.ver, v.confVer)
	case 1:
		r.setSyncFlags(needDelayedReloadPending)
		r.setSyncFlags(needDelayedReloadReady)
		return fmt.Sprintf("r%d@%d.%d needDelayedReloadReady", v.id, v.ver, v.confVer)
	case 2:
		atomic.StoreInt64(&r.ttl, time.Now().Unix()-5)
		return fmt.Sprintf("r%d@%d.%d TTL elapsed", v.id, v.ver, v.confVer)
	default:
		r.invalidate(NoLeader)
		return fmt.Sprintf("r%d@%d.%d invalidate(NoLeader)", v.id, v.ver, v.confVer)
	}
}

func init() {
	c09Observe = c09WBObserve
	c09WBOp = c09WBStep
	c09NewCache = c09WBNewCache
}

func TestVerifC09WBIndex(t *testing.T) {
	r := vrep.New("C09", "c09-wb-index", "white-box: the ordered index is walked at every PD/RPC interaction of sequential static+dynamic scenarios; clause (4) is judged per transition against the regions delivered in between; "+c09Rule)
	defer r.Finish(t)
	mvcc := mocktikv.MustNewMVCCStore()
	defer mvcc.Close()
	n := vrep.Pick(700, 12000)
	for i := 0; i < n; i++ {
		i := i
		if !c09Guard(r, t, fmt.Sprintf("c09-wb-dynamic #%d", i), func() { c09Dynamic(r, "c09-wb-dynamic", i, mvcc, false, false) }) {
			break
		}
	}
	n = vrep.Pick(250, 4000)
	for i := 0; i < n; i++ {
		i := i
		if !c09Guard(r, t, fmt.Sprintf("c09-wb-static #%d", i), func() { c09Static(r, "c09-wb-static", i, mvcc, false) }) {
			break
		}
	}
	r.Floor("index_walks", vrep.Pick(100000, 1500000))
	r.Floor("installs_observed", vrep.Pick(7000, 110000))
	r.Floor("stale_deliveries_refused", vrep.Pick(120, 2000))
	r.Floor("whitebox_invalidations", vrep.Pick(500, 8000))
	r.Floor("gc_rounds", vrep.Pick(100, 1500))
	r.Floor("motif_right_derive", vrep.Pick(150, 2500))
	r.Floor("walks_with_two_entries_of_one_id", vrep.Pick(500, 8000))
	r.Floor("stale_conf_ver_deliveries_refused", vrep.Pick(40, 600))
}
