//go:build verif

package locate

// C09 — region lookups contain their keys, cover ranges without gaps and do
// not regress.  This file is the "world" the monitors run in:
//
//   - a mocktikv.Cluster with 3–5 stores whose topology is changed by the
//     harness (split / merge / leader transfer / add-remove peer / store
//     stop-start); epochs are held to TiKV's rules (both halves of a split
//     get parent.version+1, a merge gets max+1) because the statement's
//     "older / newer" is defined by them;
//   - a PD interposer that answers every region query (GetRegion /
//     GetPrevRegion / GetRegionByID / ScanRegions / BatchScanRegions) from a
//     snapshot of the topology: the current one, or a remembered older one
//     (stale / delayed / reordered PD answers);
//   - an RPC interposer in front of mocktikv.RPCClient that serialises request
//     handling against topology changes, turns mock panics ("key not in
//     region") into violations, and checks every genuine response against the
//     ground truth (the region that accepted the request contains the key and
//     the store leads it);
//   - a registry RegionVerID -> true key range of every region version that
//     ever existed (ground truth for "the returned region contains the key").
//
// Only exported identifiers of package locate are used here (black-box core);
// the white-box index walker lives in c09_wb.go.

import (
	"bytes"
	"context"
	"fmt"
	"math/rand"
	"runtime"
	"sort"
	"strings"
	"sync"
	"sync/atomic"
	"time"

	"github.com/golang/protobuf/proto" //nolint:staticcheck
	"github.com/pingcap/failpoint"
	"github.com/pingcap/kvproto/pkg/kvrpcpb"
	"github.com/pingcap/kvproto/pkg/metapb"
	"github.com/pingcap/log"
	"github.com/tikv/client-go/v2/config/retry"
	"github.com/tikv/client-go/v2/internal/apicodec"
	"github.com/tikv/client-go/v2/internal/mockstore/mocktikv"
	"github.com/tikv/client-go/v2/oracle"
	"github.com/tikv/client-go/v2/tikvrpc"
	"github.com/tikv/client-go/v2/util"
	"github.com/tikv/client-go/v2/util/async"
	"github.com/tikv/client-go/v2/verifh/vrep"
	pd "github.com/tikv/pd/client"
	"github.com/tikv/pd/client/clients/router"
	"github.com/tikv/pd/client/opt"
	"github.com/tikv/pd/client/pkg/caller"
	"go.uber.org/zap/zapcore"
	"google.golang.org/grpc/codes"
	"google.golang.org/grpc/status"
)

// ---------------------------------------------------------------- hooks

// c09Observe is set by the white-box extension (c09_wb.go).  It is called at
// every interaction of the cache with the outside world (PD call enter/exit,
// RPC enter/exit, end of an operation) while the workload is sequential.
// delivered = region versions handed to the cache by the interaction that
// just ended (PD answer, EpochNotMatch reply).
var c09Observe func(w *c09World, point string, delivered []RegionVerID)

// c09WBOp is an optional extra workload step supplied by the white-box
// extension (direct manipulation of sync flags / TTL of cached entries, an
// explicit GC round).
var c09WBOp func(w *c09World, rng *rand.Rand) string

// c09NewCache, when set by the white-box extension, builds the cache (there:
// one without the background GC, so that every change of the index happens in
// the driver goroutine and the GC is an explicit workload step).
var c09NewCache func(w *c09World, pdc pd.Client) *RegionCache

// ---------------------------------------------------------------- process setup

var c09Once sync.Once

func c09Setup() {
	c09Once.Do(func() {
		log.SetLevel(zapcore.FatalLevel)
		util.EnableFailpoints()
		// back-off sleeps become virtual: the retry budget is a logical bound
		_ = failpoint.Enable("tikvclient/fastBackoffBySkipSleep", "return")
		// the liveness probe always answers "reachable": a stopped store refuses
		// kv requests, but the client never parks it behind the 1 s wall-clock
		// health-check loop (that loop belongs to C10, and would make the
		// convergence clause depend on real time)
		_ = failpoint.Enable("tikvclient/injectLiveness", `return("reachable")`)
	})
}

// ---------------------------------------------------------------- key universe

var c09SplitCands = []string{"b", "c", "d", "e", "f", "g", "h", "i", "j", "k", "l", "m"}

// c09Keys: for every candidate boundary x the keys just below it, x itself and
// just above it, plus the extremes.
var c09Keys = func() [][]byte {
	var ks [][]byte
	ks = append(ks, []byte(""), []byte("a"))
	for _, c := range c09SplitCands {
		ks = append(ks, []byte{c[0] - 1, 0xff}, []byte(c), []byte{c[0], 0x00})
	}
	ks = append(ks, []byte("n"), []byte("z"), []byte{0xff, 0xff})
	sort.Slice(ks, func(i, j int) bool { return bytes.Compare(ks[i], ks[j]) < 0 })
	return ks
}()

// the "big" universe: 240 candidate boundaries, so that layouts exceed the
// 128-regions-per-batch limit of the range lookups.
var c09BigCands = func() []string {
	var cs []string
	for c := byte('b'); c <= 'y'; c++ {
		for d := byte('0'); d <= '9'; d++ {
			cs = append(cs, string([]byte{c, d}))
		}
	}
	return cs
}()

var c09BigKeys = func() [][]byte {
	ks := [][]byte{[]byte(""), []byte("a"), []byte("zz"), {0xff, 0xff}}
	for i, c := range c09BigCands {
		ks = append(ks, []byte(c))
		if i%3 == 0 {
			ks = append(ks, []byte(c+"\x00"))
		}
		if i%7 == 0 {
			ks = append(ks, []byte(c+"~"))
		}
	}
	sort.Slice(ks, func(i, j int) bool { return bytes.Compare(ks[i], ks[j]) < 0 })
	return ks
}()

func c09K(b []byte) string {
	if len(b) == 0 {
		return "''"
	}
	ok := true
	for _, c := range b {
		if c < 0x21 || c > 0x7e {
			ok = false
		}
	}
	if ok {
		return string(b)
	}
	return fmt.Sprintf("%q", string(b))
}

func c09Contains(start, end, key []byte) bool {
	return bytes.Compare(start, key) <= 0 && (len(end) == 0 || bytes.Compare(key, end) < 0)
}

// c09ContainsByEnd: start < key <= end, empty end = +inf (key non-empty).
func c09ContainsByEnd(start, end, key []byte) bool {
	return bytes.Compare(start, key) < 0 && (len(end) == 0 || bytes.Compare(key, end) <= 0)
}

// ---------------------------------------------------------------- snapshots

type c09Range struct{ start, end []byte }

// c09Snap is an immutable picture of the topology as PD would report it
// (keys in the cluster's key space: raw, or memcomparable-encoded in txn mode).
type c09Snap struct {
	seq  int
	regs []*router.Region // sorted by start key, gap free; Leader = what PD believes (may lag, see pdLeader)
	// truth: region id -> peer id of the peer that really leads the region, recorded only where
	// PD's belief differs (PD's leader info lags behind raft)
	truth map[uint64]uint64
}

// leaderOf: the peer that really leads r in this snapshot.
func (s *c09Snap) leaderOf(r *router.Region) uint64 {
	if id, ok := s.truth[r.Meta.Id]; ok {
		return id
	}
	return r.Leader.GetId()
}

func (s *c09Snap) find(key []byte) *router.Region {
	for _, r := range s.regs {
		if c09Contains(r.Meta.StartKey, r.Meta.EndKey, key) {
			return r
		}
	}
	return nil
}

func (s *c09Snap) prev(key []byte) *router.Region {
	for i, r := range s.regs {
		if c09Contains(r.Meta.StartKey, r.Meta.EndKey, key) {
			if i == 0 {
				return nil
			}
			return s.regs[i-1]
		}
	}
	return nil
}

func (s *c09Snap) byID(id uint64) *router.Region {
	for _, r := range s.regs {
		if r.Meta.Id == id {
			return r
		}
	}
	return nil
}

// scan: regions intersecting [start,end) in key order, at most limit (>0).
func (s *c09Snap) scan(start, end []byte, limit int) []*router.Region {
	var out []*router.Region
	for _, r := range s.regs {
		if len(r.Meta.EndKey) > 0 && bytes.Compare(r.Meta.EndKey, start) <= 0 {
			continue
		}
		if len(end) > 0 && bytes.Compare(r.Meta.StartKey, end) >= 0 {
			break
		}
		out = append(out, r)
		if limit > 0 && len(out) >= limit {
			break
		}
	}
	return out
}

func (s *c09Snap) layout(dec func([]byte) []byte) string {
	var sb strings.Builder
	for i, r := range s.regs {
		if i > 0 {
			sb.WriteByte(' ')
		}
		fmt.Fprintf(&sb, "%d@%d.%d[%s,%s)", r.Meta.Id, r.Meta.RegionEpoch.GetVersion(), r.Meta.RegionEpoch.GetConfVer(),
			c09K(dec(r.Meta.StartKey)), c09K(dec(r.Meta.EndKey)))
	}
	return sb.String()
}

func (s *c09Snap) bounds(dec func([]byte) []byte) string {
	var sb strings.Builder
	for _, r := range s.regs[1:] {
		sb.WriteString(c09K(dec(r.Meta.StartKey)))
		sb.WriteByte('|')
	}
	return sb.String()
}

func c09CloneRegion(r *router.Region) *router.Region {
	if r == nil {
		return nil
	}
	out := &router.Region{Meta: proto.Clone(r.Meta).(*metapb.Region)}
	if r.Leader != nil {
		out.Leader = proto.Clone(r.Leader).(*metapb.Peer)
	}
	for _, dp := range r.DownPeers {
		out.DownPeers = append(out.DownPeers, proto.Clone(dp).(*metapb.Peer))
	}
	return out
}

// ---------------------------------------------------------------- world

type c09World struct {
	r     *vrep.Report
	desc  string // scenario descriptor (test, index, seed)
	txn   bool
	cdc   apicodec.Codec
	keys  [][]byte // lookup key universe (sorted, keys[0] = "")
	cands []string // candidate region boundaries

	mvcc     mocktikv.MVCCStore
	cluster  *mocktikv.Cluster
	storeIDs []uint64
	stopped  map[uint64]bool
	// peer / store health family (c09_peers.go); all empty unless that family's changes are used
	dead      map[uint64]string // decommissioned stores: "tombstone" | "removed" (never come back)
	deadBirth map[uint64]bool   // stores that were already dead when the current cache was created
	downMarks map[uint64]bool   // peers PD reports in DownPeers
	pdLeader  map[uint64]uint64 // region id -> peer id PD still names as leader although raft moved on
	peerUp    sync.Map          // peer id -> true: some answer handed to the current cache listed the peer as available
	nWitness  int               // witness switches so far

	// topology changes take topoMu.Lock; handling of one RPC takes RLock, so a
	// store never answers from a half-applied change.
	topoMu sync.RWMutex

	mu        sync.Mutex // guards everything below
	snaps     []*c09Snap
	registry  map[RegionVerID]c09Range // decoded ranges of every region version that ever existed
	allIDs    []uint64
	seenVers  []RegionVerID // region versions returned by lookups (targets for invalidation)
	pdRng     *rand.Rand
	pStale    float64
	pGap      float64 // a scan answer lacks one region (a freshly split region that has not reported to PD yet)
	forceSnap int     // >=0: the next PD region answer is computed from this snapshot (then reset)
	// targeting of the next change (used by scripted motifs; zero values = random)
	tgtRegion   uint64
	tgtKey      string
	forceDerive int  // split: 1 = the original id keeps the left half, 2 = it keeps the right half (TiKV's right-derive)
	noBatch     bool // BatchScanRegions answers Unimplemented (fallback path)
	oplog       []string
	layouts     map[string]struct{}

	concurrent   atomic.Bool
	staleServed  atomic.Int64 // stale PD answers since the cache was created
	changes      atomic.Int64 // topology changes since the cache was created
	rpcInOp      atomic.Int64
	noObserve    atomic.Bool
	wbReset      atomic.Bool // the white-box walker must forget its previous walk (a concurrent episode happened)
	enmJudge     atomic.Bool // a quiet request is running: re-sending an epoch the store already refuted is a loop
	enmSeen      map[RegionVerID]string
	pdc          *c09PD
	cli          *c09Client
	cache        *RegionCache
	wbState      any // owned by the white-box extension
	pendingDeliv []RegionVerID
}

func c09NewWorld(r *vrep.Report, desc string, rng *rand.Rand, mvcc mocktikv.MVCCStore, txn bool, nStores int) *c09World {
	c09Setup()
	w := &c09World{r: r, desc: desc, txn: txn, mvcc: mvcc, stopped: map[uint64]bool{},
		dead: map[uint64]string{}, deadBirth: map[uint64]bool{}, downMarks: map[uint64]bool{}, pdLeader: map[uint64]uint64{},
		registry: map[RegionVerID]c09Range{}, layouts: map[string]struct{}{}, keys: c09Keys, cands: c09SplitCands, forceSnap: -1}
	var mode apicodec.Mode = apicodec.ModeRaw
	if txn {
		mode = apicodec.ModeTxn
	}
	w.cdc = apicodec.NewCodecV1(mode)
	w.pdRng = rand.New(rand.NewSource(rng.Int63()))
	w.cluster = mocktikv.NewCluster(mvcc)
	w.storeIDs, _, _, _ = mocktikv.BootstrapWithMultiStores(w.cluster, nStores)
	w.pdc = &c09PD{Client: mocktikv.NewPDClient(w.cluster), w: w}
	w.cli = &c09Client{RPCClient: mocktikv.NewRPCClient(w.cluster, mvcc, nil), w: w}
	w.topoMu.Lock()
	w.snapshotLocked()
	w.topoMu.Unlock()
	return w
}

func (w *c09World) enc(k []byte) []byte {
	if w.txn {
		return mocktikv.NewMvccKey(k)
	}
	return k
}

func (w *c09World) dec(k []byte) []byte {
	if !w.txn || len(k) == 0 {
		return k
	}
	d, err := w.cdc.DecodeRegionKey(k)
	if err != nil {
		return append([]byte("?undecodable:"), k...)
	}
	return d
}

func (w *c09World) logf(format string, a ...any) {
	s := fmt.Sprintf(format, a...)
	w.mu.Lock()
	w.oplog = append(w.oplog, s)
	if len(w.oplog) > 80 {
		w.oplog = w.oplog[len(w.oplog)-80:]
	}
	w.mu.Unlock()
}

func (w *c09World) cur() *c09Snap {
	w.mu.Lock()
	defer w.mu.Unlock()
	return w.snaps[len(w.snaps)-1]
}

func (w *c09World) violate(sig, msg string, extra map[string]any) {
	w.mu.Lock()
	d := map[string]any{"scenario": w.desc, "layout_now": w.snaps[len(w.snaps)-1].layout(w.dec),
		"last_ops": append([]string(nil), w.oplog...), "txn_mode": w.txn, "concurrent": w.concurrent.Load(),
		"stale_pd_answers_since_cache": w.staleServed.Load(), "changes_since_cache": w.changes.Load()}
	w.mu.Unlock()
	for k, v := range extra {
		d[k] = v
	}
	w.r.Violate(sig, msg+"  ["+w.desc+"]", d)
}

// snapshotLocked records the current topology (caller holds topoMu.Lock).
func (w *c09World) snapshotLocked() {
	if w.nWitness > 0 {
		w.saneWitnessesLocked()
	}
	regs := w.cluster.ScanRegions(nil, nil, 0)
	var truth map[uint64]uint64
	for _, r := range regs {
		pid, lag := w.pdLeader[r.Meta.Id]
		if !lag {
			continue
		}
		var believed *metapb.Peer
		for _, p := range r.Meta.Peers {
			if p.Id == pid {
				believed = p
			}
		}
		if believed == nil || pid == r.Leader.GetId() {
			delete(w.pdLeader, r.Meta.Id) // the believed leader left the region, or raft came back to it
			continue
		}
		if truth == nil {
			truth = map[uint64]uint64{}
		}
		truth[r.Meta.Id] = r.Leader.GetId()
		r.Leader = proto.Clone(believed).(*metapb.Peer)
	}
	w.mu.Lock()
	defer w.mu.Unlock()
	s := &c09Snap{seq: len(w.snaps), regs: regs, truth: truth}
	w.snaps = append(w.snaps, s)
	for _, r := range regs {
		ep := r.Meta.GetRegionEpoch()
		id := NewRegionVerID(r.Meta.Id, ep.GetConfVer(), ep.GetVersion())
		if _, ok := w.registry[id]; !ok {
			w.registry[id] = c09Range{w.dec(r.Meta.StartKey), w.dec(r.Meta.EndKey)}
		}
		known := false
		for _, x := range w.allIDs {
			if x == r.Meta.Id {
				known = true
			}
		}
		if !known {
			w.allIDs = append(w.allIDs, r.Meta.Id)
		}
	}
	w.layouts[s.bounds(w.dec)] = struct{}{}
}

func (w *c09World) regRange(id RegionVerID) (c09Range, bool) {
	w.mu.Lock()
	defer w.mu.Unlock()
	rg, ok := w.registry[id]
	return rg, ok
}

// ---------------------------------------------------------------- topology changes

func (w *c09World) setEpoch(id, confVer, ver uint64) {
	w.cluster.Lock()
	for _, r := range w.cluster.GetAllRegions() {
		if r.Meta.Id == id {
			r.Meta.RegionEpoch = &metapb.RegionEpoch{ConfVer: confVer, Version: ver}
		}
	}
	w.cluster.Unlock()
}

func (w *c09World) upStores() []uint64 {
	var up []uint64
	for _, s := range w.storeIDs {
		if !w.stopped[s] && w.dead[s] == "" {
			up = append(up, s)
		}
	}
	return up
}

// change applies one random topology change and returns its description
// ("" if the chosen kind was not applicable).  kinds: 0 split 1 merge
// 2 leader 3 add-peer 4 remove-peer 5 stop-store 6 start-store.
func (w *c09World) change(rng *rand.Rand, kind int) string {
	w.topoMu.Lock()
	defer w.topoMu.Unlock()
	cur := w.cur()
	desc := ""
	switch kind {
	case 0: // split
		type cand struct {
			r *router.Region
			k string
		}
		var cs []cand
		for _, r := range cur.regs {
			if w.tgtRegion != 0 && r.Meta.Id != w.tgtRegion {
				continue
			}
			s, e := w.dec(r.Meta.StartKey), w.dec(r.Meta.EndKey)
			for _, k := range w.cands {
				if w.tgtKey != "" && k != w.tgtKey {
					continue
				}
				if bytes.Compare(s, []byte(k)) < 0 && (len(e) == 0 || bytes.Compare([]byte(k), e) < 0) {
					cs = append(cs, cand{r, k})
				}
			}
		}
		if len(cs) == 0 {
			return ""
		}
		c := cs[rng.Intn(len(cs))]
		rightDerive := rng.Intn(2) == 0
		if w.forceDerive != 0 {
			rightDerive = w.forceDerive == 2
		}
		newID := w.cluster.AllocID()
		peerIDs := w.cluster.AllocIDs(len(c.r.Meta.Peers))
		li := 0
		for i, p := range c.r.Meta.Peers {
			if p.Id == cur.leaderOf(c.r) {
				li = i
			}
		}
		if rng.Intn(4) == 0 {
			li = rng.Intn(len(peerIDs))
		}
		ep := c.r.Meta.RegionEpoch
		w.cluster.SplitRaw(c.r.Meta.Id, newID, w.enc([]byte(c.k)), peerIDs, peerIDs[li])
		// TiKV: both halves carry parent.version+1 and the parent's conf_ver
		// (older mocktikv started the new region at version 1 / conf_ver 0;
		// where it already follows the rule this is a no-op).
		w.setEpoch(c.r.Meta.Id, ep.GetConfVer(), ep.GetVersion()+1)
		w.setEpoch(newID, ep.GetConfVer(), ep.GetVersion()+1)
		side := "left"
		if rightDerive {
			// TiKV's default (right-derive-when-split): the original region id keeps the
			// RIGHT half, the new id takes the left one.  mocktikv always gives the
			// original id the left half, so the two ranges are swapped under the lock.
			side = "right"
			w.cluster.Lock()
			for _, r := range w.cluster.GetAllRegions() {
				switch r.Meta.Id {
				case c.r.Meta.Id:
					r.Meta.StartKey, r.Meta.EndKey = w.enc([]byte(c.k)), c.r.Meta.EndKey
				case newID:
					r.Meta.StartKey, r.Meta.EndKey = c.r.Meta.StartKey, w.enc([]byte(c.k))
				}
			}
			w.cluster.Unlock()
			w.r.Count("topo_split_right_derive", 1)
		}
		desc = fmt.Sprintf("split r%d at %s -> new r%d (original id keeps the %s half)", c.r.Meta.Id, c.k, newID, side)
		w.r.Count("topo_split", 1)
	case 1: // merge (the left region survives and absorbs its right neighbour)
		if len(cur.regs) < 2 {
			return ""
		}
		i := rng.Intn(len(cur.regs) - 1)
		l, rr := cur.regs[i], cur.regs[i+1]
		v := l.Meta.RegionEpoch.GetVersion()
		if x := rr.Meta.RegionEpoch.GetVersion(); x > v {
			v = x
		}
		w.cluster.Merge(l.Meta.Id, rr.Meta.Id)
		w.setEpoch(l.Meta.Id, l.Meta.RegionEpoch.GetConfVer(), v+1)
		desc = fmt.Sprintf("merge r%d <- r%d", l.Meta.Id, rr.Meta.Id)
		w.r.Count("topo_merge", 1)
	case 2: // leader transfer
		var cs []*router.Region
		for _, r := range cur.regs {
			if len(r.Meta.Peers) >= 2 {
				cs = append(cs, r)
			}
		}
		if len(cs) == 0 {
			return ""
		}
		r := cs[rng.Intn(len(cs))]
		var others []*metapb.Peer
		for _, p := range r.Meta.Peers {
			if p.Id != cur.leaderOf(r) {
				others = append(others, p)
			}
		}
		p := others[rng.Intn(len(others))]
		w.cluster.ChangeLeader(r.Meta.Id, p.Id)
		desc = fmt.Sprintf("leader r%d -> peer %d on store %d", r.Meta.Id, p.Id, p.StoreId)
		w.r.Count("topo_leader", 1)
	case 3: // add peer
		type cand struct {
			r *router.Region
			s uint64
		}
		var cs []cand
		for _, r := range cur.regs {
			if w.tgtRegion != 0 && r.Meta.Id != w.tgtRegion {
				continue
			}
			for _, s := range w.storeIDs {
				has := w.dead[s] != "" // no new peer on a decommissioned store
				for _, p := range r.Meta.Peers {
					if p.StoreId == s {
						has = true
					}
				}
				if !has {
					cs = append(cs, cand{r, s})
				}
			}
		}
		if len(cs) == 0 {
			return ""
		}
		c := cs[rng.Intn(len(cs))]
		w.cluster.AddPeer(c.r.Meta.Id, c.s, w.cluster.AllocID())
		desc = fmt.Sprintf("add peer r%d on store %d", c.r.Meta.Id, c.s)
		w.r.Count("topo_add_peer", 1)
	case 4: // remove peer (a removed leader is replaced at once: regions always have a leader)
		var cs []*router.Region
		for _, r := range cur.regs {
			if w.tgtRegion != 0 && r.Meta.Id != w.tgtRegion {
				continue
			}
			if len(r.Meta.Peers) >= 2 {
				cs = append(cs, r)
			}
		}
		if len(cs) == 0 {
			return ""
		}
		r := cs[rng.Intn(len(cs))]
		p := r.Meta.Peers[rng.Intn(len(r.Meta.Peers))]
		w.cluster.RemovePeer(r.Meta.Id, p.Id)
		if p.Id == cur.leaderOf(r) {
			var rest []*metapb.Peer
			for _, q := range r.Meta.Peers {
				if q.Id != p.Id {
					rest = append(rest, q)
				}
			}
			w.cluster.ChangeLeader(r.Meta.Id, rest[rng.Intn(len(rest))].Id)
		}
		desc = fmt.Sprintf("remove peer %d (store %d) of r%d", p.Id, p.StoreId, r.Meta.Id)
		w.r.Count("topo_remove_peer", 1)
	case 5: // stop store
		up := w.upStores()
		if len(up) <= 2 {
			return ""
		}
		s := up[rng.Intn(len(up))]
		w.cluster.StopStore(s)
		w.stopped[s] = true
		moved := 0
		if rng.Intn(2) == 0 { // raft elects another leader among the peers on running stores
			for _, r := range cur.regs {
				if w.leaderStore(cur, r) == s {
					for _, p := range r.Meta.Peers {
						if !w.stopped[p.StoreId] && w.dead[p.StoreId] == "" {
							w.cluster.ChangeLeader(r.Meta.Id, p.Id)
							moved++
							break
						}
					}
				}
			}
		}
		desc = fmt.Sprintf("stop store %d (leaders moved: %d)", s, moved)
		w.r.Count("topo_stop_store", 1)
	case 6: // start store
		var down []uint64
		for _, s := range w.storeIDs {
			if w.stopped[s] {
				down = append(down, s)
			}
		}
		if len(down) == 0 {
			return ""
		}
		s := down[rng.Intn(len(down))]
		w.cluster.StartStore(s)
		delete(w.stopped, s)
		desc = fmt.Sprintf("start store %d", s)
		w.r.Count("topo_start_store", 1)
	}
	if desc != "" {
		w.snapshotLocked()
		w.changes.Add(1)
		w.r.Count("topology_changes", 1)
		w.logf("CHANGE %s", desc)
	}
	return desc
}

// leaderStore: the store of the peer that really leads r.
func (w *c09World) leaderStore(sn *c09Snap, r *router.Region) uint64 {
	id := sn.leaderOf(r)
	for _, p := range r.Meta.Peers {
		if p.Id == id {
			return p.StoreId
		}
	}
	return 0
}

// randomChange tries kinds until one applies.
func (w *c09World) randomChange(rng *rand.Rand) string {
	weights := []int{30, 22, 14, 8, 8, 5, 6}
	for try := 0; try < 12; try++ {
		x := rng.Intn(93)
		k := 0
		for ; k < len(weights); k++ {
			if x < weights[k] {
				break
			}
			x -= weights[k]
		}
		if d := w.change(rng, k); d != "" {
			return d
		}
	}
	return ""
}

// settle ends the chaos: every store runs again and every region is led by a
// peer on a running store (they all run), PD answers are fresh from now on.
func (w *c09World) settle() {
	w.topoMu.Lock()
	for s := range w.stopped {
		w.cluster.StartStore(s)
		delete(w.stopped, s)
	}
	w.settlePeersLocked()
	w.snapshotLocked()
	w.topoMu.Unlock()
	w.mu.Lock()
	w.pStale = 0
	w.pGap = 0
	w.mu.Unlock()
	w.logf("SETTLE: all stores up, PD answers fresh and complete")
}

// ---------------------------------------------------------------- cache life cycle

func (w *c09World) newCache() {
	if w.cache != nil {
		w.cache.Close()
	}
	var pdc pd.Client = w.pdc
	if w.txn {
		pdc = NewCodecPDClient(apicodec.ModeTxn, w.pdc)
	}
	if c09NewCache != nil {
		w.cache = c09NewCache(w, pdc)
	} else {
		w.cache = NewRegionCache(pdc, RegionCacheNoHealthTick)
	}
	w.staleServed.Store(0)
	w.changes.Store(0)
	w.topoMu.RLock()
	w.deadBirth = map[uint64]bool{}
	for s := range w.dead {
		w.deadBirth[s] = true
	}
	w.topoMu.RUnlock()
	w.peerUp.Range(func(k, _ any) bool { w.peerUp.Delete(k); return true })
	w.mu.Lock()
	w.seenVers = nil
	w.mu.Unlock()
	w.pendingDeliv = nil
	w.wbState = nil
	w.logf("NEW CACHE")
}

func (w *c09World) close() {
	if w.cache != nil {
		w.cache.Close()
		w.cache = nil
	}
}

// consistent: everything the cache knows comes from one and the same topology
// (no change and no stale PD answer since it was created).
func (w *c09World) consistent() bool {
	return w.staleServed.Load() == 0 && w.changes.Load() == 0 && !w.concurrent.Load()
}

func (w *c09World) observe(point string, delivered []RegionVerID) {
	if c09Observe == nil || w.concurrent.Load() || w.cache == nil || w.noObserve.Load() {
		return
	}
	c09Observe(w, point, delivered)
}

func (w *c09World) bo(ms int) *retry.Backoffer {
	return retry.NewBackofferWithVars(context.Background(), ms, nil)
}

// ---------------------------------------------------------------- a caller context that ends during a call

type c09PlanKey struct{}

// c09EndCtx is a context the harness can end at will, as cancelled or as
// deadline-exceeded.  It carries the plan that tells the PD interposer at
// which PD request of the call to end it.
type c09EndCtx struct {
	mu   sync.Mutex
	done chan struct{}
	err  error
	plan *c09CtxPlan
}

func (c *c09EndCtx) Deadline() (time.Time, bool) { return time.Time{}, false }
func (c *c09EndCtx) Done() <-chan struct{}       { return c.done }
func (c *c09EndCtx) Err() error {
	c.mu.Lock()
	defer c.mu.Unlock()
	return c.err
}
func (c *c09EndCtx) Value(k any) any {
	if _, ok := k.(c09PlanKey); ok {
		return c.plan
	}
	return nil
}
func (c *c09EndCtx) end(err error) {
	c.mu.Lock()
	if c.err == nil {
		c.err = err
		close(c.done)
	}
	c.mu.Unlock()
}

// c09CtxPlan: end the context at the at-th PD request made under it, before
// the request is sent (PD refuses: the context is over) or after PD answered
// (the answer arrives with the context already ended).
type c09CtxPlan struct {
	ctx   *c09EndCtx
	at    int64
	after bool
	kind  error
	calls atomic.Int64
	fired atomic.Bool
}

func c09NewCtxPlan(rng *rand.Rand) *c09CtxPlan {
	pl := &c09CtxPlan{at: int64(1 + rng.Intn(3)), after: rng.Intn(2) == 0, kind: context.Canceled}
	if rng.Intn(3) == 0 {
		pl.kind = context.DeadlineExceeded
	}
	pl.ctx = &c09EndCtx{done: make(chan struct{}), plan: pl}
	return pl
}

func (pl *c09CtxPlan) String() string {
	when := "before PD request"
	if pl.after {
		when = "after PD answer"
	}
	return fmt.Sprintf("ctx ends (%v) %s #%d", pl.kind, when, pl.at)
}

// ctxEnter is called at the start of every PD region request.  It returns an
// error if the caller's context is over (as a PD client does) and a function
// to be called when the answer is ready.
func (p *c09PD) ctxEnter(ctx context.Context) (func(), error) {
	post := func() {}
	if pl, ok := ctx.Value(c09PlanKey{}).(*c09CtxPlan); ok && pl != nil {
		n := pl.calls.Add(1)
		if n == pl.at {
			if !pl.after {
				pl.fired.Store(true)
				pl.ctx.end(pl.kind)
				p.w.r.Count("ctx_ended_before_pd_request", 1)
				p.w.logf("  caller context ended (%v) before PD request #%d", pl.kind, n)
			} else {
				post = func() {
					pl.fired.Store(true)
					pl.ctx.end(pl.kind)
					p.w.r.Count("ctx_ended_after_pd_answer", 1)
					p.w.logf("  caller context ended (%v) after PD answered request #%d", pl.kind, n)
				}
			}
		}
	}
	if err := ctx.Err(); err != nil {
		p.w.r.Count("pd_requests_refused_ctx_over", 1)
		return nil, err
	}
	return post, nil
}

// ---------------------------------------------------------------- PD interposer

type c09PD struct {
	pd.Client
	w *c09World
}

func (p *c09PD) WithCallerComponent(caller.Component) pd.Client { return p }

// pick chooses the snapshot the next answer is computed from.
func (p *c09PD) pick(what string) *c09Snap {
	w := p.w
	w.observe("pd-enter:"+what, nil)
	w.mu.Lock()
	n := len(w.snaps)
	s := w.snaps[n-1]
	if f := w.forceSnap; f >= 0 && f < n {
		w.forceSnap = -1
		s = w.snaps[f]
		w.mu.Unlock()
		if f != n-1 {
			w.staleServed.Add(1)
			w.r.Count("pd_stale_answers", 1)
			w.r.Count("pd_scripted_stale_answers", 1)
			w.logf("  PD %s answered from snapshot #%d (current #%d, scripted)", what, s.seq, n-1)
		}
		return s
	}
	if n > 1 && w.pStale > 0 && w.pdRng.Float64() < w.pStale {
		back := 1 + w.pdRng.Intn(4)
		if w.pdRng.Intn(5) == 0 {
			back = 1 + w.pdRng.Intn(n-1)
		}
		if back > n-1 {
			back = n - 1
		}
		s = w.snaps[n-1-back]
		w.staleServed.Add(1)
		w.mu.Unlock()
		w.r.Count("pd_stale_answers", 1)
		w.logf("  PD %s answered from snapshot #%d (current #%d)", what, s.seq, n-1)
		return s
	}
	w.mu.Unlock()
	return s
}

func (p *c09PD) deliver(what string, regs []*router.Region) []*router.Region {
	w := p.w
	w.r.Count("pd_region_answers", 1)
	out := make([]*router.Region, 0, len(regs))
	var ids []RegionVerID
	for _, r := range regs {
		out = append(out, c09CloneRegion(r))
		ep := r.Meta.GetRegionEpoch()
		ids = append(ids, NewRegionVerID(r.Meta.Id, ep.GetConfVer(), ep.GetVersion()))
		w.notePDAnswer(r)
	}
	if w.concurrent.Load() {
		// a delayed answer: topology changes may slip in before it is used
		for i := 0; i < 3; i++ {
			runtime.Gosched()
		}
	}
	w.observe("pd-exit:"+what, ids)
	return out
}

func (p *c09PD) GetRegion(ctx context.Context, key []byte, opts ...opt.GetRegionOption) (*router.Region, error) {
	post, cerr := p.ctxEnter(ctx)
	if cerr != nil {
		return nil, cerr
	}
	defer post()
	s := p.pick("GetRegion")
	r := s.find(key)
	if r == nil {
		return nil, nil
	}
	return p.deliver("GetRegion", []*router.Region{r})[0], nil
}

func (p *c09PD) GetPrevRegion(ctx context.Context, key []byte, opts ...opt.GetRegionOption) (*router.Region, error) {
	post, cerr := p.ctxEnter(ctx)
	if cerr != nil {
		return nil, cerr
	}
	defer post()
	s := p.pick("GetPrevRegion")
	r := s.prev(key)
	if r == nil {
		p.deliver("GetPrevRegion", nil)
		return nil, nil
	}
	return p.deliver("GetPrevRegion", []*router.Region{r})[0], nil
}

func (p *c09PD) GetRegionByID(ctx context.Context, regionID uint64, opts ...opt.GetRegionOption) (*router.Region, error) {
	post, cerr := p.ctxEnter(ctx)
	if cerr != nil {
		return nil, cerr
	}
	defer post()
	s := p.pick("GetRegionByID")
	r := s.byID(regionID)
	if r == nil {
		p.deliver("GetRegionByID", nil)
		return nil, nil
	}
	return p.deliver("GetRegionByID", []*router.Region{r})[0], nil
}

// gappy drops one region from a scan answer with probability pGap.
func (p *c09PD) gappy(regs []*router.Region) []*router.Region {
	w := p.w
	w.mu.Lock()
	defer w.mu.Unlock()
	if len(regs) < 2 || w.pGap <= 0 || w.pdRng.Float64() >= w.pGap {
		return regs
	}
	i := w.pdRng.Intn(len(regs))
	out := append(append([]*router.Region{}, regs[:i]...), regs[i+1:]...)
	w.r.Count("pd_gappy_answers", 1)
	return out
}

func (p *c09PD) ScanRegions(ctx context.Context, startKey, endKey []byte, limit int, opts ...opt.GetRegionOption) ([]*router.Region, error) {
	post, cerr := p.ctxEnter(ctx)
	if cerr != nil {
		return nil, cerr
	}
	defer post()
	s := p.pick("ScanRegions")
	return p.deliver("ScanRegions", p.gappy(s.scan(startKey, endKey, limit))), nil
}

func (p *c09PD) BatchScanRegions(ctx context.Context, keyRanges []router.KeyRange, limit int, opts ...opt.GetRegionOption) ([]*router.Region, error) {
	p.w.mu.Lock()
	nb := p.w.noBatch
	p.w.mu.Unlock()
	if nb {
		return nil, status.Errorf(codes.Unimplemented, "c09: BatchScanRegions is not implemented by this PD")
	}
	post, cerr := p.ctxEnter(ctx)
	if cerr != nil {
		return nil, cerr
	}
	defer post()
	s := p.pick("BatchScanRegions")
	var out []*router.Region
	for _, kr := range keyRanges {
		for _, r := range s.scan(kr.StartKey, kr.EndKey, 0) {
			if len(out) > 0 && out[len(out)-1] == r {
				continue
			}
			if limit > 0 && len(out) >= limit {
				break
			}
			out = append(out, r)
		}
	}
	return p.deliver("BatchScanRegions", p.gappy(out)), nil
}

// ---------------------------------------------------------------- RPC interposer

type c09Client struct {
	*mocktikv.RPCClient
	w *c09World
}

func c09ReqKey(req *tikvrpc.Request) ([]byte, bool) {
	switch req.Type {
	case tikvrpc.CmdRawGet:
		return req.RawGet().Key, true
	case tikvrpc.CmdGet:
		return req.Get().Key, true
	}
	return nil, false
}

func (c *c09Client) SendRequest(ctx context.Context, addr string, req *tikvrpc.Request, timeout time.Duration) (resp *tikvrpc.Response, err error) {
	w := c.w
	w.rpcInOp.Add(1)
	w.r.Count("rpc_sent", 1)
	w.observe("rpc-enter", nil)
	var delivered []RegionVerID
	func() {
		w.topoMu.RLock()
		defer w.topoMu.RUnlock()
		rctx := NewRegionVerID(req.Context.GetRegionId(), req.Context.GetRegionEpoch().GetConfVer(), req.Context.GetRegionEpoch().GetVersion())
		if w.enmJudge.Load() {
			w.mu.Lock()
			told, again := w.enmSeen[rctx]
			w.mu.Unlock()
			if again {
				w.r.Eval(1)
				key, _ := c09ReqKey(req)
				w.violate("send:refuted-epoch-resent", fmt.Sprintf("nothing changes any more, the store answered the request for key %s to r%d@%d.%d with EpochNotMatch{%s}, and the same stale epoch is sent again instead of installing the fresh descriptions and re-locating the key",
					c09K(key), rctx.GetID(), rctx.GetVer(), rctx.GetConfVer(), told), map[string]any{"key": c09K(key)})
			}
		}
		ereq, e := w.cdc.EncodeRequest(req)
		if e != nil {
			err = e
			return
		}
		func() {
			defer func() {
				if p := recover(); p != nil {
					key, _ := c09ReqKey(req)
					w.violate("send:mock-store-panic", fmt.Sprintf("mock store at %s panicked handling %s key=%s region=%d: %v",
						addr, req.Type, c09K(key), req.Context.GetRegionId(), p), map[string]any{"key": c09K(key), "panic_value": fmt.Sprint(p)})
					err = fmt.Errorf("c09: mock store panicked: %v", p)
				}
			}()
			resp, err = c.RPCClient.SendRequest(ctx, addr, ereq, timeout)
		}()
		if err != nil {
			w.r.Count("rpc_transport_error", 1)
			return
		}
		resp, err = w.cdc.DecodeResponse(ereq, resp)
		if err != nil || resp == nil {
			return
		}
		regionErr, e := resp.GetRegionError()
		if e != nil {
			return
		}
		if regionErr != nil {
			switch {
			case regionErr.GetNotLeader() != nil:
				w.r.Count("rpc_not_leader", 1)
			case regionErr.GetEpochNotMatch() != nil:
				w.r.Count("rpc_epoch_not_match", 1)
				told, refuted := "", false
				for _, m := range regionErr.GetEpochNotMatch().GetCurrentRegions() {
					ep := m.GetRegionEpoch()
					v := NewRegionVerID(m.Id, ep.GetConfVer(), ep.GetVersion())
					delivered = append(delivered, v)
					for _, p := range m.GetPeers() {
						w.peerUp.Store(p.Id, true)
					}
					told += fmt.Sprintf("r%d@%d.%d ", v.GetID(), v.GetVer(), v.GetConfVer())
					if m.Id == rctx.GetID() && v != rctx && ep.GetConfVer() >= rctx.GetConfVer() && ep.GetVersion() >= rctx.GetVer() {
						refuted = true
					}
				}
				if refuted && w.enmJudge.Load() {
					w.mu.Lock()
					w.enmSeen[rctx] = told
					w.mu.Unlock()
				}
			case regionErr.GetRegionNotFound() != nil:
				w.r.Count("rpc_region_not_found", 1)
			case regionErr.GetStoreNotMatch() != nil:
				w.r.Count("rpc_store_not_match", 1)
			default:
				w.r.Count("rpc_other_region_error", 1)
			}
			return
		}
		// genuine response: ground truth (stable, we hold topoMu.RLock)
		w.r.Count("rpc_genuine", 1)
		key, ok := c09ReqKey(req)
		if !ok {
			return
		}
		meta, leaderPeer := w.cluster.GetRegion(req.Context.GetRegionId())
		w.r.Eval(1)
		if meta == nil {
			w.violate("send:accepted-by-missing-region", fmt.Sprintf("request for key %s answered for region %d which does not exist",
				c09K(key), req.Context.GetRegionId()), nil)
			return
		}
		if !c09Contains(meta.StartKey, meta.EndKey, w.enc(key)) {
			w.violate("send:key-not-in-region", fmt.Sprintf("request for key %s was executed by region %d [%s,%s) which does not contain it",
				c09K(key), meta.Id, c09K(w.dec(meta.StartKey)), c09K(w.dec(meta.EndKey))), map[string]any{"key": c09K(key)})
		}
		var leaderStore uint64
		for _, p := range meta.Peers {
			if p.Id == leaderPeer {
				leaderStore = p.StoreId
			}
		}
		if st := w.cluster.GetStoreByAddr(addr); st == nil || st.Id != leaderStore {
			w.violate("send:answered-by-non-leader", fmt.Sprintf("request for key %s answered by %s, leader of region %d is on store %d",
				c09K(key), addr, meta.Id, leaderStore), nil)
		}
	}()
	w.observe("rpc-exit", delivered)
	return resp, err
}

func (c *c09Client) SendRequestAsync(ctx context.Context, addr string, req *tikvrpc.Request, cb async.Callback[*tikvrpc.Response]) {
	go func() {
		cb.Schedule(c.SendRequest(ctx, addr, req, 0))
	}()
}

// ---------------------------------------------------------------- a request as the raw/txn clients send it

type c09SendResult struct {
	ok        bool
	err       error
	loops     int
	rpcs      int64
	lastRegEr string
	panicked  bool // already reported as send:client-panic
}

// send mimics rawkv.Client.sendReq / the snapshot's point get: locate, send,
// on a region error back off and start over.
func (w *c09World) send(key []byte, budgetMs int) (res c09SendResult) {
	defer func() {
		if p := recover(); p != nil {
			buf := make([]byte, 5000)
			buf = buf[:runtime.Stack(buf, false)]
			w.r.Eval(1)
			w.violate("send:client-panic", fmt.Sprintf("the request for key %s panicked inside the client instead of converging to the leader of its region: %v", c09K(key), p),
				map[string]any{"key": c09K(key), "panic_value": fmt.Sprint(p), "stack": string(buf), "peer_health": w.healthStr()})
			res.ok, res.err, res.panicked = false, fmt.Errorf("c09: client panicked: %v", p), true
			res.rpcs = w.rpcInOp.Load()
		}
	}()
	bo := w.bo(budgetMs)
	// a RegionRequestSender carries per-request state: one per request, as the clients do
	sender := NewRegionRequestSender(w.cache, w.cli, oracle.NoopReadTSValidator{})
	w.rpcInOp.Store(0)
	if budgetMs == c09ConvergeBudgetMs && !w.concurrent.Load() {
		w.mu.Lock()
		w.enmSeen = map[RegionVerID]string{}
		w.mu.Unlock()
		w.enmJudge.Store(true)
		defer w.enmJudge.Store(false)
	}
	for {
		res.loops++
		if res.loops > 400 || w.rpcInOp.Load() > 2000 {
			res.err = fmt.Errorf("c09: attempt bound exceeded (loops=%d rpcs=%d)", res.loops, w.rpcInOp.Load())
			res.rpcs = w.rpcInOp.Load()
			return res
		}
		loc, err := w.cache.LocateKey(bo, key)
		if err != nil {
			res.err = err
			break
		}
		w.checkLoc("LocateKey", key, loc, false)
		var req *tikvrpc.Request
		if w.txn {
			req = tikvrpc.NewRequest(tikvrpc.CmdGet, &kvrpcpb.GetRequest{Key: key, Version: 42})
		} else {
			req = tikvrpc.NewRequest(tikvrpc.CmdRawGet, &kvrpcpb.RawGetRequest{Key: key})
		}
		resp, _, err := sender.SendReq(bo, req, loc.Region, time.Second)
		if err != nil {
			res.err = err
			break
		}
		if resp == nil || resp.Resp == nil {
			res.err = fmt.Errorf("c09: nil response without error")
			break
		}
		regionErr, err := resp.GetRegionError()
		if err != nil {
			res.err = err
			break
		}
		if regionErr != nil {
			res.lastRegEr = regionErr.String()
			if err := bo.Backoff(retry.BoRegionMiss, fmt.Errorf("%s", regionErr.String())); err != nil {
				res.err = err
				break
			}
			continue
		}
		res.ok = true
		break
	}
	res.rpcs = w.rpcInOp.Load()
	return res
}
