//go:build verif

package transaction

// C07 (unit C) — the real BufferBatchGetter (batch_getter.go) over the default
// write buffer and a *model snapshot*, batch-get heavy: key lists with
// duplicates, keys deleted in the buffer, keys only in the snapshot, keys
// nowhere.  The other reads go through a KVUnionStore over the same buffer and
// snapshot, exactly how KVTxn wires them.  verifh/c07m compares every read
// with the map model after every step.

import (
	"bytes"
	"context"
	"math/rand"
	"sort"
	"testing"

	"github.com/pingcap/log"
	tikverr "github.com/tikv/client-go/v2/error"
	"github.com/tikv/client-go/v2/internal/unionstore"
	"github.com/tikv/client-go/v2/kv"
	"github.com/tikv/client-go/v2/verifh/c07m"
	"github.com/tikv/client-go/v2/verifh/vrep"
	"go.uber.org/zap"
)

type c07MSnap struct {
	keys [][]byte
	vals map[string][]byte
}

func (s *c07MSnap) Get(_ context.Context, k []byte, _ ...kv.GetOption) (kv.ValueEntry, error) {
	if v, ok := s.vals[string(k)]; ok {
		return kv.NewValueEntry(v, 9), nil
	}
	return kv.ValueEntry{}, tikverr.ErrNotExist
}

// BatchGet has the snapshot's contract: missing keys have no entry.
func (s *c07MSnap) BatchGet(_ context.Context, keys [][]byte, _ ...kv.BatchGetOption) (map[string]kv.ValueEntry, error) {
	m := map[string]kv.ValueEntry{}
	for _, k := range keys {
		if v, ok := s.vals[string(k)]; ok {
			m[string(k)] = kv.NewValueEntry(v, 9)
		}
	}
	return m, nil
}

type c07MIter struct {
	s    *c07MSnap
	list [][]byte
	pos  int
}

func (it *c07MIter) Valid() bool   { return it.pos < len(it.list) }
func (it *c07MIter) Key() []byte   { return it.list[it.pos] }
func (it *c07MIter) Value() []byte { return it.s.vals[string(it.list[it.pos])] }
func (it *c07MIter) Next() error   { it.pos++; return nil }
func (it *c07MIter) Close()        {}

func (s *c07MSnap) Iter(k []byte, upperBound []byte) (unionstore.Iterator, error) {
	it := &c07MIter{s: s}
	for _, key := range s.keys {
		if (len(k) == 0 || bytes.Compare(key, k) >= 0) && (len(upperBound) == 0 || bytes.Compare(key, upperBound) < 0) {
			it.list = append(it.list, key)
		}
	}
	return it, nil
}

func (s *c07MSnap) IterReverse(k, lowerBound []byte) (unionstore.Iterator, error) {
	it := &c07MIter{s: s}
	for i := len(s.keys) - 1; i >= 0; i-- {
		key := s.keys[i]
		if (len(k) == 0 || bytes.Compare(key, k) < 0) && (len(lowerBound) == 0 || bytes.Compare(key, lowerBound) >= 0) {
			it.list = append(it.list, key)
		}
	}
	return it, nil
}

type c07BSUT struct {
	us   *unionstore.KVUnionStore
	snap *c07MSnap
}

func (s *c07BSUT) Get(k []byte) ([]byte, bool, error) {
	e, err := s.us.Get(context.Background(), k)
	if tikverr.IsErrNotFound(err) {
		return nil, false, nil
	}
	if err != nil {
		return nil, false, err
	}
	return e.Value, true, nil
}

func (s *c07BSUT) BatchGet(keys [][]byte) (map[string][]byte, error) {
	m, err := NewBufferBatchGetter(s.us.GetMemBuffer(), s.snap).BatchGet(context.Background(), keys)
	if err != nil {
		return nil, err
	}
	out := make(map[string][]byte, len(m))
	for k, e := range m {
		out[k] = e.Value
	}
	return out, nil
}

func (s *c07BSUT) Iter(k, upper []byte) (c07m.Iterator, error) {
	it, err := s.us.Iter(k, upper)
	if err != nil {
		return nil, err
	}
	return it, nil
}

func (s *c07BSUT) IterReverse(k, lower []byte) (c07m.Iterator, error) {
	it, err := s.us.IterReverse(k, lower)
	if err != nil {
		return nil, err
	}
	return it, nil
}

func (s *c07BSUT) Set(k, v []byte) error { return s.us.GetMemBuffer().Set(k, v) }
func (s *c07BSUT) Delete(k []byte) error { return s.us.GetMemBuffer().Delete(k) }
func (s *c07BSUT) Staging() int          { return s.us.GetMemBuffer().Staging() }
func (s *c07BSUT) Release(h int)         { s.us.GetMemBuffer().Release(h) }
func (s *c07BSUT) Cleanup(h int)         { s.us.GetMemBuffer().Cleanup(h) }
func (s *c07BSUT) Checkpoint() any       { return s.us.GetMemBuffer().Checkpoint() }
func (s *c07BSUT) Revert(cp any) {
	s.us.GetMemBuffer().RevertToCheckpoint(cp.(*unionstore.MemDBCheckpoint))
}
func (s *c07BSUT) Close() {}

func (s *c07BSUT) Lock(k []byte, persistent bool) error {
	if persistent {
		s.us.GetMemBuffer().UpdateFlags(k, kv.SetKeyLocked)
	} else {
		s.us.GetMemBuffer().UpdateFlags(k, kv.SetPresumeKeyNotExists)
	}
	return nil
}

func (s *c07BSUT) SetLocked(k, v []byte) error {
	return s.us.GetMemBuffer().SetWithFlags(k, v, kv.SetKeyLocked)
}

type c07BWorld struct{ snap *c07MSnap }

func (w *c07BWorld) NewSUT(_ *rand.Rand) (c07m.SUT, error) {
	return &c07BSUT{us: unionstore.NewUnionStore(unionstore.NewMemDB(), w.snap), snap: w.snap}, nil
}
func (w *c07BWorld) Close() {}

func TestVerifC07BatchGetter(t *testing.T) {
	log.ReplaceGlobals(zap.NewNop(), nil)
	r := vrep.New("C07", "c07-batchgetter", "BufferBatchGetter.BatchGet over the real buffer and a model snapshot equals the map model's merged view for every key list (duplicates, deleted, snapshot-only, absent keys) after every step; "+
		"distinct = distinct (key list, expected result) where at least one asked key is both buffered and in the snapshot")
	defer r.Finish(t)
	cfg := c07m.Config{Name: "batchgetter", Stream: "c07-batchgetter", Worlds: vrep.Pick(300, 20000), SeqsPerWorld: 3, Ops: 40, EmptyKey: true, BatchHeavy: true, Workers: vrep.Pick(4, 16)}
	c07m.RunRandom(r, cfg, func(snap map[string][]byte, _ [][]byte, _ *rand.Rand) (c07m.World, error) {
		s := &c07MSnap{vals: snap}
		for k := range snap {
			s.keys = append(s.keys, []byte(k))
		}
		sort.Slice(s.keys, func(i, j int) bool { return bytes.Compare(s.keys[i], s.keys[j]) < 0 })
		return &c07BWorld{snap: s}, nil
	})
	r.Floor("batchget_merging_both_sources", 500)
	r.Floor("batchget_duplicate_deleted_key", 50)
	r.Floor("revert_changed_view", 10)
	r.Floor("cleanup_changed_view", 10)
}
