//go:build verif

package rawkv

// C11 — raw KV operations behave as one ordered map regardless of region
// layout.  Shared machinery of the monitors:
//
//   * c11Env: one mocktikv cluster (2–3 stores, every region has a peer on
//     every store) + one MVCC store + several rawkv Clients, each with its own
//     region cache (so caches go stale independently) and its own RPC hook;
//   * c11RPC: wrapper around the mock RPC client.  Right before forwarding the
//     n-th request of the current client call it performs scripted topology
//     changes (split / merge / leader transfer through the Cluster API), i.e.
//     after the region lookup and between the partial requests of one call;
//     it also classifies the region errors coming back (observation only);
//   * c11Model: the reference — one sorted map per column family, not-found
//     is nil everywhere;
//   * ground truth: the content of the mock store read directly (RawScan over
//     the whole key space, no regions involved).

import (
	"bytes"
	"context"
	"fmt"
	"sort"
	"sync"
	"sync/atomic"
	"time"

	"github.com/pingcap/failpoint"
	"github.com/pingcap/kvproto/pkg/kvrpcpb"
	"github.com/pingcap/kvproto/pkg/metapb"
	"github.com/tikv/client-go/v2/internal/client"
	"github.com/tikv/client-go/v2/internal/locate"
	"github.com/tikv/client-go/v2/internal/mockstore/mocktikv"
	"github.com/tikv/client-go/v2/tikvrpc"
	"github.com/tikv/client-go/v2/util"
	"github.com/tikv/client-go/v2/util/async"
	"github.com/tikv/client-go/v2/verifh/vrep"
)

var c11Once sync.Once

// c11RepairEpochs: mocktikv's SplitRaw gives the new region version 1 and Merge
// only increments the surviving region's version, whereas TiKV lets both halves
// of a split carry parent.version+1 and a merged region max(v1,v2)+1.  The
// client's region cache relies on that rule to reject stale region info.  When
// the epoch probe finds the mock deviating (reported as a violation by
// TestVerifC11Probes), the harness restores the TiKV rule itself after every
// split/merge so that the remaining monitors can still run.
var c11RepairEpochs atomic.Bool

// c11NoProgress counts calls stopped by the request budget; after a few of
// them the sequential exploration is cut short (the verdict is "violated"
// anyway and every further such call costs a thousand requests).
var c11NoProgress atomic.Int64

// c11Init makes back-off sleeps logical (the budget is still accounted, only
// the wall-clock sleep is skipped), so the run does not depend on timing.
func c11Init() {
	c11Once.Do(func() {
		util.EnableFailpoints()
		if err := failpoint.Enable("tikvclient/fastBackoffBySkipSleep", `return`); err != nil {
			panic(err)
		}
		// The mock stores are always alive, but the client's liveness probe (run
		// after a send failure, e.g. one caused by the caller's expired
		// deadline) would dial the address "store1" over real gRPC and declare
		// the store unreachable for ever.  Answer it the way the existing
		// rawkv tests do.
		if err := failpoint.Enable("tikvclient/injectLiveness", `return("reachable")`); err != nil {
			panic(err)
		}
	})
}

func c11q(b []byte) string {
	if b == nil {
		return "nil"
	}
	return fmt.Sprintf("%q", b)
}

func c11qs(bs [][]byte) []string {
	out := make([]string, len(bs))
	for i, b := range bs {
		out[i] = c11q(b)
	}
	return out
}

// ------------------------------------------------------------------ key universe

// data keys: X, X\0, Xm for X in a..h;  extra bound / split candidates: Xa,
// "", "\0", "z", "\xff\xff".
var (
	c11DataKeys  [][]byte
	c11SplitKeys [][]byte // every data key and every Xa (never "")
	c11Bounds    [][]byte
	c11CFs       = []string{"", "CF_DEFAULT", "c11_cf"}
)

func init() {
	for _, l := range []byte("abcdefgh") {
		c11DataKeys = append(c11DataKeys, []byte{l}, []byte{l, 0}, []byte{l, 'm'})
		c11SplitKeys = append(c11SplitKeys, []byte{l}, []byte{l, 0}, []byte{l, 'a'}, []byte{l, 'm'})
	}
	c11Bounds = append(c11Bounds, c11SplitKeys...)
	c11Bounds = append(c11Bounds, []byte{}, []byte{0}, []byte("z"), []byte{0xff, 0xff})
}

// ------------------------------------------------------------------ model

type c11Model struct {
	cfs map[string]map[string][]byte
	// touched: keys that were the target of a put or delete at some time
	// (only used to name the input class in a violation signature)
	touched map[string]map[string]bool
	// ttl the caller gave with the last put of the key (0 = none)
	ttl map[string]map[string]uint64
}

func c11NewModel() *c11Model {
	m := &c11Model{cfs: map[string]map[string][]byte{}, touched: map[string]map[string]bool{}, ttl: map[string]map[string]uint64{}}
	for _, cf := range c11CFs {
		m.cfs[cf] = map[string][]byte{}
		m.touched[cf] = map[string]bool{}
		m.ttl[cf] = map[string]uint64{}
	}
	return m
}

func (m *c11Model) get(cf string, k []byte) ([]byte, bool) {
	v, ok := m.cfs[cf][string(k)]
	return v, ok
}

func (m *c11Model) put(cf string, k, v []byte) {
	m.cfs[cf][string(k)] = append([]byte{}, v...) // stored values are never nil
	m.touched[cf][string(k)] = true
}

func (m *c11Model) del(cf string, k []byte) {
	delete(m.cfs[cf], string(k))
	m.touched[cf][string(k)] = true
}

// keysIn returns the keys of [s,e) in ascending order; empty e = unbounded.
func (m *c11Model) keysIn(cf string, s, e []byte) [][]byte {
	var out [][]byte
	for k := range m.cfs[cf] {
		kb := []byte(k)
		if bytes.Compare(kb, s) >= 0 && (len(e) == 0 || bytes.Compare(kb, e) < 0) {
			out = append(out, kb)
		}
	}
	sort.Slice(out, func(i, j int) bool { return bytes.Compare(out[i], out[j]) < 0 })
	return out
}

func (m *c11Model) dump(cf string) map[string]string { return c11DumpMap(m.cfs[cf]) }

func c11DumpMap(kv map[string][]byte) map[string]string {
	out := map[string]string{}
	for k, v := range kv {
		if len(v) > 32 {
			out[c11q([]byte(k))] = fmt.Sprintf("%q...(%d bytes)", v[:32], len(v))
			continue
		}
		out[c11q([]byte(k))] = c11q(v)
	}
	return out
}

// ------------------------------------------------------------------ environment

type c11Env struct {
	mvcc    mocktikv.MVCCStore
	raw     mocktikv.RawKV
	cluster *mocktikv.Cluster
	nStores int

	mu sync.Mutex // serialises topology changes made by the harness

	clients []*Client
	hooks   []*c11RPC

	topoApplied atomic.Int64

	// Shadow TTL table: mocktikv drops the TTL of raw puts, so the hook keeps,
	// per column family and key, the TTL carried by the last put request the
	// store executed (what a TTL-aware store would have recorded).
	ttlMu    sync.Mutex
	ttl      map[string]map[string]uint64
	ttlError string // a malformed put request seen by the hook (ttls/pairs length mismatch)
}

func (e *c11Env) noteTTL(cf string, key []byte, ttl uint64) {
	e.ttlMu.Lock()
	if e.ttl == nil {
		e.ttl = map[string]map[string]uint64{}
	}
	if e.ttl[cf] == nil {
		e.ttl[cf] = map[string]uint64{}
	}
	e.ttl[cf][string(key)] = ttl
	e.ttlMu.Unlock()
}

func (e *c11Env) shadowTTL(cf string, key []byte) (uint64, bool) {
	e.ttlMu.Lock()
	defer e.ttlMu.Unlock()
	v, ok := e.ttl[cf][string(key)]
	return v, ok
}

func (e *c11Env) takeTTLError() string {
	e.ttlMu.Lock()
	defer e.ttlMu.Unlock()
	s := e.ttlError
	e.ttlError = ""
	return s
}

// observePut records the TTLs of a put request the store has executed.
func (e *c11Env) observePut(req *tikvrpc.Request, resp *tikvrpc.Response) {
	switch req.Type {
	case tikvrpc.CmdRawPut:
		if r, ok := resp.Resp.(*kvrpcpb.RawPutResponse); ok && r.GetError() == "" {
			p := req.RawPut()
			e.noteTTL(p.GetCf(), p.GetKey(), p.GetTtl())
		}
	case tikvrpc.CmdRawBatchPut:
		if r, ok := resp.Resp.(*kvrpcpb.RawBatchPutResponse); ok && r.GetError() == "" {
			p := req.RawBatchPut()
			// kvproto: one ttl applies to all pairs, otherwise one per pair;
			// without ttls the deprecated single ttl field applies
			if n := len(p.GetTtls()); n > 1 && n != len(p.GetPairs()) {
				e.ttlMu.Lock()
				e.ttlError = fmt.Sprintf("RawBatchPut request with %d pairs but %d ttls", len(p.GetPairs()), n)
				e.ttlMu.Unlock()
				return
			}
			for i, kv := range p.GetPairs() {
				ttl := p.GetTtl()
				switch len(p.GetTtls()) {
				case 0:
				case 1:
					ttl = p.GetTtls()[0]
				default:
					ttl = p.GetTtls()[i]
				}
				e.noteTTL(p.GetCf(), kv.GetKey(), ttl)
			}
		}
	}
}

func c11NewEnv(nStores int, splitKeys [][]byte, leaderOf func(i int) int, nClients int, atomicMode bool) *c11Env {
	c11Init()
	mvcc := mocktikv.MustNewMVCCStore()
	e := &c11Env{mvcc: mvcc, raw: mvcc.(mocktikv.RawKV), cluster: mocktikv.NewCluster(mvcc), nStores: nStores}
	mocktikv.BootstrapWithMultiStores(e.cluster, nStores)
	sorted := append([][]byte{}, splitKeys...)
	sort.Slice(sorted, func(i, j int) bool { return bytes.Compare(sorted[i], sorted[j]) < 0 })
	for i, k := range sorted {
		reg, _, _, _ := e.cluster.GetRegionByKey(k)
		e.splitLocked(reg, k, leaderOf(i))
	}
	// make every column family exist in the store (the mock creates them on
	// the first put; delete-range on a never-created one only logs an error)
	for _, cf := range c11CFs {
		e.raw.RawPut(cf, []byte("\x00c11-sentinel"), []byte("x"))
		e.raw.RawDelete(cf, []byte("\x00c11-sentinel"))
	}
	for i := 0; i < nClients; i++ {
		h := &c11RPC{inner: mocktikv.NewRPCClient(e.cluster, mvcc, nil), env: e}
		c := &Client{
			clusterID:   0,
			regionCache: locate.NewRegionCache(mocktikv.NewPDClient(e.cluster)),
			rpcClient:   h,
		}
		c.SetAtomicForCAS(atomicMode)
		e.clients = append(e.clients, c)
		e.hooks = append(e.hooks, h)
	}
	return e
}

func (e *c11Env) close() {
	for _, c := range e.clients {
		c.Close() // closes the region cache; the hook's Close leaves the shared store alone
	}
	e.mvcc.Close()
}

// regions walks the layout from "" to the end (clones, lock-safe).
func (e *c11Env) regions() []*metapb.Region {
	var out []*metapb.Region
	key := []byte{}
	for i := 0; i < 1000; i++ {
		r, _, _, _ := e.cluster.GetRegionByKey(key)
		if r == nil {
			break
		}
		out = append(out, r)
		if len(r.EndKey) == 0 {
			break
		}
		key = r.EndKey
	}
	return out
}

// layout describes the regions: "[start,end)@leaderStore ...".
func (e *c11Env) layout() []string {
	var out []string
	for _, r := range e.regions() {
		_, leader := e.cluster.GetRegion(r.Id)
		store := uint64(0)
		for _, p := range r.Peers {
			if p.Id == leader {
				store = p.StoreId
			}
		}
		out = append(out, fmt.Sprintf("r%d[%s,%s)v%d@s%d", r.Id, c11q(r.StartKey), c11q(r.EndKey), r.GetRegionEpoch().GetVersion(), store))
	}
	return out
}

func c11Inside(r *metapb.Region, k []byte) bool {
	return bytes.Compare(k, r.StartKey) > 0 && (len(r.EndKey) == 0 || bytes.Compare(k, r.EndKey) < 0)
}

func (e *c11Env) splitLocked(reg *metapb.Region, at []byte, lead int) bool {
	if reg == nil || !c11Inside(reg, at) {
		return false
	}
	newID := e.cluster.AllocID()
	peerIDs := e.cluster.AllocIDs(len(reg.Peers))
	if lead < 0 {
		lead = -lead
	}
	e.cluster.SplitRaw(reg.Id, newID, at, peerIDs, peerIDs[lead%len(peerIDs)])
	if c11RepairEpochs.Load() {
		e.raiseVersion(newID, reg.GetRegionEpoch().GetVersion()+1)
	}
	return true
}

func (e *c11Env) mergeLocked(left, right *metapb.Region) {
	e.cluster.Merge(left.Id, right.Id)
	if c11RepairEpochs.Load() {
		v := left.GetRegionEpoch().GetVersion()
		if rv := right.GetRegionEpoch().GetVersion(); rv > v {
			v = rv
		}
		e.raiseVersion(left.Id, v+1)
	}
}

// raiseVersion sets the region's version to at least ver (under the cluster's
// own lock; Cluster embeds its RWMutex).
func (e *c11Env) raiseVersion(regionID, ver uint64) {
	e.cluster.Lock()
	defer e.cluster.Unlock()
	for _, r := range e.cluster.GetAllRegions() {
		if r.Meta.GetId() == regionID && r.Meta.GetRegionEpoch().GetVersion() < ver {
			r.Meta.RegionEpoch = &metapb.RegionEpoch{ConfVer: r.Meta.GetRegionEpoch().GetConfVer(), Version: ver}
		}
	}
}

// c11Act is one scripted topology change.
type c11Act struct {
	At     int    `json:"at"`     // performed right before forwarding the At-th request (0-based) of the client call
	Kind   string `json:"kind"`   // split | merge-right | merge-left | leader
	Target bool   `json:"target"` // act on the region the request is addressed to (else on the region containing Key)
	Key    string `json:"key"`    // split key / locating key (raw bytes)
	Lead   int    `json:"lead"`   // which peer leads the new region / receives the leadership
}

// apply performs the action on the current layout and returns a description
// ("" when the action was not applicable, e.g. merge-right on the last region).
func (e *c11Env) apply(a c11Act, target uint64) string {
	e.mu.Lock()
	defer e.mu.Unlock()
	var reg *metapb.Region
	if a.Target && target != 0 {
		reg, _ = e.cluster.GetRegion(target)
	}
	if reg == nil {
		reg, _, _, _ = e.cluster.GetRegionByKey([]byte(a.Key))
	}
	if reg == nil {
		return ""
	}
	kind := a.Kind
	if kind == "split" && len(e.regions()) >= 7 {
		kind = "merge-right"
	}
	desc := ""
	switch kind {
	case "split":
		at := []byte(a.Key)
		if !c11Inside(reg, at) {
			var cands [][]byte
			for _, k := range c11SplitKeys {
				if c11Inside(reg, k) {
					cands = append(cands, k)
				}
			}
			if len(cands) == 0 {
				break
			}
			at = cands[a.Lead%len(cands)]
		}
		if e.splitLocked(reg, at, a.Lead) {
			desc = "split"
		}
	case "merge-right":
		if len(reg.EndKey) == 0 {
			break
		}
		next, _, _, _ := e.cluster.GetRegionByKey(reg.EndKey)
		if next == nil {
			break
		}
		e.mergeLocked(reg, next)
		desc = "merge-right"
	case "merge-left":
		if len(reg.StartKey) == 0 {
			break
		}
		prev, _, _, _ := e.cluster.GetPrevRegionByKey(reg.StartKey)
		if prev == nil {
			break
		}
		e.mergeLocked(prev, reg)
		desc = "merge-left"
	}
	if desc == "" {
		// fall back to (or asked for) a leader transfer
		_, leader := e.cluster.GetRegion(reg.Id)
		var others []uint64
		for _, p := range reg.Peers {
			if p.Id != leader {
				others = append(others, p.Id)
			}
		}
		if len(others) == 0 {
			return ""
		}
		e.cluster.ChangeLeader(reg.Id, others[a.Lead%len(others)])
		desc = "leader"
	}
	e.topoApplied.Add(1)
	return desc
}

// storeDump reads the whole column family straight from the mock store.
func (e *c11Env) storeDump(cf string) map[string][]byte {
	out := map[string][]byte{}
	for _, p := range e.raw.RawScan(cf, nil, nil, 1<<30) {
		out[string(p.Key)] = p.Value
	}
	return out
}

// ------------------------------------------------------------------ per-call context

// c11CtxPlan says what happens to the context of one client call.
type c11CtxPlan struct {
	Kind    string `json:"kind"`    // "" / "bg": stays live; "cancel-after": cancelled right after the call returned; "cancel-at" / "deadline-at": ends during the call
	At      int    `json:"at"`      // ...at the At-th RPC (0-based) of the call
	Deliver bool   `json:"deliver"` // true: that RPC is executed and answered, the context has ended when the answer arrives; false: it is not delivered
}

func (p c11CtxPlan) name() string {
	if p.Kind == "" {
		return "bg"
	}
	return p.Kind
}

func (p c11CtxPlan) during() bool { return p.Kind == "cancel-at" || p.Kind == "deadline-at" }

type c11CallKey struct{}

// c11Ctx is the context of one client call.  It ends when the harness says so
// (a logical point: the n-th RPC of the call), either as a cancellation or as
// an expired deadline (Err() == context.DeadlineExceeded), never by a timer.
// The hook finds the call's state through Value(c11CallKey{}) on the derived
// contexts the client passes down, so calls of concurrent goroutines over one
// client are told apart.
type c11Ctx struct {
	plan c11CtxPlan
	n    atomic.Int32 // RPCs of this call seen by the hook

	mu       sync.Mutex
	done     chan struct{}
	err      error
	deadline time.Time
	after    map[int]func()
	afterN   int
	endedAt  int // RPC index at which the plan ended the context (-1: not by the plan)
}

func c11NewCtx(plan c11CtxPlan) *c11Ctx {
	c := &c11Ctx{plan: plan, done: make(chan struct{}), endedAt: -1, after: map[int]func(){}}
	if plan.Kind == "deadline-at" {
		c.deadline = time.Now().Add(time.Hour) // moved to "now" when the harness lets it expire
	}
	return c
}

func (c *c11Ctx) Deadline() (time.Time, bool) {
	c.mu.Lock()
	defer c.mu.Unlock()
	return c.deadline, !c.deadline.IsZero()
}
func (c *c11Ctx) Done() <-chan struct{} { return c.done }
func (c *c11Ctx) Err() error {
	c.mu.Lock()
	defer c.mu.Unlock()
	return c.err
}
func (c *c11Ctx) Value(key any) any {
	if _, ok := key.(c11CallKey); ok {
		return c
	}
	return nil
}

// AfterFunc lets derived standard contexts be cancelled synchronously when
// this one ends (context.WithCancel/WithTimeout use it when the parent has it).
func (c *c11Ctx) AfterFunc(f func()) (stop func() bool) {
	c.mu.Lock()
	if c.err != nil {
		c.mu.Unlock()
		go f()
		return func() bool { return false }
	}
	id := c.afterN
	c.afterN++
	c.after[id] = f
	c.mu.Unlock()
	return func() bool {
		c.mu.Lock()
		defer c.mu.Unlock()
		_, ok := c.after[id]
		delete(c.after, id)
		return ok
	}
}

// end ends the context (idempotent); atRPC >= 0 records that the plan did it.
func (c *c11Ctx) end(err error, atRPC int) {
	c.mu.Lock()
	if c.err != nil {
		c.mu.Unlock()
		return
	}
	c.err = err
	if err == context.DeadlineExceeded {
		c.deadline = time.Now()
	}
	c.endedAt = atRPC
	fs := c.after
	c.after = map[int]func(){}
	close(c.done)
	c.mu.Unlock()
	for _, f := range fs {
		f()
	}
}

func (c *c11Ctx) endByPlan(atRPC int) {
	if c.plan.Kind == "deadline-at" {
		c.end(context.DeadlineExceeded, atRPC)
	} else {
		c.end(context.Canceled, atRPC)
	}
}

func (c *c11Ctx) endedDuring() (bool, int) {
	c.mu.Lock()
	defer c.mu.Unlock()
	return c.endedAt >= 0, c.endedAt
}

// ------------------------------------------------------------------ RPC hook

type c11RPC struct {
	inner *mocktikv.RPCClient
	env   *c11Env

	mu      sync.Mutex
	script  []c11Act
	n       int
	fired   []string // "kind@n"
	midCall int      // actions fired at n>=1
	rerrs   map[string]int
	// logical progress bound of one client call (armed calls only): no call on
	// <= 2500 keys over <= 7 regions with <= 3 topology changes needs that many
	// requests; beyond it the hook cancels the call's context and fails requests
	armed      bool
	overBudget bool
	call       *c11Ctx
}

const c11RequestBudget = 1000

var _ client.Client = (*c11RPC)(nil)

// arm starts a monitored client call; the returned context must be used for it.
func (h *c11RPC) arm(script []c11Act, plan c11CtxPlan) *c11Ctx {
	ctx := c11NewCtx(plan)
	h.mu.Lock()
	h.script, h.n, h.fired, h.midCall, h.rerrs = script, 0, nil, 0, map[string]int{}
	h.armed, h.overBudget, h.call = true, false, ctx
	h.mu.Unlock()
	return ctx
}

type c11CallObs struct {
	Requests   int            `json:"requests"`
	Fired      []string       `json:"fired"`
	MidCall    int            `json:"mid_call"`
	RegionErrs map[string]int `json:"region_errors"`
	OverBudget bool           `json:"over_request_budget,omitempty"`
	CtxEnded   bool           `json:"context_ended_during_call,omitempty"`
	CtxEndedAt int            `json:"context_ended_at_rpc,omitempty"`
}

func (h *c11RPC) disarm() c11CallObs {
	h.mu.Lock()
	defer h.mu.Unlock()
	o := c11CallObs{Requests: h.n, Fired: h.fired, MidCall: h.midCall, RegionErrs: h.rerrs, OverBudget: h.overBudget}
	h.script, h.fired, h.rerrs = nil, nil, map[string]int{}
	if h.call != nil {
		o.CtxEnded, o.CtxEndedAt = h.call.endedDuring()
		h.call.end(context.Canceled, -1) // releases everything derived from it
	}
	h.armed, h.call = false, nil
	return o
}

func (h *c11RPC) Close() error                                         { return nil }
func (h *c11RPC) CloseAddr(addr string) error                          { return nil }
func (h *c11RPC) SetEventListener(listener client.ClientEventListener) {}

func (h *c11RPC) SendRequestAsync(ctx context.Context, addr string, req *tikvrpc.Request, cb async.Callback[*tikvrpc.Response]) {
	go func() {
		cb.Schedule(h.SendRequest(ctx, addr, req, 0))
	}()
}

func (h *c11RPC) SendRequest(ctx context.Context, addr string, req *tikvrpc.Request, timeout time.Duration) (*tikvrpc.Response, error) {
	h.mu.Lock()
	idx := h.n
	h.n++
	if h.armed && idx >= c11RequestBudget {
		h.overBudget = true
		if h.call != nil {
			h.call.end(context.Canceled, -1)
		}
		h.mu.Unlock()
		return nil, context.Canceled
	}
	var acts []c11Act
	for _, a := range h.script {
		if a.At == idx {
			acts = append(acts, a)
		}
	}
	h.mu.Unlock()
	for _, a := range acts {
		if d := h.env.apply(a, req.Context.GetRegionId()); d != "" {
			h.mu.Lock()
			h.fired = append(h.fired, fmt.Sprintf("%s@%d", d, idx))
			if idx >= 1 {
				h.midCall++
			}
			h.mu.Unlock()
		}
	}
	// the context discipline of the call this request belongs to
	var endAfter *c11Ctx
	if cc, ok := ctx.Value(c11CallKey{}).(*c11Ctx); ok && cc != nil {
		i := int(cc.n.Add(1)) - 1
		if cc.plan.during() && i == cc.plan.At {
			if !cc.plan.Deliver {
				cc.endByPlan(i)
				return nil, cc.Err() // not delivered
			}
			endAfter = cc
		}
	}
	resp, err := h.inner.SendRequest(ctx, addr, req, timeout)
	if endAfter != nil {
		endAfter.endByPlan(endAfter.plan.At) // executed and answered, but the caller's context has ended meanwhile
	}
	if err == nil && resp != nil && resp.Resp != nil {
		if re, _ := resp.GetRegionError(); re == nil {
			h.env.observePut(req, resp)
		} else {
			kind := "other"
			switch {
			case re.GetEpochNotMatch() != nil:
				kind = "epoch_not_match"
			case re.GetNotLeader() != nil:
				kind = "not_leader"
			case re.GetRegionNotFound() != nil:
				kind = "region_not_found"
			case re.GetStoreNotMatch() != nil:
				kind = "store_not_match"
			}
			h.mu.Lock()
			if h.rerrs == nil {
				h.rerrs = map[string]int{}
			}
			h.rerrs[kind]++
			h.mu.Unlock()
		}
	}
	return resp, err
}

// ------------------------------------------------------------------ misc

func c11Recover(r *vrep.Report, what string, detail func() any, f func()) (panicked bool) {
	defer func() {
		if p := recover(); p != nil {
			panicked = true
			r.Violate("panic:"+what, fmt.Sprintf("%s panicked: %v", what, p), detail())
		}
	}()
	f()
	return false
}
