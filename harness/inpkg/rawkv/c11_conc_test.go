//go:build verif

package rawkv

// C11, concurrent monitor: several goroutines (over clients with separate
// region caches, all in atomic mode) do get/put/delete/CAS with unique values
// on a handful of keys while a chaos goroutine splits/merges regions and moves
// leaders.  The history is recorded at the client boundary (call / return
// numbers from one atomic counter) and checked for linearizability per key
// with porcupine.  An operation that returned an error "maybe happened".

import (
	"bytes"
	"context"
	"fmt"
	"math"
	"runtime"
	"sort"
	"strings"
	"sync"
	"sync/atomic"
	"testing"
	"time"

	"github.com/anishathalye/porcupine"
	"github.com/tikv/client-go/v2/verifh/vrep"
)

type c11KVState struct {
	Present bool
	V       string
}

type c11KVIn struct {
	Kind    string // get put delete cas
	V       string // put / cas new value
	PrevNil bool   // cas: previous value must not exist
	Prev    string
}

type c11KVOut struct {
	Unknown bool // the call returned an error: it may or may not have taken effect
	Present bool // get: found / cas: previous value existed
	V       string
	Swapped bool
}

var c11KVModel = porcupine.Model{
	Init: func() interface{} { return c11KVState{} },
	Step: func(state, input, output interface{}) (bool, interface{}) {
		st, in, out := state.(c11KVState), input.(c11KVIn), output.(c11KVOut)
		switch in.Kind {
		case "get":
			return out.Present == st.Present && (!st.Present || out.V == st.V), st
		case "put":
			return true, c11KVState{true, in.V}
		case "delete":
			return true, c11KVState{}
		case "cas":
			match := st.Present && !in.PrevNil && st.V == in.Prev
			if in.PrevNil {
				match = !st.Present
			}
			next := st
			if match {
				next = c11KVState{true, in.V}
			}
			if out.Unknown {
				return true, next
			}
			ok := out.Swapped == match && out.Present == st.Present && (!st.Present || out.V == st.V)
			return ok, next
		}
		return false, st
	},
	Equal: func(a, b interface{}) bool { return a.(c11KVState) == b.(c11KVState) },
	DescribeOperation: func(input, output interface{}) string {
		return fmt.Sprintf("%+v -> %+v", input, output)
	},
}

type c11HistOp struct {
	Worker int      `json:"worker"`
	Key    string   `json:"key"`
	In     c11KVIn  `json:"in"`
	Out    c11KVOut `json:"out"`
	Call   int64    `json:"call"`
	Ret    int64    `json:"ret"`
	Err    string   `json:"err,omitempty"`
}

func c11ConcRound(t *testing.T, r *vrep.Report, round int) {
	rng := vrep.Rand(fmt.Sprintf("c11-conc-%d", round))
	nStores := 2 + rng.Intn(2)
	// a handful of keys, some of them adjacent / on (future) region borders
	pool := [][]byte{[]byte("b"), []byte("b\x00"), []byte("c"), []byte("cm"), []byte("d"), []byte("f")}
	perm := rng.Perm(len(pool))
	nKeys := 3 + rng.Intn(2)
	var keys [][]byte
	for i := 0; i < nKeys; i++ {
		keys = append(keys, pool[perm[i]])
	}
	var splits [][]byte
	if rng.Intn(2) == 0 {
		splits = append(splits, keys[rng.Intn(len(keys))])
	}
	const nClients = 3
	const workersPerClient = 2
	nWorkers := nClients * workersPerClient
	opsPerWorker := vrep.Pick(30, 40)
	env := c11NewEnv(nStores, splits, func(int) int { return rng.Intn(3) }, nClients, true)
	defer env.close()
	t.Logf("[c11] concurrent round %d: stores=%d keys=%v layout=%v", round, nStores, c11qs(keys), env.layout())
	r.Flush()

	type plan struct {
		key  int
		kind string
		prev int // cas: 0 = last value this worker observed, 1 = not-exist, 2 = a value nobody wrote
		ctx  c11CtxPlan
	}
	plans := make([][]plan, nWorkers)
	for w := range plans {
		for i := 0; i < opsPerWorker; i++ {
			p := plan{key: rng.Intn(len(keys))}
			switch x := rng.Intn(20); {
			case x < 7:
				p.kind = "get"
			case x < 12:
				p.kind = "put"
			case x < 14:
				p.kind = "delete"
			default:
				p.kind = "cas"
				p.prev = []int{0, 0, 0, 1, 1, 2}[rng.Intn(6)]
			}
			switch x := rng.Intn(20); {
			case x < 13:
			case x < 14:
				p.ctx = c11CtxPlan{Kind: "cancel-after"}
			case x < 17:
				p.ctx = c11CtxPlan{Kind: "cancel-at"}
			default:
				p.ctx = c11CtxPlan{Kind: "deadline-at"}
			}
			if p.ctx.during() {
				p.ctx.At = []int{0, 0, 0, 1, 1, 2}[rng.Intn(6)]
				p.ctx.Deliver = rng.Intn(2) == 0
			}
			plans[w] = append(plans[w], p)
		}
	}
	// chaos script: determined by the seed; paced by completed operations, not by time
	type chaosStep struct {
		after int64
		act   c11Act
	}
	var chaos []chaosStep
	total := int64(nWorkers * opsPerWorker)
	for at := int64(1 + rng.Intn(3)); at < total; at += int64(1 + rng.Intn(5)) {
		a := c11Act{Lead: rng.Intn(3)}
		switch x := rng.Intn(10); {
		case x < 4:
			a.Kind = "split"
		case x < 6:
			a.Kind = "merge-right"
		case x < 7:
			a.Kind = "merge-left"
		default:
			a.Kind = "leader"
		}
		if rng.Intn(3) > 0 {
			a.Key = string(keys[rng.Intn(len(keys))])
			if a.Kind == "split" && rng.Intn(2) == 0 {
				a.Key += "\x00" // right after the key
			}
		} else {
			a.Key = string(c11SplitKeys[rng.Intn(len(c11SplitKeys))])
		}
		chaos = append(chaos, chaosStep{after: at, act: a})
	}

	var clock, done atomic.Int64
	var mu sync.Mutex
	var hist []c11HistOp
	var wg sync.WaitGroup
	for w := 0; w < nWorkers; w++ {
		w := w
		wg.Add(1)
		go func() {
			defer wg.Done()
			c := env.clients[w%nClients]
			last := make([]*string, len(keys)) // last value this worker saw per key (nil = absent/unknown)
			for i, p := range plans[w] {
				k := keys[p.key]
				h := c11HistOp{Worker: w, Key: string(k), In: c11KVIn{Kind: p.kind}}
				val := fmt.Sprintf("w%d.%d", w, i)
				var err error
				ctx := c11NewCtx(p.ctx) // the hook finds the call's context discipline through the derived contexts
				func() {
					defer func() {
						if pv := recover(); pv != nil {
							err = fmt.Errorf("panic: %v", pv)
							r.Violate("panic:concurrent-"+p.kind, fmt.Sprintf("%s(%s) panicked: %v", p.kind, c11q(k), pv), map[string]any{"round": round})
						}
					}()
					switch p.kind {
					case "get":
						h.Call = clock.Add(1)
						var v []byte
						v, err = c.Get(ctx, k)
						h.Ret = clock.Add(1)
						if err == nil {
							h.Out = c11KVOut{Present: v != nil, V: string(v)}
							if v != nil {
								s := string(v)
								last[p.key] = &s
							} else {
								last[p.key] = nil
							}
						}
					case "put":
						h.In.V = val
						h.Call = clock.Add(1)
						err = c.Put(ctx, k, []byte(val))
						h.Ret = clock.Add(1)
						if err == nil {
							last[p.key] = &val
						}
					case "delete":
						h.Call = clock.Add(1)
						err = c.Delete(ctx, k)
						h.Ret = clock.Add(1)
						if err == nil {
							last[p.key] = nil
						}
					case "cas":
						h.In.V = val
						var prev []byte
						switch {
						case p.prev == 1 || (p.prev == 0 && last[p.key] == nil):
							h.In.PrevNil = true
						case p.prev == 0:
							h.In.Prev = *last[p.key]
							prev = []byte(h.In.Prev)
						default:
							h.In.Prev = "nobody-wrote-this"
							prev = []byte(h.In.Prev)
						}
						h.Call = clock.Add(1)
						var old []byte
						var swapped bool
						old, swapped, err = c.CompareAndSwap(ctx, k, prev, []byte(val))
						h.Ret = clock.Add(1)
						if err == nil {
							h.Out = c11KVOut{Present: old != nil, V: string(old), Swapped: swapped}
							if swapped {
								last[p.key] = &val
							} else if old != nil {
								s := string(old)
								last[p.key] = &s
							} else {
								last[p.key] = nil
							}
						}
					}
				}()
				if p.ctx.Kind == "cancel-after" {
					ctx.end(context.Canceled, -1)
				}
				ended, _ := ctx.endedDuring()
				ctx.end(context.Canceled, -1)
				r.Count("conc_ctx_"+p.ctx.name()+"_calls", 1)
				if ended {
					r.Count("conc_ctx_"+p.ctx.name()+"_ended_during_call", 1)
					if err != nil {
						r.Count("conc_ctx_"+p.ctx.name()+"_call_failed", 1)
					}
				}
				if err != nil {
					h.Err = err.Error()
					h.Out = c11KVOut{Unknown: true}
					r.Count("conc_op_errors", 1)
					if !ended {
						r.Count("conc_op_errors_with_live_context", 1)
					}
				}
				mu.Lock()
				hist = append(hist, h)
				mu.Unlock()
				done.Add(1)
			}
		}()
	}
	// chaos goroutine
	stop := make(chan struct{})
	var cwg sync.WaitGroup
	cwg.Add(1)
	var chaosApplied int
	go func() {
		defer cwg.Done()
		for _, st := range chaos {
			for done.Load() < st.after {
				select {
				case <-stop:
					return
				default:
				}
				runtime.Gosched()
			}
			if env.apply(st.act, 0) != "" {
				chaosApplied++
			}
		}
	}()
	wg.Wait()
	close(stop)
	cwg.Wait()
	r.Count("conc_topology_changes", chaosApplied)
	for _, h := range env.hooks {
		o := h.disarm()
		for k, n := range o.RegionErrs {
			r.Count("conc_region_error_"+k, n)
			r.Count("conc_region_errors", n)
		}
		r.Count("conc_rpc_requests", o.Requests)
	}
	// final reads, after everything returned
	final := map[string]c11KVOut{}
	for _, k := range keys {
		v := env.raw.RawGet("", k)
		final[string(k)] = c11KVOut{Present: v != nil, V: string(v)}
		cv, err := env.clients[0].Get(context.Background(), k)
		if err == nil && ((cv == nil) != (v == nil) || !bytes.Equal(cv, v)) {
			r.Violate("get:final-read-differs-from-store", fmt.Sprintf("after the round Get(%s)=%s but the store holds %s", c11q(k), c11q(cv), c11q(v)), map[string]any{"round": round})
		}
	}
	endOfTime := clock.Add(1)
	byKey := map[string][]c11HistOp{}
	for _, h := range hist {
		byKey[h.Key] = append(byKey[h.Key], h)
	}
	for _, k := range keys {
		ops := byKey[string(k)]
		var pops []porcupine.Operation
		var shape []string
		nErr := 0
		for _, h := range ops {
			if h.Out.Unknown {
				nErr++
				if h.In.Kind == "get" {
					continue // a failed read has no effect and no result
				}
				pops = append(pops, porcupine.Operation{ClientId: h.Worker, Input: h.In, Call: h.Call, Output: h.Out, Return: math.MaxInt64 - 1})
				continue
			}
			pops = append(pops, porcupine.Operation{ClientId: h.Worker, Input: h.In, Call: h.Call, Output: h.Out, Return: h.Ret})
		}
		// the store content after the round, as a read that starts after every return
		pops = append(pops, porcupine.Operation{ClientId: nWorkers, Input: c11KVIn{Kind: "get"}, Call: endOfTime + 1, Output: final[string(k)], Return: endOfTime + 2})
		sort.Slice(ops, func(i, j int) bool { return ops[i].Call < ops[j].Call })
		for _, h := range ops {
			res := "ok"
			switch {
			case h.Out.Unknown:
				res = "err"
			case h.In.Kind == "cas" && !h.Out.Swapped:
				res = "noswap"
			case h.In.Kind == "get" && !h.Out.Present:
				res = "nil"
			}
			shape = append(shape, fmt.Sprintf("%d%s:%s", h.Worker, h.In.Kind, res))
		}
		res := porcupine.CheckOperationsTimeout(c11KVModel, pops, 60*time.Second)
		r.Eval(1)
		r.Count("histories_checked", 1)
		r.Count("conc_ops", len(ops))
		r.Distinct(strings.Join(shape, " "))
		switch res {
		case porcupine.Ok:
		case porcupine.Unknown:
			r.Inconc("round %d key %s: linearizability check timed out (%d ops)", round, c11q(k), len(pops))
		default:
			r.Violate("linearizability:get-put-delete-cas", fmt.Sprintf("round %d: the history of key %s (%d ops, %d with errors) is not linearizable as a register with CAS", round, c11q(k), len(ops), nErr),
				map[string]any{"round": round, "key": c11q(k), "history": ops, "final": final[string(k)], "layout_after": env.layout()})
		}
		if r.SampleN() < 3 && len(ops) > 0 {
			n := len(ops)
			if n > 12 {
				n = 12
			}
			r.Sample(map[string]any{"round": round, "key": c11q(k), "history_head": ops[:n], "ops": len(ops), "final": final[string(k)]})
		}
	}
}

func TestVerifC11Concurrent(t *testing.T) {
	r := vrep.New("C11", "c11-conc", "6 goroutines over 3 clients (separate region caches, atomic mode) do get/put/delete/CAS with unique values on 3-4 keys while a chaos goroutine splits/merges regions and moves leaders (paced by completed operations); 35% of the calls run under a context that is cancelled right after the call or ends (cancel / deadline) at the n-th RPC of that call; call/return order from one atomic counter; per-key history (+ the final store content as a last read) checked for linearizability with porcupine, errors = maybe happened, checker time-out = inconclusive; distinct = distinct per-key histories (sequence of worker/op/outcome in call order)")
	defer r.Finish(t)
	c11Probe()
	rounds := vrep.Pick(150, 3000)
	for i := 0; i < rounds; i++ {
		c11ConcRound(t, r, i)
	}
	r.Floor("histories_checked", rounds*3)
	r.Floor("conc_ops", rounds*100)
	r.Floor("conc_topology_changes", rounds*5)
	r.Floor("conc_region_errors", rounds)
	r.Floor("conc_ctx_cancel-at_ended_during_call", rounds*5)
	r.Floor("conc_ctx_deadline-at_ended_during_call", rounds*5)
	r.Floor("conc_ctx_cancel-after_calls", rounds*3)
}
