//go:build verif

package rawkv

// C11, deterministic probes (independent of VERIF_SEED): facts about the
// back-end the other monitors depend on, and a fixed table of the semantic
// corner cases (not-found = nil in Get and BatchGet, CAS with
// previous-value-not-exist, empty values) run through the same oracle as the
// generated sequences.

import (
	"context"
	"fmt"
	"sync"
	"testing"

	"github.com/tikv/client-go/v2/verifh/vrep"
)

var (
	c11ProbeOnce sync.Once
	// c11ChecksumCF is the column family the back-end's raw checksum reads
	// (the Checksum API cannot name one): "" = the default one, "-" unknown.
	c11ChecksumCF = "-"
	// c11EpochProbeErr is non-nil when a call on a perfectly valid layout
	// failed because the region cache rejects the (correct) region info.
	c11EpochProbeErr    error
	c11EpochProbeDetail map[string]any
)

func c11Probe() {
	c11ProbeOnce.Do(func() {
		c11EpochProbeErr, c11EpochProbeDetail = c11EpochProbe()
		if c11EpochProbeErr != nil {
			c11RepairEpochs.Store(true)
		}
		c11ChecksumCF = c11ProbeChecksumCF()
	})
}

// c11EpochProbe: the client has cached region B=[d,e) at version 2; then A
// and B are merged and the result is split at "b".  A request for "c" must be
// served by the new region [b,e).  The region cache treats region info whose
// version is lower than that of an overlapping cached region as stale — valid
// on TiKV, where split children carry parent.version+1 and a merged region
// max(v1,v2)+1 — so a back-end that restarts the version of a new region makes
// the lookup fail until the back-off budget is used up.
func c11EpochProbe() (error, map[string]any) {
	env := c11NewEnv(2, nil, func(int) int { return 0 }, 1, false)
	defer env.close()
	ctx := context.Background()
	c := env.clients[0]
	reg := func(k string) (string, uint64) {
		r, _, _, _ := env.cluster.GetRegionByKey([]byte(k))
		return fmt.Sprintf("r%d[%s,%s)v%d", r.Id, c11q(r.StartKey), c11q(r.EndKey), r.GetRegionEpoch().GetVersion()), r.Id
	}
	var steps []string
	note := func(f string, a ...any) { steps = append(steps, fmt.Sprintf(f, a...)) }
	r1, _, _, _ := env.cluster.GetRegionByKey([]byte(""))
	env.splitLocked(r1, []byte("d"), 0)
	r2, _, _, _ := env.cluster.GetRegionByKey([]byte("d"))
	env.splitLocked(r2, []byte("e"), 0)
	note("layout %v", env.layout())
	if _, err := c.Get(ctx, []byte("d")); err != nil {
		return nil, nil // not this probe's business
	}
	if _, err := c.Get(ctx, []byte("a")); err != nil {
		return nil, nil
	}
	note("client looked up \"d\" and \"a\"")
	a, _, _, _ := env.cluster.GetRegionByKey([]byte("a"))
	b, _, _, _ := env.cluster.GetRegionByKey([]byte("d"))
	env.mergeLocked(a, b)
	note("merged: %v", env.layout())
	a, _, _, _ = env.cluster.GetRegionByKey([]byte("a"))
	env.splitLocked(a, []byte("b"), 0)
	note("split at \"b\": %v", env.layout())
	desc, _ := reg("c")
	env.raw.RawPut("", []byte("c"), []byte("x"))
	v, err := c.Get(ctx, []byte("c"))
	if err == nil && string(v) == "x" {
		return nil, nil
	}
	if err == nil {
		err = fmt.Errorf("Get(\"c\") = %s, want \"x\"", c11q(v))
	}
	return err, map[string]any{"steps": steps, "region_of_c": desc}
}

// c11ProbeChecksumCF finds the column family the back-end's checksum reads.
func c11ProbeChecksumCF() string {
	env := c11NewEnv(2, nil, func(int) int { return 0 }, 1, false)
	defer env.close()
	for _, cf := range c11CFs {
		env.raw.RawPut(cf, []byte("probe"), []byte("x"))
		sum, err := env.clients[0].Checksum(context.Background(), nil, nil)
		env.raw.RawDelete(cf, []byte("probe"))
		if err == nil && sum.TotalKvs == 1 {
			return cf
		}
	}
	return "-"
}

func TestVerifC11Probes(t *testing.T) {
	r := vrep.New("C11", "c11-probes", "deterministic probes: (1) a lookup after merge+split of regions the client has cached must succeed; (2) which column family the back-end's checksum reads; (3) a fixed table of semantic corner cases (not-found is nil in Get/BatchGet incl. duplicates, CAS with previous-not-exist on absent / present / empty-valued keys, CAS with a value on an absent key, empty values, scan/delete-range ending exactly on region borders) on 1, 3 and 5 regions, each judged by the same oracle as the generated sequences; distinct = distinct (layout, table row)")
	defer r.Finish(t)
	c11Probe()
	r.Eval(1)
	if c11EpochProbeErr != nil {
		r.Violate("topology:lookup-fails-after-merge-and-split", fmt.Sprintf("Get(\"c\") on a valid layout failed after the regions around it were merged and split again: %v — the back-end gives the new region of a split version 1 (TiKV: parent version+1; merge: max+1), which the region cache rejects as stale; the harness now restores TiKV's epoch rule itself after every split/merge so that the other monitors can run", c11EpochProbeErr), c11EpochProbeDetail)
	}
	r.Count("epoch_repair_by_harness", map[bool]int{true: 1, false: 0}[c11RepairEpochs.Load()])
	if c11ChecksumCF == "-" {
		r.Inconc("could not determine which column family the back-end's checksum reads; checksum results are not compared")
	} else {
		r.Assume(fmt.Sprintf("Checksum has no column family parameter; this back-end computes it over column family %q, and the oracle compares it with the model of that column family", c11ChecksumCF))
	}

	k := func(s string) [][]byte { return [][]byte{[]byte(s)} }
	for li, splits := range [][]string{nil, {"c", "e"}, {"b", "c", "c\x00", "em"}} {
		for _, atomicMode := range []bool{true, false} {
			var sp [][]byte
			for _, s := range splits {
				sp = append(sp, []byte(s))
			}
			env := c11NewEnv(3, sp, func(i int) int { return i }, 2, atomicMode)
			m := c11NewModel()
			s := &c11Seq{t: t, r: r, env: env, m: m, stream: "c11-table", seq: li, nStores: 3, atomic: atomicMode}
			for _, cf := range c11CFs {
				via := ""
				if cf != "" {
					via = "option"
				}
				ops := []*c11Op{
					{Kind: "batchput", Keys: [][]byte{[]byte("a"), []byte("c"), []byte("e"), []byte("a")}, Vals: [][]byte{[]byte("1"), []byte("2"), []byte("3"), []byte("4")}},
					{Kind: "get", Keys: k("a")},
					{Kind: "get", Keys: k("b")},
					{Kind: "batchget", Keys: [][]byte{[]byte("a"), []byte("b"), []byte("e"), []byte("b"), []byte("zz"), []byte("a")}},
					{Kind: "put", Keys: k("d"), Vals: [][]byte{{}}},
					{Kind: "get", Keys: k("d")},
					{Kind: "batchget", Keys: [][]byte{[]byte("d"), []byte("dd")}},
					{Kind: "scan", Start: []byte("a"), End: []byte("c"), Limit: 10},
					{Kind: "scan", Start: []byte("a"), End: []byte("e"), Limit: 2},
					{Kind: "scan", Start: []byte(""), End: []byte(""), Limit: 3},
					{Kind: "scan", Start: []byte("c"), End: []byte(""), Limit: 10, KeyOnly: true},
					{Kind: "rscan", Start: []byte("e"), End: []byte(""), Limit: 10},
					{Kind: "rscan", Start: []byte("e\x00"), End: []byte("c"), Limit: 2},
					{Kind: "rscan", Start: []byte("z"), End: []byte("a"), Limit: 3, KeyOnly: true},
					{Kind: "checksum", Start: []byte(""), End: []byte("")},
					{Kind: "checksum", Start: []byte("c"), End: []byte("e")},
					{Kind: "cas", Keys: k("f"), Prev: nil, Vals: [][]byte{[]byte("f1")}, Class: []string{"prev-not-exist-on-absent"}},
					{Kind: "get", Keys: k("f")},
					{Kind: "cas", Keys: k("f"), Prev: nil, Vals: [][]byte{[]byte("f2")}, Class: []string{"prev-not-exist-on-present"}},
					{Kind: "cas", Keys: k("f"), Prev: []byte("f1"), Vals: [][]byte{[]byte("f3")}, Class: []string{"prev-matches"}},
					{Kind: "cas", Keys: k("f"), Prev: []byte("f1"), Vals: [][]byte{[]byte("f4")}},
					{Kind: "cas", Keys: k("g"), Prev: []byte("x"), Vals: [][]byte{[]byte("g1")}, Class: []string{"prev-value-on-absent"}},
					{Kind: "get", Keys: k("g")},
					{Kind: "cas", Keys: k("d"), Prev: nil, Vals: [][]byte{[]byte("d1")}, Class: []string{"prev-not-exist-on-empty-value"}},
					{Kind: "cas", Keys: k("h"), Prev: []byte{}, Vals: [][]byte{[]byte("h1")}, Class: []string{"prev-empty-value-on-absent"}},
					{Kind: "cas", Keys: k("d"), Prev: []byte{}, Vals: [][]byte{[]byte("d2")}, Class: []string{"prev-empty-value-matches"}},
					{Kind: "deleterange", Start: []byte("c"), End: []byte("e")},
					{Kind: "batchdelete", Keys: [][]byte{[]byte("a"), []byte("a"), []byte("nope")}},
					{Kind: "deleterange", Start: []byte(""), End: []byte("")},
				}
				for oi, o := range ops {
					o.CF, o.CFVia, o.Client = cf, via, oi%2
					if o.Kind == "checksum" {
						o.CF, o.CFVia = "", ""
						if c11ChecksumCF != cf {
							continue
						}
					}
					s.step(o)
					r.Distinct(fmt.Sprintf("table|%d|%v|%s|%d", li, atomicMode, cf, oi))
				}
			}
			env.close()
		}
	}
}
