//go:build verif

package rawkv

// C11, sequential monitors: generated operation sequences are executed by the
// real rawkv.Client on mocktikv while the RPC hook changes the topology
// between the region lookup and the request and between the partial requests
// of one call.  Every result is compared with the sorted-map model, and after
// every call the content of the mock store (read directly, no regions
// involved) is compared with the model.

import (
	"bytes"
	"context"
	"encoding/json"
	"errors"
	"fmt"
	"hash/crc64"
	"math/rand"
	"os"
	"runtime"
	"sort"
	"strings"
	"testing"

	"github.com/pingcap/kvproto/pkg/metapb"
	"github.com/tikv/client-go/v2/verifh/vrep"
)

// ------------------------------------------------------------------ operations

type c11Op struct {
	Kind    string // get put putttl delete batchget batchput batchputttl batchdelete deleterange scan rscan checksum cas
	Client  int
	CF      string
	CFVia   string // "option" | "client" | "" (default column family)
	Keys    [][]byte
	Vals    [][]byte
	TTLs    []uint64
	Start   []byte
	End     []byte
	Limit   int
	KeyOnly bool
	Prev    []byte // nil = "must not exist"
	Script  []c11Act
	Ctx     c11CtxPlan // what happens to the call's context
	Class   []string   // boundary classes this op was generated for
}

func (o *c11Op) mutating() bool {
	switch o.Kind {
	case "put", "putttl", "delete", "batchput", "batchputttl", "batchdelete", "deleterange", "cas":
		return true
	}
	return false
}

func (o *c11Op) desc() map[string]any {
	d := map[string]any{"kind": o.Kind, "client": o.Client, "cf": o.CF, "cf_via": o.CFVia, "class": o.Class}
	if len(o.Keys) > 0 {
		if len(o.Keys) > 40 {
			d["keys_n"] = len(o.Keys)
			d["keys_head"] = c11qs(o.Keys[:40])
		} else {
			d["keys"] = c11qs(o.Keys)
		}
	}
	if len(o.Vals) > 0 && len(o.Vals) <= 40 {
		vs := make([]string, len(o.Vals))
		for i, v := range o.Vals {
			if len(v) > 24 {
				vs[i] = fmt.Sprintf("%q...(%d bytes)", v[:24], len(v))
			} else {
				vs[i] = c11q(v)
			}
		}
		d["values"] = vs
	}
	if len(o.TTLs) > 0 && len(o.TTLs) <= 40 {
		d["ttls"] = o.TTLs
	}
	switch o.Kind {
	case "deleterange", "scan", "rscan", "checksum":
		d["start"], d["end"] = c11q(o.Start), c11q(o.End)
	}
	if o.Kind == "scan" || o.Kind == "rscan" {
		d["limit"], d["key_only"] = o.Limit, o.KeyOnly
	}
	if o.Kind == "cas" {
		d["prev"] = c11q(o.Prev)
	}
	d["context"] = map[string]any{"kind": o.Ctx.name(), "at": o.Ctx.At, "deliver": o.Ctx.Deliver}
	if len(o.Script) > 0 {
		var s []map[string]any
		for _, a := range o.Script {
			s = append(s, map[string]any{"at": a.At, "kind": a.Kind, "target": a.Target, "key": c11q([]byte(a.Key)), "lead": a.Lead})
		}
		d["script"] = s
	}
	return d
}

type c11Res struct {
	Err     error
	Val     []byte
	Vals    [][]byte
	Keys    [][]byte
	Swapped bool
	Sum     RawChecksum
}

func (x *c11Res) desc() map[string]any {
	d := map[string]any{}
	if x.Err != nil {
		d["err"] = x.Err.Error()
	}
	d["val"] = c11q(x.Val)
	if len(x.Keys) <= 40 {
		d["keys"] = c11qs(x.Keys)
	}
	if len(x.Vals) <= 40 {
		d["vals"] = c11qs(x.Vals)
	}
	d["swapped"] = x.Swapped
	d["sum"] = fmt.Sprintf("%+v", x.Sum)
	return d
}

func c11Exec(ctx context.Context, c *Client, o *c11Op) (res c11Res) {
	var opts []RawOption
	switch o.CFVia {
	case "option":
		opts = append(opts, SetColumnFamily(o.CF))
	case "client":
		c.SetColumnFamily(o.CF)
		defer c.SetColumnFamily("")
	}
	if o.KeyOnly {
		opts = append(opts, ScanKeyOnly())
	}
	switch o.Kind {
	case "get":
		res.Val, res.Err = c.Get(ctx, o.Keys[0], opts...)
	case "put":
		res.Err = c.Put(ctx, o.Keys[0], o.Vals[0], opts...)
	case "putttl":
		res.Err = c.PutWithTTL(ctx, o.Keys[0], o.Vals[0], o.TTLs[0], opts...)
	case "delete":
		res.Err = c.Delete(ctx, o.Keys[0], opts...)
	case "batchget":
		res.Vals, res.Err = c.BatchGet(ctx, o.Keys, opts...)
	case "batchput":
		res.Err = c.BatchPut(ctx, o.Keys, o.Vals, opts...)
	case "batchputttl":
		res.Err = c.BatchPutWithTTL(ctx, o.Keys, o.Vals, o.TTLs, opts...)
	case "batchdelete":
		res.Err = c.BatchDelete(ctx, o.Keys, opts...)
	case "deleterange":
		res.Err = c.DeleteRange(ctx, o.Start, o.End, opts...)
	case "scan":
		res.Keys, res.Vals, res.Err = c.Scan(ctx, o.Start, o.End, o.Limit, opts...)
	case "rscan":
		res.Keys, res.Vals, res.Err = c.ReverseScan(ctx, o.Start, o.End, o.Limit, opts...)
	case "checksum":
		res.Sum, res.Err = c.Checksum(ctx, o.Start, o.End, opts...)
	case "cas":
		res.Val, res.Swapped, res.Err = c.CompareAndSwap(ctx, o.Keys[0], o.Prev, o.Vals[0], opts...)
	default:
		panic("unknown op " + o.Kind)
	}
	return
}

// ------------------------------------------------------------------ oracle

type c11Viol struct{ sig, msg string }

func c11RefChecksum(m *c11Model, cf string, s, e []byte) (kvs, nbytes uint64, crc uint64) {
	digest := crc64.New(crc64.MakeTable(crc64.ECMA))
	for _, k := range m.keysIn(cf, s, e) {
		v, _ := m.get(cf, k)
		kvs++
		nbytes += uint64(len(k) + len(v))
		digest.Reset()
		digest.Write(k)
		digest.Write(v)
		crc ^= digest.Sum64()
	}
	return
}

func c11CheckValue(m *c11Model, cf string, prefix string, k []byte, mv []byte, present bool, got []byte) *c11Viol {
	switch {
	case !present && got != nil && m.touched[cf][string(k)]:
		return &c11Viol{prefix + ":deleted-key-not-nil", fmt.Sprintf("key %s was deleted earlier and is absent in the ordered map but the call returned %s (not nil)", c11q(k), c11q(got))}
	case !present && got != nil:
		return &c11Viol{prefix + ":missing-key-not-nil", fmt.Sprintf("key %s is absent in the ordered map but the call returned %s (not nil)", c11q(k), c11q(got))}
	case present && got == nil:
		return &c11Viol{prefix + ":present-key-nil", fmt.Sprintf("key %s holds %s in the ordered map but the call returned nil", c11q(k), c11q(mv))}
	case present && !bytes.Equal(mv, got):
		return &c11Viol{prefix + ":wrong-value", fmt.Sprintf("key %s holds %s in the ordered map but the call returned %s", c11q(k), c11q(mv), c11q(got))}
	}
	return nil
}

// c11Expect compares the result of a call with the model (state before the
// call) and, for successful writes, applies the operation to the model.
// checksumCF is the column family the back-end's checksum reads ("-" unknown).
func c11Expect(env *c11Env, m *c11Model, o *c11Op, x *c11Res, atomicMode bool, checksumCF string) (vs []c11Viol) {
	add := func(sig, format string, a ...any) { vs = append(vs, c11Viol{sig, fmt.Sprintf(format, a...)}) }
	cf := o.CF
	// documented refusals
	if (o.Kind == "scan" || o.Kind == "rscan") && o.Limit > MaxRawKVScanLimit {
		if x.Err == nil {
			add(o.Kind+":over-max-limit-accepted", "%s with limit %d > MaxRawKVScanLimit returned no error", o.Kind, o.Limit)
		}
		return
	}
	if o.Kind == "cas" && !atomicMode {
		if x.Err == nil {
			add("cas:non-atomic-accepted", "CompareAndSwap without atomic mode returned no error")
		}
		return
	}
	if x.Err != nil {
		add(o.Kind+":unexpected-error", "%s failed although only topology changes were injected: %v", o.Kind, x.Err)
		return
	}
	switch o.Kind {
	case "get":
		mv, ok := m.get(cf, o.Keys[0])
		if v := c11CheckValue(m, cf, "get", o.Keys[0], mv, ok, x.Val); v != nil {
			vs = append(vs, *v)
		}
	case "batchget":
		if len(x.Vals) != len(o.Keys) {
			add("batchget:length", "BatchGet of %d keys returned %d values", len(o.Keys), len(x.Vals))
			break
		}
		seen := map[string]bool{}
		for i, k := range o.Keys {
			mv, ok := m.get(cf, k)
			if v := c11CheckValue(m, cf, "batchget", k, mv, ok, x.Vals[i]); v != nil && !seen[v.sig] {
				seen[v.sig] = true
				v.msg = fmt.Sprintf("position %d of %d: %s", i, len(o.Keys), v.msg)
				vs = append(vs, *v)
			}
		}
	case "put", "putttl":
		m.put(cf, o.Keys[0], o.Vals[0])
		m.ttl[cf][string(o.Keys[0])] = 0
		if o.Kind == "putttl" {
			m.ttl[cf][string(o.Keys[0])] = o.TTLs[0]
		}
		vs = append(vs, c11CheckTTL(env, m, o)...)
	case "delete":
		m.del(cf, o.Keys[0])
	case "batchput", "batchputttl":
		for i, k := range o.Keys {
			m.put(cf, k, o.Vals[i]) // in order: the last of duplicates wins
			m.ttl[cf][string(k)] = 0
			if o.Kind == "batchputttl" {
				m.ttl[cf][string(k)] = o.TTLs[i]
			}
		}
		vs = append(vs, c11CheckTTL(env, m, o)...)
	case "batchdelete":
		for _, k := range o.Keys {
			m.del(cf, k)
		}
	case "deleterange":
		if len(o.End) == 0 || bytes.Compare(o.Start, o.End) < 0 {
			for _, k := range m.keysIn(cf, o.Start, o.End) {
				m.del(cf, k)
			}
		}
	case "scan", "rscan":
		var exp [][]byte
		if o.Kind == "scan" {
			if len(o.End) == 0 || bytes.Compare(o.Start, o.End) < 0 {
				exp = m.keysIn(cf, o.Start, o.End)
			}
		} else {
			// [End, Start) from the top; Start is the exclusive upper bound
			if bytes.Compare(o.Start, o.End) > 0 {
				exp = m.keysIn(cf, o.End, o.Start)
				for i, j := 0, len(exp)-1; i < j; i, j = i+1, j-1 {
					exp[i], exp[j] = exp[j], exp[i]
				}
			}
		}
		if len(exp) > o.Limit {
			exp = exp[:o.Limit]
		}
		if len(x.Keys) != len(exp) {
			add(o.Kind+":count", "%s [%s,%s) limit %d returned %d keys %v, the ordered map gives %d keys %v", o.Kind, c11q(o.Start), c11q(o.End), o.Limit, len(x.Keys), c11qs(x.Keys), len(exp), c11qs(exp))
			break
		}
		for i := range exp {
			if !bytes.Equal(exp[i], x.Keys[i]) {
				add(o.Kind+":keys", "%s [%s,%s) limit %d returned keys %v, the ordered map gives %v", o.Kind, c11q(o.Start), c11q(o.End), o.Limit, c11qs(x.Keys), c11qs(exp))
				return
			}
		}
		if len(x.Vals) != len(x.Keys) {
			add(o.Kind+":values-length", "%s returned %d keys but %d values", o.Kind, len(x.Keys), len(x.Vals))
			break
		}
		for i, k := range x.Keys {
			mv, _ := m.get(cf, k)
			if o.KeyOnly && len(x.Vals[i]) == 0 {
				// "omit the values".  A back-end that ignores the key-only flag
				// (mocktikv does) returns the stored value, which is accepted too.
				continue
			}
			if !bytes.Equal(mv, x.Vals[i]) {
				add(o.Kind+":values", "%s returned value %s for key %s, the ordered map holds %s", o.Kind, c11q(x.Vals[i]), c11q(k), c11q(mv))
				break
			}
		}
	case "checksum":
		if checksumCF == "-" {
			break
		}
		var kvs, nb uint64
		if len(o.End) == 0 || bytes.Compare(o.Start, o.End) < 0 {
			kvs, nb, _ = c11RefChecksum(m, checksumCF, o.Start, o.End)
		}
		if x.Sum.TotalKvs != kvs || x.Sum.TotalBytes != nb {
			add("checksum:totals", "Checksum [%s,%s) = %+v, the ordered map has %d pairs / %d bytes in the range", c11q(o.Start), c11q(o.End), x.Sum, kvs, nb)
			break
		}
		// the same operation on the store seen as one ordered map (no regions)
		var crc uint64
		if len(o.End) == 0 || bytes.Compare(o.Start, o.End) < 0 {
			var err error
			crc, _, _, err = env.raw.RawChecksum(checksumCF, o.Start, o.End)
			if err != nil {
				break
			}
		}
		if x.Sum.Crc64Xor != crc {
			add("checksum:crc", "Checksum [%s,%s) crc64xor=%x but the whole-map computation of the same back-end gives %x", c11q(o.Start), c11q(o.End), x.Sum.Crc64Xor, crc)
		}
	case "cas":
		k := o.Keys[0]
		mv, ok := m.get(cf, k)
		match := false
		if o.Prev == nil {
			match = !ok
		} else {
			match = ok && bytes.Equal(mv, o.Prev)
		}
		if x.Swapped != match {
			add("cas:swapped-flag", "CompareAndSwap(%s, prev=%s) swapped=%v, the ordered map holds %s (present=%v) so swapped must be %v", c11q(k), c11q(o.Prev), x.Swapped, c11q(mv), ok, match)
		}
		if v := c11CheckValue(m, cf, "cas:previous", k, mv, ok, x.Val); v != nil {
			vs = append(vs, *v)
		}
		if match {
			m.put(cf, k, o.Vals[0])
		}
	}
	return
}

// c11CheckTTL: the TTL that reached the store with the last executed put of
// each key of the call (shadow table kept by the RPC hook, because mocktikv
// itself drops TTLs) must be the TTL the caller gave for it.
func c11CheckTTL(env *c11Env, m *c11Model, o *c11Op) (vs []c11Viol) {
	if e := env.takeTTLError(); e != "" {
		vs = append(vs, c11Viol{o.Kind + ":ttls-length-mismatch-in-request", e})
	}
	for _, k := range o.Keys {
		want := m.ttl[o.CF][string(k)]
		got, ok := env.shadowTTL(o.CF, k)
		if !ok {
			continue // no put request for the key was seen: the state comparison reports the lost write
		}
		if got != want {
			vs = append(vs, c11Viol{o.Kind + ":ttl", fmt.Sprintf("%s: key %s reached the store with ttl %d, the caller gave %d", o.Kind, c11q(k), got, want)})
			break
		}
	}
	return
}

// c11ResolveEnded handles a mutating call that failed under an ended context:
// every affected key must hold its old or its new value in the store (a
// delete-range must not leave a region half deleted when the layout did not
// change during the call); the keys are read back through the client with a
// live context and must agree with the store; the model is pinned to what was
// read and the store must not change afterwards (no late write by a leftover
// goroutine of the failed call).
func c11ResolveEnded(r *vrep.Report, env *c11Env, m *c11Model, o *c11Op, c *Client, regsBefore []*metapb.Region, layoutChanged bool) (vs []c11Viol) {
	add := func(sig, format string, a ...any) {
		vs = append(vs, c11Viol{o.Kind + ":ctx-ended:" + sig, fmt.Sprintf(format, a...)})
	}
	cf := o.CF
	type outcome struct {
		present bool
		v       []byte
	}
	newOf := map[string]outcome{}
	var keys [][]byte
	addKey := func(k []byte, n outcome) {
		if _, ok := newOf[string(k)]; !ok {
			keys = append(keys, k)
		}
		newOf[string(k)] = n // the last duplicate wins
	}
	switch o.Kind {
	case "put", "putttl":
		addKey(o.Keys[0], outcome{true, append([]byte{}, o.Vals[0]...)})
	case "delete":
		addKey(o.Keys[0], outcome{})
	case "batchput", "batchputttl":
		for i, k := range o.Keys {
			addKey(k, outcome{true, append([]byte{}, o.Vals[i]...)})
		}
	case "batchdelete":
		for _, k := range o.Keys {
			addKey(k, outcome{})
		}
	case "deleterange":
		if len(o.End) == 0 || bytes.Compare(o.Start, o.End) < 0 {
			for _, k := range m.keysIn(cf, o.Start, o.End) {
				addKey(k, outcome{})
			}
		}
	case "cas":
		k := o.Keys[0]
		mv, ok := m.get(cf, k)
		match := ok && o.Prev != nil && bytes.Equal(mv, o.Prev)
		if o.Prev == nil {
			match = !ok
		}
		if match {
			addKey(k, outcome{true, append([]byte{}, o.Vals[0]...)})
		} else {
			addKey(k, outcome{ok, mv})
		}
	}
	truth := env.storeDump(cf)
	nOld, nNew := 0, 0
	isNew := map[string]bool{}
	for _, k := range keys {
		mv, mok := m.get(cf, k)
		tv, tok := truth[string(k)]
		nw := newOf[string(k)]
		oldOK := tok == mok && (!tok || bytes.Equal(tv, mv))
		newOK := tok == nw.present && (!tok || bytes.Equal(tv, nw.v))
		switch {
		case newOK && !oldOK:
			nNew++
			isNew[string(k)] = true
		case oldOK && !newOK:
			nOld++
		case !oldOK && !newOK:
			add("neither-old-nor-new", "%s failed under an ended context; key %s then holds %s (present=%v), neither the old value %s (present=%v) nor the new one %s (present=%v)", o.Kind, c11q(k), c11q(tv), tok, c11q(mv), mok, c11q(nw.v), nw.present)
			return
		}
	}
	switch {
	case nNew == 0:
		r.Count("ctx_failed_mutation_left_all_old", 1)
	case nOld == 0:
		r.Count("ctx_failed_mutation_left_all_new", 1)
	default:
		r.Count("ctx_failed_mutation_left_a_mix", 1)
	}
	if o.Kind == "deleterange" && !layoutChanged {
		for _, reg := range regsBefore {
			del, kept := 0, 0
			for _, k := range keys {
				if bytes.Compare(reg.StartKey, k) <= 0 && (len(reg.EndKey) == 0 || bytes.Compare(k, reg.EndKey) < 0) {
					if isNew[string(k)] {
						del++
					} else {
						kept++
					}
				}
			}
			if del > 0 && kept > 0 {
				add("region-half-deleted", "DeleteRange [%s,%s) failed under an ended context; in region [%s,%s) (layout unchanged during the call) %d keys of the range were deleted and %d kept", c11q(o.Start), c11q(o.End), c11q(reg.StartKey), c11q(reg.EndKey), del, kept)
				break
			}
		}
	}
	// read back through the client with a live context
	if len(keys) > 0 {
		ctx := context.Background()
		var opts []RawOption
		if cf != "" {
			opts = append(opts, SetColumnFamily(cf))
		}
		var got [][]byte
		var err error
		if len(keys) <= 8 {
			for _, k := range keys {
				var v []byte
				if v, err = c.Get(ctx, k, opts...); err != nil {
					break
				}
				got = append(got, v)
			}
		} else {
			got, err = c.BatchGet(ctx, keys, opts...)
		}
		r.Count("ctx_readbacks", 1)
		if err != nil {
			add("readback-error", "reading the keys back with a live context after the failed %s failed: %v", o.Kind, err)
		} else if len(got) != len(keys) {
			add("readback-length", "reading %d keys back returned %d values", len(keys), len(got))
		} else {
			for i, k := range keys {
				tv, tok := truth[string(k)]
				if (got[i] != nil) != tok || (tok && !bytes.Equal(got[i], tv)) {
					add("readback-differs", "after the failed %s a live read of key %s returns %s but the store holds %s (present=%v)", o.Kind, c11q(k), c11q(got[i]), c11q(tv), tok)
					break
				}
			}
		}
	}
	// pin the model to what the store holds
	for _, k := range keys {
		if tv, tok := truth[string(k)]; tok {
			m.put(cf, k, tv)
		} else {
			m.del(cf, k)
		}
		if t, ok := env.shadowTTL(cf, k); ok {
			m.ttl[cf][string(k)] = t
		}
	}
	env.takeTTLError()
	// stability: nothing of the failed call may land later
	runtime.Gosched()
	after := env.storeDump(cf)
	for _, k := range keys {
		tv, tok := truth[string(k)]
		av, aok := after[string(k)]
		if tok != aok || !bytes.Equal(tv, av) {
			add("late-write", "key %s changed from %s (present=%v) to %s (present=%v) after the failed %s had returned", c11q(k), c11q(tv), tok, c11q(av), aok, o.Kind)
			break
		}
	}
	return
}

// c11DiffStore compares the store content with the model for every column
// family; returns a classification and a message ("" = equal).
func c11DiffStore(env *c11Env, m *c11Model) (class, msg string) {
	for _, cf := range c11CFs {
		st := env.storeDump(cf)
		for k, mv := range m.cfs[cf] {
			sv, ok := st[k]
			if !ok {
				return "key-missing-in-store", fmt.Sprintf("cf %q: key %s holds %s in the ordered map but is absent in the store", cf, c11q([]byte(k)), c11q(mv))
			}
			if !bytes.Equal(sv, mv) {
				return "value-differs-in-store", fmt.Sprintf("cf %q: key %s holds %s in the ordered map but %s in the store", cf, c11q([]byte(k)), c11q(mv), c11q(sv))
			}
		}
		for k, sv := range st {
			if _, ok := m.cfs[cf][k]; !ok {
				return "extra-key-in-store", fmt.Sprintf("cf %q: key %s = %s exists in the store but not in the ordered map", cf, c11q([]byte(k)), c11q(sv))
			}
		}
	}
	return "", ""
}

func c11Resync(env *c11Env, m *c11Model) {
	for _, cf := range c11CFs {
		m.cfs[cf] = map[string][]byte{}
		for k, v := range env.storeDump(cf) {
			m.cfs[cf][k] = append([]byte{}, v...)
		}
	}
}

// ------------------------------------------------------------------ generator

type c11Gen struct {
	rng     *rand.Rand
	env     *c11Env
	m       *c11Model
	seq     int
	valN    int
	atomic  bool
	cfAllow []string
	qLetter byte // letter of most keys of the large auxiliary key space in this sequence
}

func (g *c11Gen) val() []byte {
	g.valN++
	switch g.rng.Intn(16) {
	case 0:
		return []byte{}
	case 1:
		return nil
	}
	return []byte(fmt.Sprintf("v%d.%d", g.seq, g.valN))
}

func (g *c11Gen) key() []byte {
	if g.rng.Intn(10) == 0 {
		l := byte('a' + g.rng.Intn(8))
		return []byte{l, 'a'} // between X\0 and Xm, a possible region start
	}
	// bias: half of the time a key that currently starts a region
	if g.rng.Intn(2) == 0 {
		regs := g.env.regions()
		r := regs[g.rng.Intn(len(regs))]
		if len(r.StartKey) > 0 {
			return append([]byte{}, r.StartKey...)
		}
	}
	return c11DataKeys[g.rng.Intn(len(c11DataKeys))]
}

// qKey: a key of the large auxiliary key space Xq0000..Xq1999, mostly with the given letter.
func (g *c11Gen) qKey() []byte {
	l := g.qLetter
	if g.rng.Intn(5) == 0 {
		l = byte('a' + g.rng.Intn(8))
	}
	return []byte(fmt.Sprintf("%cq%04d", l, g.rng.Intn(2000)))
}

func (g *c11Gen) bound(class *[]string, what string) []byte {
	if g.rng.Intn(5) < 2 {
		regs := g.env.regions()
		r := regs[g.rng.Intn(len(regs))]
		if len(r.StartKey) > 0 {
			*class = append(*class, what+"-on-border")
			return append([]byte{}, r.StartKey...)
		}
	}
	b := c11Bounds[g.rng.Intn(len(c11Bounds))]
	if len(b) == 0 {
		*class = append(*class, what+"-empty")
	}
	return append([]byte{}, b...)
}

func (g *c11Gen) batchKeys(class *[]string) [][]byte {
	n := 1 + g.rng.Intn(12)
	var ks [][]byte
	dup := false
	for i := 0; i < n; i++ {
		if i > 0 && g.rng.Intn(4) == 0 {
			ks = append(ks, ks[g.rng.Intn(len(ks))])
			dup = true
			continue
		}
		ks = append(ks, g.key())
	}
	seen := map[string]bool{}
	for _, k := range ks {
		if seen[string(k)] {
			dup = true
		}
		seen[string(k)] = true
	}
	if dup {
		*class = append(*class, "dups")
	}
	return ks
}

func (g *c11Gen) regionOf(k []byte) *metapb.Region {
	r, _, _, _ := g.env.cluster.GetRegionByKey(k)
	return r
}

// regionOfEnd: the region with start < k <= end (what a reverse scan starts in).
func (g *c11Gen) regionOfEnd(k []byte) *metapb.Region {
	for _, r := range g.env.regions() {
		if bytes.Compare(r.StartKey, k) < 0 && (len(r.EndKey) == 0 || bytes.Compare(k, r.EndKey) <= 0) {
			return r
		}
	}
	return nil
}

func (g *c11Gen) limit(o *c11Op) int {
	if g.rng.Intn(60) == 0 {
		o.Class = append(o.Class, "limit-over-max")
		return MaxRawKVScanLimit + 1 + g.rng.Intn(3)
	}
	var n, b int
	if o.Kind == "scan" {
		if len(o.End) == 0 || bytes.Compare(o.Start, o.End) < 0 {
			n = len(g.m.keysIn(o.CF, o.Start, o.End))
			if r := g.regionOf(o.Start); r != nil {
				end := o.End
				if len(r.EndKey) > 0 && (len(end) == 0 || bytes.Compare(r.EndKey, end) < 0) {
					end = r.EndKey
				}
				b = len(g.m.keysIn(o.CF, o.Start, end))
			}
		}
	} else if bytes.Compare(o.Start, o.End) > 0 {
		n = len(g.m.keysIn(o.CF, o.End, o.Start))
		if r := g.regionOfEnd(o.Start); r != nil {
			lo := o.End
			if bytes.Compare(r.StartKey, lo) > 0 {
				lo = r.StartKey
			}
			b = len(g.m.keysIn(o.CF, lo, o.Start))
		}
	}
	switch g.rng.Intn(10) {
	case 0:
		return 0
	case 1:
		return 1
	case 2, 3, 4:
		// the limit is reached exactly at (or one around) the first region border
		if b > 0 && b < n {
			d := []int{0, 0, -1, 1}[g.rng.Intn(4)]
			if d == 0 {
				o.Class = append(o.Class, "limit-at-border")
			}
			if b+d >= 0 {
				return b + d
			}
		}
		return 1 + g.rng.Intn(6)
	case 5:
		return n
	case 6:
		if n > 0 {
			return n - 1
		}
		return n + 1
	case 7:
		return n + 1
	case 8:
		return MaxRawKVScanLimit
	}
	return 1 + g.rng.Intn(30)
}

func (g *c11Gen) script(o *c11Op) []c11Act {
	n := 1
	switch x := g.rng.Intn(20); {
	case x >= 19:
		n = 3
	case x >= 14:
		n = 2
	}
	var pool [][]byte
	pool = append(pool, o.Keys...)
	if len(pool) > 16 {
		pool = pool[:16]
	}
	switch o.Kind {
	case "deleterange", "scan", "rscan", "checksum":
		pool = append(pool, o.Start, o.End)
		lo, hi := o.Start, o.End
		if o.Kind == "rscan" {
			lo, hi = o.End, o.Start
		}
		for _, k := range c11SplitKeys {
			if bytes.Compare(k, lo) > 0 && (len(hi) == 0 || bytes.Compare(k, hi) < 0) {
				pool = append(pool, k)
			}
		}
	}
	var out []c11Act
	for i := 0; i < n; i++ {
		a := c11Act{At: []int{0, 0, 0, 1, 1, 2, 3}[g.rng.Intn(7)], Lead: g.rng.Intn(3), Target: g.rng.Intn(5) < 3}
		switch x := g.rng.Intn(20); {
		case x < 8:
			a.Kind = "split"
		case x < 12:
			a.Kind = "merge-right"
		case x < 15:
			a.Kind = "merge-left"
		default:
			a.Kind = "leader"
		}
		var k []byte
		if len(pool) > 0 && g.rng.Intn(10) < 7 {
			k = pool[g.rng.Intn(len(pool))]
		} else {
			k = c11SplitKeys[g.rng.Intn(len(c11SplitKeys))]
		}
		if a.Kind == "split" && len(k) == 0 {
			k = c11SplitKeys[g.rng.Intn(len(c11SplitKeys))]
		}
		a.Key = string(k)
		out = append(out, a)
	}
	return out
}

func (g *c11Gen) op(nClients int) *c11Op {
	o := &c11Op{Client: g.rng.Intn(nClients)}
	o.CF = g.cfAllow[0]
	if x := g.rng.Intn(10); x >= 6 && len(g.cfAllow) > 1 {
		o.CF = g.cfAllow[1+g.rng.Intn(len(g.cfAllow)-1)]
	}
	if o.CF != "" {
		o.CFVia = "option"
		if g.rng.Intn(4) == 0 {
			o.CFVia = "client"
		}
	}
	kinds := []string{"get", "get", "put", "put", "putttl", "delete", "batchget", "batchget", "batchget", "batchput", "batchput", "batchputttl",
		"batchdelete", "batchdelete", "deleterange", "deleterange", "scan", "scan", "scan", "scan", "rscan", "rscan", "rscan", "checksum", "checksum", "cas", "cas", "cas"}
	o.Kind = kinds[g.rng.Intn(len(kinds))]
	if o.Kind == "cas" && !g.atomic && g.rng.Intn(8) != 0 {
		o.Kind = "get"
	}
	switch o.Kind {
	case "get", "delete":
		o.Keys = [][]byte{g.key()}
	case "put":
		o.Keys, o.Vals = [][]byte{g.key()}, [][]byte{g.val()}
	case "putttl":
		o.Keys, o.Vals, o.TTLs = [][]byte{g.key()}, [][]byte{g.val()}, []uint64{uint64(1_000_000 + g.rng.Intn(1000))}
	case "batchget", "batchdelete":
		o.Keys = g.batchKeys(&o.Class)
		if g.rng.Intn(22) == 0 {
			// more keys per region than one batch request carries (512)
			o.Class = append(o.Class, "big-batch")
			n := 1100 + g.rng.Intn(1300)
			// most keys share a letter, so one region gets more than 512 of them
			for i := 0; i < n; i++ {
				if g.rng.Intn(4) == 0 {
					o.Keys = append(o.Keys, c11DataKeys[g.rng.Intn(len(c11DataKeys))])
				} else {
					o.Keys = append(o.Keys, g.qKey())
				}
			}
		}
	case "batchput", "batchputttl":
		o.Keys = g.batchKeys(&o.Class)
		if g.rng.Intn(60) == 0 {
			// many distinct keys (short values)
			o.Class = append(o.Class, "big-batch")
			n := 700 + g.rng.Intn(700)
			for i := 0; i < n; i++ {
				o.Keys = append(o.Keys, g.qKey())
			}
		}
		big := len(o.Keys) < 100 && g.rng.Intn(25) == 0
		if big {
			o.Class = append(o.Class, "big-batch") // more bytes than one batch-put request carries (16 KiB)
		}
		for range o.Keys {
			v := g.val()
			if big {
				v = append(v, bytes.Repeat([]byte{'.'}, 3000+g.rng.Intn(3000))...)
			}
			o.Vals = append(o.Vals, v)
			if o.Kind == "batchputttl" {
				o.TTLs = append(o.TTLs, uint64(1_000_000+g.rng.Intn(1000)))
			}
		}
	case "deleterange", "checksum":
		o.Start, o.End = g.bound(&o.Class, "start"), g.bound(&o.Class, "end")
		if g.rng.Intn(6) == 0 {
			o.End = []byte{}
			o.Class = append(o.Class, "end-empty")
		}
		if o.Kind == "deleterange" && g.rng.Intn(3) != 0 {
			// keep ranges small more often, or the map is empty most of the time
			ks := g.m.keysIn(o.CF, o.Start, nil)
			if len(ks) > 3 {
				o.End = append([]byte{}, ks[1+g.rng.Intn(3)]...)
				if r := g.regionOf(o.End); r != nil && bytes.Equal(r.StartKey, o.End) {
					o.Class = append(o.Class, "end-on-border")
				}
			}
		}
		if o.Kind == "checksum" {
			o.CF, o.CFVia = "", "" // Checksum has no column family parameter
		}
	case "scan":
		o.Start, o.End = g.bound(&o.Class, "start"), g.bound(&o.Class, "end")
		if g.rng.Intn(4) == 0 {
			o.End = []byte{}
			o.Class = append(o.Class, "end-empty")
		}
		o.KeyOnly = g.rng.Intn(4) == 0
		o.Limit = g.limit(o)
	case "rscan":
		o.Start, o.End = g.bound(&o.Class, "start"), g.bound(&o.Class, "end")
		for len(o.Start) == 0 { // documented: reverse scan from "" is not supported
			o.Class = nil
			o.Start, o.End = g.bound(&o.Class, "start"), g.bound(&o.Class, "end")
		}
		if g.rng.Intn(3) == 0 {
			o.End = []byte{}
			o.Class = append(o.Class, "end-empty")
		}
		o.KeyOnly = g.rng.Intn(4) == 0
		o.Limit = g.limit(o)
	case "cas":
		k := g.key()
		o.Keys, o.Vals = [][]byte{k}, [][]byte{g.val()}
		mv, ok := g.m.get(o.CF, k)
		switch x := g.rng.Intn(10); {
		case x < 3:
			o.Prev = nil
			if ok {
				o.Class = append(o.Class, "prev-not-exist-on-present")
			} else {
				o.Class = append(o.Class, "prev-not-exist-on-absent")
			}
		case x < 7 && ok:
			o.Prev = append([]byte{}, mv...)
			o.Class = append(o.Class, "prev-matches")
		default:
			o.Prev = []byte(fmt.Sprintf("nope%d", g.rng.Intn(100)))
			if !ok {
				o.Class = append(o.Class, "prev-value-on-absent")
			}
		}
	}
	for _, k := range o.Keys {
		if r := g.regionOf(k); r != nil && len(k) > 0 && bytes.Equal(r.StartKey, k) {
			o.Class = append(o.Class, "key-on-border")
			break
		}
	}
	if g.rng.Intn(2) == 0 {
		o.Script = g.script(o)
	}
	switch x := g.rng.Intn(20); {
	case x < 10:
	case x < 12:
		o.Ctx = c11CtxPlan{Kind: "cancel-after"}
	case x < 16:
		o.Ctx = c11CtxPlan{Kind: "cancel-at"}
	default:
		o.Ctx = c11CtxPlan{Kind: "deadline-at"}
	}
	if o.Ctx.during() {
		o.Ctx.At = []int{0, 0, 0, 1, 1, 2, 3, 5}[g.rng.Intn(8)]
		o.Ctx.Deliver = g.rng.Intn(2) == 0
	}
	return o
}

// c11Span counts the regions an op touches in the given layout.
func c11Span(regs []*metapb.Region, o *c11Op) int {
	touch := map[uint64]bool{}
	contains := func(r *metapb.Region, k []byte) bool {
		return bytes.Compare(r.StartKey, k) <= 0 && (len(r.EndKey) == 0 || bytes.Compare(k, r.EndKey) < 0)
	}
	switch o.Kind {
	case "deleterange", "scan", "rscan", "checksum":
		lo, hi := o.Start, o.End
		if o.Kind == "rscan" {
			lo, hi = o.End, o.Start
		}
		if len(hi) > 0 && bytes.Compare(lo, hi) >= 0 {
			return 0
		}
		for _, r := range regs {
			// [r.start, r.end) intersects [lo,hi)
			if (len(hi) == 0 || bytes.Compare(r.StartKey, hi) < 0) && (len(r.EndKey) == 0 || bytes.Compare(lo, r.EndKey) < 0) {
				touch[r.Id] = true
			}
		}
	default:
		for _, k := range o.Keys {
			for _, r := range regs {
				if contains(r, k) {
					touch[r.Id] = true
				}
			}
		}
	}
	return len(touch)
}

// ------------------------------------------------------------------ driver

// c11Seq is one universe (cluster + clients + model) driven op by op.
type c11Seq struct {
	t       *testing.T
	r       *vrep.Report
	env     *c11Env
	m       *c11Model
	stream  string
	seq     int
	nStores int
	atomic  bool
	opN     int
}

// step executes one operation with its topology script armed, judges the
// result and the store content, and returns the number of violations.
func (s *c11Seq) step(o *c11Op) int {
	r, env, m := s.r, s.env, s.m
	i := s.opN
	s.opN++
	layoutBefore := env.layout()
	regsBefore := env.regions()
	beforeCF := o.CF
	if o.Kind == "checksum" && c11ChecksumCF != "-" {
		beforeCF = c11ChecksumCF
	}
	beforeMap := make(map[string][]byte, len(m.cfs[beforeCF])) // values are never modified in place
	for k, v := range m.cfs[beforeCF] {
		beforeMap[k] = v
	}
	h := env.hooks[o.Client]
	var x c11Res
	var obs c11CallObs
	detail := func() any {
		return map[string]any{"stream": s.stream, "seq": s.seq, "op_index": i, "stores": s.nStores, "atomic_mode": s.atomic, "epoch_repair": c11RepairEpochs.Load(),
			"layout_before": layoutBefore, "layout_after": env.layout(), "map_before": c11DumpMap(beforeMap), "op": o.desc(), "result": x.desc(), "observed": obs}
	}
	if os.Getenv("VERIF_C11_TRACE") != "" {
		b, _ := json.Marshal(map[string]any{"i": i, "op": o.desc(), "layout": layoutBefore})
		s.t.Logf("[c11] %s", b)
	}
	ctx := h.arm(o.Script, o.Ctx)
	panicked := c11Recover(r, o.Kind, detail, func() { x = c11Exec(ctx, env.clients[o.Client], o) })
	if o.Ctx.Kind == "cancel-after" {
		ctx.end(context.Canceled, -1)
		runtime.Gosched()
	}
	obs = h.disarm()
	r.Count("ctx_"+o.Ctx.name()+"_calls", 1)
	if obs.CtxEnded {
		r.Count("ctx_"+o.Ctx.name()+"_ended_during_call", 1)
		if o.Ctx.Deliver {
			r.Count("ctx_"+o.Ctx.name()+"_ended_after_rpc_executed", 1)
		} else {
			r.Count("ctx_"+o.Ctx.name()+"_ended_rpc_not_delivered", 1)
		}
		if x.Err != nil {
			r.Count("ctx_"+o.Ctx.name()+"_call_failed", 1)
			if errors.Is(x.Err, context.Canceled) || errors.Is(x.Err, context.DeadlineExceeded) {
				r.Count("ctx_"+o.Ctx.name()+"_error_is_context_error", 1)
			}
		} else {
			r.Count("ctx_"+o.Ctx.name()+"_call_succeeded", 1)
		}
	}
	if obs.OverBudget {
		r.Violate(o.Kind+":no-progress", fmt.Sprintf("%s issued more than %d requests without finishing (the harness then cancelled it)", o.Kind, c11RequestBudget), detail())
		if c11NoProgress.Add(1) == 5 {
			r.Inconc("exploration cut short after 5 calls that made no progress")
		}
		c11Resync(env, m)
		return 1
	}
	r.Eval(1)
	r.Count("ops", 1)
	r.Count("op_"+o.Kind, 1)
	r.Count("rpc_requests", obs.Requests)
	for _, c := range o.Class {
		r.Count("class_"+c, 1)
	}
	multiPart := false
	switch o.Kind {
	case "batchget", "batchput", "batchputttl", "batchdelete", "deleterange", "scan", "rscan", "checksum":
		multiPart = true
	}
	if len(obs.Fired) > 0 {
		r.Count("ops_with_topology_change_during_call", 1)
		r.Count("topo_changes_during_calls", len(obs.Fired))
		r.Count("topo_changes_between_partial_requests", obs.MidCall)
	}
	for k, n := range obs.RegionErrs {
		r.Count("region_error_"+k, n)
		if multiPart {
			r.Count("region_errors_in_multi_part_calls", n)
		}
	}
	if o.KeyOnly && x.Err == nil {
		for _, v := range x.Vals {
			if len(v) > 0 {
				r.Count("key_only_scans_that_returned_values", 1)
				break
			}
		}
	}
	span := c11Span(regsBefore, o)
	if span >= 2 {
		r.Count("multi_region_ops", 1)
	}
	if span >= 2 || len(obs.Fired) > 0 || len(obs.RegionErrs) > 0 {
		var ek []string
		for k := range obs.RegionErrs {
			ek = append(ek, k)
		}
		sort.Strings(ek)
		r.Distinct(fmt.Sprintf("%s|cf=%s|%s|nreg=%d|span=%d|fired=%s|rerr=%s|class=%s|n=%d", o.Kind, o.CF, o.CFVia, len(regsBefore), span,
			strings.Join(obs.Fired, ","), strings.Join(ek, ","), strings.Join(o.Class, ","), len(o.Keys)))
		if obs.MidCall > 0 && span >= 2 && len(obs.RegionErrs) > 0 && r.SampleN() < 4 {
			r.Sample(detail())
		}
	}
	if panicked {
		c11Resync(env, m)
		return 1
	}
	var vs []c11Viol
	if obs.CtxEnded && x.Err != nil && !panicked {
		// The caller's context ended during the call and the call failed: that
		// is allowed.  A read then says nothing; a mutating call leaves each
		// affected key with its old or its new value.
		if o.mutating() {
			vs = c11ResolveEnded(r, env, m, o, env.clients[o.Client], regsBefore, len(obs.Fired) > 0)
		}
	} else {
		vs = c11Expect(env, m, o, &x, s.atomic, c11ChecksumCF)
	}
	for _, v := range vs {
		r.Violate(v.sig, v.msg, detail())
	}
	n := len(vs)
	class, msg := c11DiffStore(env, m)
	if class != "" {
		if len(vs) == 0 {
			r.Violate(o.Kind+":state:"+class, fmt.Sprintf("after %s: %s", o.Kind, msg), detail())
			n++
		}
		c11Resync(env, m)
	} else if len(vs) > 0 {
		c11Resync(env, m)
	}
	return n
}

func c11RunSequence(t *testing.T, r *vrep.Report, stream string, seq int, nOps int, rng *rand.Rand) {
	nStores := 2 + rng.Intn(2)
	nRegions := 1 + rng.Intn(5)
	atomicMode := rng.Intn(2) == 0
	perm := rng.Perm(len(c11SplitKeys))
	var splits [][]byte
	for i := 0; i < nRegions-1; i++ {
		splits = append(splits, c11SplitKeys[perm[i]])
	}
	leads := make([]int, len(splits)+1)
	for i := range leads {
		leads[i] = rng.Intn(3)
	}
	const nClients = 2
	env := c11NewEnv(nStores, splits, func(i int) int { return leads[i] }, nClients, atomicMode)
	defer env.close()
	m := c11NewModel()
	g := &c11Gen{rng: rng, env: env, m: m, seq: seq, atomic: atomicMode, cfAllow: c11CFs}
	for _, cf := range c11CFs {
		for _, k := range c11DataKeys {
			if rng.Intn(10) < 6 {
				v := g.val()
				env.raw.RawPut(cf, k, v)
				m.put(cf, k, v)
			}
		}
	}
	g.qLetter = byte('a' + rng.Intn(8))
	if rng.Intn(3) == 0 {
		// a third of the sequences start with ~800 more pairs in the default
		// column family, so that big batches meet > 512 present keys per region
		for _, n := range rng.Perm(2000)[:800] {
			k, v := []byte(fmt.Sprintf("%cq%04d", g.qLetter, n)), g.val()
			env.raw.RawPut("", k, v)
			m.put("", k, v)
		}
	}
	t.Logf("[c11] sequence %s-%d: stores=%d atomic=%v layout=%v", stream, seq, nStores, atomicMode, env.layout())
	r.Flush()
	s := &c11Seq{t: t, r: r, env: env, m: m, stream: stream, seq: seq, nStores: nStores, atomic: atomicMode}
	for i := 0; i < nOps && c11NoProgress.Load() < 5; i++ {
		if rng.Intn(100) < 12 {
			a := c11Act{Kind: []string{"split", "split", "merge-right", "merge-left", "leader"}[rng.Intn(5)], Key: string(c11SplitKeys[rng.Intn(len(c11SplitKeys))]), Lead: rng.Intn(3)}
			if env.apply(a, 0) != "" {
				r.Count("topo_changes_between_calls", 1)
			}
		}
		s.step(g.op(nClients))
	}
}

func c11ReplaySeq() (stream string, seq int, ok bool) {
	p := vrep.ReplayPath()
	if p == "" {
		return "", 0, false
	}
	b, err := os.ReadFile(p)
	if err != nil {
		return "", 0, false
	}
	var rj struct {
		Detail struct {
			Stream string `json:"stream"`
			Seq    *int   `json:"seq"`
		} `json:"detail"`
	}
	if json.Unmarshal(b, &rj) != nil || rj.Detail.Seq == nil {
		return "", 0, false
	}
	return rj.Detail.Stream, *rj.Detail.Seq, true
}

func c11SeqRand(stream string, seq int) *rand.Rand {
	if stream == "c11-fixed" {
		// the same sequences at every VERIF_SEED
		return rand.New(rand.NewSource(int64(7700 + seq)))
	}
	return vrep.Rand(fmt.Sprintf("%s-%d", stream, seq))
}

func TestVerifC11Sequential(t *testing.T) {
	r := vrep.New("C11", "c11-seq", "generated raw KV operation sequences (get/put/putTTL/delete/batch get,put,putTTL,delete/delete-range/scan/reverse scan/checksum/CAS, 3 column families, 2 clients with separate region caches, atomic and non-atomic mode) on mocktikv with 1-7 regions over 2-3 stores; every result compared with a sorted-map model (not-found = nil) and the store content (read directly) compared with the model after every call; the RPC hook splits/merges/moves leaders right before the n-th request of a call (after the region lookup / between partial requests); every call runs under one of four context disciplines (live; cancelled right after the return; cancelled or deadline-expired at the n-th RPC of the call, that RPC either not delivered or executed and answered) — a call that fails under an ended context leaves each affected key old-or-new (checked in the store, read back with a live context, model pinned, no late write), a call that returns nil error must be complete; distinct = distinct (op kind, cf, #regions, regions spanned, topology changes fired with their request index, region-error kinds, boundary classes) among calls that span >=2 regions or met a topology change or a region error")
	defer r.Finish(t)
	c11Probe()
	nOps := vrep.Pick(70, 120)
	if stream, seq, ok := c11ReplaySeq(); ok && (stream == "c11-seq" || stream == "c11-fixed") {
		c11RunSequence(t, r, stream, seq, nOps, c11SeqRand(stream, seq))
		return
	}
	nFixed, nSeq := vrep.Pick(40, 200), vrep.Pick(110, 1000)
	for s := 0; s < nFixed; s++ {
		c11RunSequence(t, r, "c11-fixed", s, nOps, c11SeqRand("c11-fixed", s))
	}
	for s := 0; s < nSeq; s++ {
		c11RunSequence(t, r, "c11-seq", s, nOps, c11SeqRand("c11-seq", s))
	}
	r.Floor("ops", (nFixed+nSeq)*nOps)
	r.Floor("topo_changes_during_calls", 1000)
	r.Floor("topo_changes_between_partial_requests", 300)
	r.Floor("region_error_epoch_not_match", 500)
	r.Floor("region_error_not_leader", 300)
	r.Floor("region_error_region_not_found", 100)
	r.Floor("region_errors_in_multi_part_calls", 800)
	r.Floor("multi_region_ops", 1500)
	r.Floor("class_limit-at-border", 40)
	r.Floor("class_end-on-border", 300)
	r.Floor("class_dups", 800)
	r.Floor("class_key-on-border", 1500)
	r.Floor("class_big-batch", 30)
	r.Floor("class_prev-not-exist-on-absent", 30)
	r.Floor("class_prev-not-exist-on-present", 30)
	r.Floor("class_prev-matches", 30)
	r.Floor("ctx_bg_calls", 2000)
	r.Floor("ctx_cancel-after_calls", 300)
	r.Floor("ctx_cancel-at_ended_rpc_not_delivered", 150)
	r.Floor("ctx_cancel-at_ended_after_rpc_executed", 150)
	r.Floor("ctx_deadline-at_ended_rpc_not_delivered", 150)
	r.Floor("ctx_deadline-at_ended_after_rpc_executed", 150)
	r.Floor("ctx_readbacks", 200)
	r.Floor("ctx_failed_mutation_left_a_mix", 30)
}
