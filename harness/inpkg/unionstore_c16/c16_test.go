//go:build verif

package unionstore

// C16 (in-package part): PipelinedMemDB under generated programs with a scripted flush function and a
// scripted batch getter that stands for the store.
//
// The monitor is a three-tier reference model
//
//	mutable  (writes since the last triggered flush, with a stack of staging layers)
//	flushing (the generation handed to the flush function whose result has not been consumed yet)
//	store    (generations whose flush succeeded; this is what the scripted batch getter serves)
//
// and it decides, for every execution:
//
//	read      Get / BatchGet return the latest write of the transaction whichever tier holds it; a deletion
//	          hides every older value (also through the batch-get cache)
//	handoff   a triggered Flush hands exactly the mutable tier (last writer per key, deletions included) to
//	          exactly one invocation of the flush function; nothing is handed when Flush reports "not triggered";
//	          the buffer handed over does not change while the flush runs
//	gen       generations strictly increase
//	inflight  the flush function is never entered while another invocation is running
//	error     a failed flush is reported by a later Flush / FlushWait, at the latest by the closing
//	          Flush(true)+FlushWait (that is what Commit does); it is never swallowed
//	progress  a Flush / FlushWait / Len / Dirty that has not returned although no invocation of the flush function
//	          is running or held (the flush function is the harness's own: "in flight" is exactly known) and
//	          still has not after a ten-fold bound is blocked for good: nothing is left that could wake it up.
//	          That is judged in particular after an error has been reported ("a flush error makes the
//	          transaction fail": the application goes on to FlushWait - that is what Rollback does - or to
//	          another Flush): every program carries a tail of such calls that runs once Flush or FlushWait
//	          has reported a failure; in the tail only progress, generations and "one flush at a time" are judged
//
// Flush durations are scripted relative to the following operations: a flush either returns at once or is
// held until a later "release" step of the program, or until the driver has to release it because the
// buffer blocks in Flush/FlushWait waiting for it.

import (
	"bytes"
	"context"
	"errors"
	"fmt"
	"math/rand"
	"runtime"
	"sort"
	"strings"
	"sync"
	"sync/atomic"
	"testing"
	"time"

	"github.com/pingcap/failpoint"
	tikverr "github.com/tikv/client-go/v2/error"
	"github.com/tikv/client-go/v2/kv"
	"github.com/tikv/client-go/v2/util"
	"github.com/tikv/client-go/v2/verifh/vrep"
)

// ---------------------------------------------------------------- program

type c16Step struct {
	Op    string   `json:"op"` // set del get bget flush flushwait release stage srelease scleanup flags
	Key   string   `json:"key,omitempty"`
	Val   string   `json:"val,omitempty"`
	Keys  []string `json:"keys,omitempty"`
	Force bool     `json:"force,omitempty"`
	// for flush: how the flush function behaves if this call triggers a flush
	Hold bool `json:"hold,omitempty"` // held until a release step / until the buffer waits for it
	Fail bool `json:"fail,omitempty"` // the flush function returns an error
	// Partial: how many of the mutations the "store" already shows while the flush is still running
	Partial int `json:"partial,omitempty"`
}

type c16Program struct {
	MinKeys   int       `json:"min_flush_keys"`
	MinSize   int       `json:"min_flush_size"`
	ForceSize int       `json:"force_flush_size"`
	Steps     []c16Step `json:"steps"`
	// Tail runs instead of the rest of Steps once Flush or FlushWait has reported an error
	Tail []c16Step `json:"tail_after_reported_error,omitempty"`
}

// c16GenTail draws what the application does after it has been told that a flush failed: it waits (Rollback
// calls FlushWait), flushes again, asks Len / Dirty, writes on.  Own random stream: the programs themselves
// do not depend on it.
func c16GenTail(rng *rand.Rand, id int) []c16Step {
	var out []c16Step
	n := 2 + rng.Intn(5)
	for i := 0; i < n; i++ {
		switch x := rng.Intn(100); {
		case x < 30:
			out = append(out, c16Step{Op: "flushwait"})
		case x < 55:
			out = append(out, c16Step{Op: "flush", Force: true, Hold: rng.Intn(3) == 0, Fail: rng.Intn(4) == 0})
		case x < 65:
			out = append(out, c16Step{Op: "flush", Hold: rng.Intn(3) == 0, Fail: rng.Intn(4) == 0})
		case x < 73:
			out = append(out, c16Step{Op: "len"})
		case x < 81:
			out = append(out, c16Step{Op: "dirty"})
		case x < 93:
			out = append(out, c16Step{Op: "set", Key: c16Keys[rng.Intn(len(c16Keys))], Val: fmt.Sprintf("t%d.%d", id, i)})
		default:
			out = append(out, c16Step{Op: "release"})
		}
	}
	if rng.Intn(2) == 0 {
		out = append(out, c16Step{Op: "flush", Force: true}, c16Step{Op: "flushwait"})
	}
	return out
}

func (s c16Step) String() string {
	switch s.Op {
	case "set":
		return fmt.Sprintf("set(%s,%s)", s.Key, c16short(s.Val))
	case "del", "get", "flags":
		return fmt.Sprintf("%s(%s)", s.Op, s.Key)
	case "bget":
		return fmt.Sprintf("bget(%s)", strings.Join(s.Keys, ","))
	case "flush":
		return fmt.Sprintf("flush(force=%v,hold=%v,fail=%v,partial=%d)", s.Force, s.Hold, s.Fail, s.Partial)
	}
	return s.Op
}

func c16short(v string) string {
	if len(v) > 12 {
		return fmt.Sprintf("%s..(%d)", v[:8], len(v))
	}
	return v
}

var c16Keys = []string{"a", "a\x00", "ab", "b", "c", "c1"}

func c16Gen(rng *rand.Rand, id int) c16Program {
	p := c16Program{
		MinKeys:   []int{1, 2, 3, 5}[rng.Intn(4)],
		MinSize:   []int{0, 1, 1, 6000}[rng.Intn(4)],
		ForceSize: []int{1, 9000, 1 << 40, 1 << 40}[rng.Intn(4)],
	}
	nk := 2 + rng.Intn(len(c16Keys)-1)
	keys := c16Keys[:nk]
	n := 8 + rng.Intn(34)
	failPct := 0
	if rng.Intn(4) == 0 {
		failPct = 25
	}
	holdPct := []int{0, 50, 90}[rng.Intn(3)]
	flushPct := []int{10, 22, 35}[rng.Intn(3)]
	stageDepth := 0
	vn := 0
	for i := 0; i < n; i++ {
		x := rng.Intn(100)
		k := keys[rng.Intn(len(keys))]
		switch {
		case x < flushPct && stageDepth == 0:
			st := c16Step{Op: "flush", Force: rng.Intn(3) != 0, Hold: rng.Intn(100) < holdPct, Fail: rng.Intn(100) < failPct, Partial: rng.Intn(4)}
			p.Steps = append(p.Steps, st)
		case x < flushPct+4 && stageDepth == 0:
			p.Steps = append(p.Steps, c16Step{Op: "flushwait"})
		case x < flushPct+12:
			p.Steps = append(p.Steps, c16Step{Op: "release"})
		case x < flushPct+12+22:
			vn++
			v := fmt.Sprintf("p%d.%d", id, vn)
			if rng.Intn(12) == 0 {
				v += strings.Repeat("x", 3000+rng.Intn(3000)) // moves the size thresholds
			}
			p.Steps = append(p.Steps, c16Step{Op: "set", Key: k, Val: v})
		case x < flushPct+12+22+9:
			p.Steps = append(p.Steps, c16Step{Op: "del", Key: k})
		case x < flushPct+12+22+9+18:
			p.Steps = append(p.Steps, c16Step{Op: "get", Key: k})
		case x < flushPct+12+22+9+18+10:
			m := 1 + rng.Intn(4)
			var ks []string
			for j := 0; j < m; j++ {
				ks = append(ks, keys[rng.Intn(len(keys))])
			}
			p.Steps = append(p.Steps, c16Step{Op: "bget", Keys: ks})
		case x < flushPct+12+22+9+18+10+3:
			p.Steps = append(p.Steps, c16Step{Op: "flags", Key: k})
		default:
			// staging: open / release / clean up (never flushed while a stage is open: the buffer refuses that,
			// the statement leaves it open)
			y := rng.Intn(3)
			switch {
			case y == 0 && stageDepth < 2:
				stageDepth++
				p.Steps = append(p.Steps, c16Step{Op: "stage"})
			case y == 1 && stageDepth > 0:
				stageDepth--
				p.Steps = append(p.Steps, c16Step{Op: "srelease"})
			case y == 2 && stageDepth > 0:
				stageDepth--
				p.Steps = append(p.Steps, c16Step{Op: "scleanup"})
			default:
				p.Steps = append(p.Steps, c16Step{Op: "get", Key: k})
			}
		}
	}
	for ; stageDepth > 0; stageDepth-- {
		if rng.Intn(2) == 0 {
			p.Steps = append(p.Steps, c16Step{Op: "srelease"})
		} else {
			p.Steps = append(p.Steps, c16Step{Op: "scleanup"})
		}
	}
	// a few reads after the last write, then the closing sequence of Commit
	for j := 0; j < 2; j++ {
		p.Steps = append(p.Steps, c16Step{Op: "get", Key: keys[rng.Intn(len(keys))]})
	}
	p.Steps = append(p.Steps, c16Step{Op: "flush", Force: true, Hold: rng.Intn(2) == 0, Fail: rng.Intn(100) < failPct, Partial: rng.Intn(4)})
	p.Steps = append(p.Steps, c16Step{Op: "get", Key: keys[rng.Intn(len(keys))]})
	p.Steps = append(p.Steps, c16Step{Op: "bget", Keys: append([]string(nil), keys...)})
	p.Steps = append(p.Steps, c16Step{Op: "flushwait"})
	for _, k := range keys {
		p.Steps = append(p.Steps, c16Step{Op: "get", Key: k})
	}
	return p
}

// c16Directed are fixed programs for the shapes the statement names explicitly; they run before the generated ones.
func c16Directed() []c16Program {
	st := func(op string, a ...string) c16Step {
		s := c16Step{Op: op}
		if op == "bget" {
			s.Keys = a
			return s
		}
		if len(a) > 0 {
			s.Key = a[0]
		}
		if len(a) > 1 {
			s.Val = a[1]
		}
		return s
	}
	fl := func(hold, fail bool) c16Step { return c16Step{Op: "flush", Force: true, Hold: hold, Fail: fail} }
	closing := []c16Step{fl(false, false), st("flushwait"), st("get", "a"), st("get", "b")}
	progs := [][]c16Step{
		// 1: a write made in a stage, cached by BatchGet, then cleaned up
		{st("stage"), st("set", "a", "d1.1"), st("bget", "a"), st("scleanup"), st("get", "a"), st("bget", "a")},
		// 2: a flushed value hidden by a staged deletion that is cached and then cleaned up
		{st("set", "a", "d2.1"), fl(false, false), st("flushwait"), st("stage"), st("del", "a"), st("bget", "a", "b"), st("scleanup"), st("get", "a")},
		// 3: reads while the flush is running, overwrite, second flush waits for the first
		{st("set", "a", "d3.1"), fl(true, false), st("get", "a"), st("bget", "a", "b"), st("set", "a", "d3.2"), st("get", "a"), fl(true, false), st("get", "a"), st("flushwait"), st("get", "a")},
		// 4: a flushed deletion hides at the store level
		{st("set", "a", "d4.1"), fl(false, false), st("del", "a"), fl(false, false), st("flushwait"), st("get", "a"), st("bget", "a")},
		// 5: a value cached before a later write, the key then leaves both buffers
		{st("set", "a", "d5.1"), st("bget", "a"), fl(false, false), st("set", "a", "d5.2"), fl(false, false), st("flushwait"), st("get", "a")},
		// 6: failed flush reported by FlushWait
		{st("set", "a", "d6.1"), fl(false, true), st("get", "a"), st("flushwait")},
		// 7: failed flush (still running when the next write arrives) reported by the next Flush
		{st("set", "a", "d7.1"), fl(true, true), st("set", "b", "d7.2"), st("get", "a"), fl(false, false), st("flushwait")},
		// 8: threshold-driven flush while the previous one is running and the buffer is over the force threshold
		{st("set", "a", "d8.1"), fl(true, false), st("set", "b", "d8.2"), {Op: "flush"}, st("get", "a"), st("get", "b"), st("flushwait")},
		// 9: background flush fails while it is held -> the next forced Flush reports it -> tail
		{st("set", "a", "d9.1"), fl(true, true), st("set", "b", "d9.2"), fl(false, false)},
		// 10: the same, picked up by a threshold-driven Flush (buffer over the force threshold)
		{st("set", "a", "d10.1"), fl(true, true), st("set", "b", "d10.2"), {Op: "flush"}},
		// 11: the flush has failed long before the next Flush asks
		{st("set", "a", "d11.1"), fl(false, true), st("get", "a"), st("set", "b", "d11.2"), fl(false, false)},
		// 12: reported by FlushWait (control), then the same tail
		{st("set", "a", "d12.1"), fl(true, true), st("set", "b", "d12.2"), st("flushwait")},
		// 13: a second generation fails; two successful ones before it
		{st("set", "a", "d13.1"), fl(false, false), st("set", "b", "d13.2"), fl(true, true), st("set", "a", "d13.3"), fl(false, false)},
	}
	tails := [][]c16Step{
		{st("flushwait"), st("len"), st("dirty"), fl(false, false), st("flushwait")},
		{fl(false, false), st("flushwait"), st("len"), st("dirty")},
		{st("len"), st("dirty"), st("flushwait"), st("flushwait"), fl(true, true), st("set", "c", "dt.1"), fl(false, false), st("flushwait")},
	}
	var out []c16Program
	for i, steps := range progs {
		p := c16Program{MinKeys: 1, MinSize: 0, ForceSize: 1 << 40, Steps: append(steps, closing...), Tail: tails[0]}
		if i == 7 || i == 9 {
			p.ForceSize = 1
		}
		out = append(out, p)
		if i >= 8 {
			for _, tl := range tails[1:] {
				q := p
				q.Tail = tl
				out = append(out, q)
			}
		}
	}
	return out
}

// ---------------------------------------------------------------- model

// c16Val is a write: a value or a deletion.
type c16Val struct {
	del bool
	v   string
}

type c16Model struct {
	layers   []map[string]c16Val // [0] = mutable buffer outside stages, then one layer per open stage
	flushing map[string]c16Val   // nil when no generation is unconsumed
	store    map[string]c16Val
}

func newC16Model() *c16Model {
	return &c16Model{layers: []map[string]c16Val{{}}, store: map[string]c16Val{}}
}

func (m *c16Model) write(k string, v c16Val) { m.layers[len(m.layers)-1][k] = v }

// lookup returns the latest write of the transaction and the tier that holds it.
func (m *c16Model) lookup(k string) (c16Val, string) {
	for i := len(m.layers) - 1; i >= 0; i-- {
		if v, ok := m.layers[i][k]; ok {
			return v, "mutable"
		}
	}
	if v, ok := m.flushing[k]; ok {
		return v, "flushing"
	}
	if v, ok := m.store[k]; ok {
		return v, "flushed"
	}
	return c16Val{}, "none"
}

// mutable returns the flattened mutable tier.
func (m *c16Model) mutable() map[string]c16Val {
	out := map[string]c16Val{}
	for _, l := range m.layers {
		for k, v := range l {
			out[k] = v
		}
	}
	return out
}

// ---------------------------------------------------------------- scripted store and flush function

type c16Flush struct {
	gen     uint64
	content map[string]c16Val // what the flush function found in the buffer at entry
	keys    []string          // sorted
	atExit  map[string]c16Val // what it found just before returning
	hold    bool
	fail    bool
	partial int
	release chan struct{}
	exited  chan struct{}
	// overlapped: another invocation was running at entry
	overlapped bool
	released   bool
	settled    bool
}

var errC16Injected = errors.New("verif: injected flush failure")

type c16Env struct {
	mu       sync.Mutex
	store    map[string]c16Val // the scripted store the batch getter serves
	flushes  []*c16Flush
	entered  chan *c16Flush
	active   atomic.Int32
	next     c16Step // behaviour of the next triggered flush
	getCalls int
	getKeys  int
}

func (e *c16Env) batchGetter(_ context.Context, keys [][]byte) (map[string]kv.ValueEntry, error) {
	e.mu.Lock()
	defer e.mu.Unlock()
	e.getCalls++
	e.getKeys += len(keys)
	out := map[string]kv.ValueEntry{}
	for _, k := range keys {
		if v, ok := e.store[string(k)]; ok {
			if v.del {
				// the buffer tier of the real store reports a flushed deletion as a pair with an empty
				// value (protobuf turns it into nil)
				out[string(k)] = kv.NewValueEntry(nil, 0)
			} else {
				out[string(k)] = kv.NewValueEntry([]byte(v.v), 0)
			}
		}
	}
	return out, nil
}

func c16Content(db *MemDB) (map[string]c16Val, error) {
	out := map[string]c16Val{}
	var err error
	for it := db.IterWithFlags(nil, nil); it.Valid(); err = it.Next() {
		if err != nil {
			return out, err
		}
		if !it.HasValue() {
			continue // flags only
		}
		v := it.Value()
		if len(v) == 0 {
			out[string(it.Key())] = c16Val{del: true}
		} else {
			out[string(it.Key())] = c16Val{v: string(v)}
		}
	}
	return out, nil
}

func (e *c16Env) flushFunc(gen uint64, db *MemDB) error {
	f := &c16Flush{gen: gen, release: make(chan struct{}), exited: make(chan struct{})}
	if e.active.Add(1) > 1 {
		f.overlapped = true
	}
	defer close(f.exited)
	defer e.active.Add(-1)
	f.content, _ = c16Content(db)
	for k := range f.content {
		f.keys = append(f.keys, k)
	}
	sort.Strings(f.keys)
	e.mu.Lock()
	f.hold, f.fail, f.partial = e.next.Hold, e.next.Fail, e.next.Partial
	e.flushes = append(e.flushes, f)
	// the store already shows a part of a flush that is still running
	for i, k := range f.keys {
		if i < f.partial {
			e.store[k] = f.content[k]
		}
	}
	e.mu.Unlock()
	e.entered <- f
	if f.hold {
		<-f.release
	}
	f.atExit, _ = c16Content(db)
	if f.fail {
		return errC16Injected
	}
	e.mu.Lock()
	for _, k := range f.keys {
		e.store[k] = f.content[k]
	}
	e.mu.Unlock()
	return nil
}

// ---------------------------------------------------------------- driver

type c16Result struct {
	violations []c16Viol
	inconc     string
	hang       bool
	// observations
	flushes, forced, threshold, held, failed, errReported int
	releasedByWait, releasedByStep                          int
	reads                                                   map[string]int
	afterCache                                              int
	stagingOps                                              int
	shape                                                   []string
	nontrivial                                              bool
	gens                                                    []uint64

	// after an error was reported
	errBy             string // flush | flushwait: the call that reported the first failure ("" none)
	tailSteps         int
	tailBlockingCalls map[string]int
	abandoned         bool // blocked in a state that has already been reported by an earlier program
}

type c16Viol struct {
	sig, msg string
	step     int
	extra    map[string]any
}

const c16Grace = 400 * time.Microsecond

// c16Watchdog bounds how long the driver looks at a call that does not return before it asks whether anything
// is left that could make it return; the answer only counts after ten times that bound.
const c16Watchdog = 2 * time.Second

// c16BlockedReported: blocked states already reported by an earlier program of this run (by signature); later
// programs that reach them are abandoned after the short bound instead of being judged again.
var c16BlockedReported = map[string]bool{}

// c16Goroutines returns the stacks of the goroutines that are inside the buffer.
func c16Goroutines() []string {
	buf := make([]byte, 1<<20)
	buf = buf[:runtime.Stack(buf, true)]
	var out []string
	for _, g := range strings.Split(string(buf), "\n\n") {
		if strings.Contains(g, "PipelinedMemDB") && len(out) < 8 {
			if len(g) > 1500 {
				g = g[:1500]
			}
			out = append(out, g)
		}
	}
	return out
}

func c16Run(p c16Program) (res *c16Result) {
	res = &c16Result{reads: map[string]int{}, tailBlockingCalls: map[string]int{}}
	viol := func(step int, sig, format string, a ...any) {
		res.violations = append(res.violations, c16Viol{sig: sig, msg: fmt.Sprintf("step %d: ", step) + fmt.Sprintf(format, a...), step: step})
	}
	_ = failpoint.Enable("tikvclient/pipelinedMemDBMinFlushKeys", fmt.Sprintf("return(%d)", p.MinKeys))
	_ = failpoint.Enable("tikvclient/pipelinedMemDBMinFlushSize", fmt.Sprintf("return(%d)", p.MinSize))
	_ = failpoint.Enable("tikvclient/pipelinedMemDBForceFlushSizeThreshold", fmt.Sprintf("return(%d)", p.ForceSize))
	env := &c16Env{store: map[string]c16Val{}, entered: make(chan *c16Flush, 16)}
	db := NewPipelinedMemDB(env.batchGetter, env.flushFunc)
	m := newC16Model()
	ctx := context.Background()

	var cur *c16Flush // the flush whose result has not been consumed by the buffer yet
	var handles []int
	pendingFail := false // a flush failed and no call has reported an error since
	cachedSince := map[string]bool{}
	stepNo := 0

	defer func() {
		// never leave a flush goroutine blocked
		env.mu.Lock()
		fl := append([]*c16Flush(nil), env.flushes...)
		env.mu.Unlock()
		for _, f := range fl {
			if f.hold && !f.released {
				f.released = true
				close(f.release)
			}
		}
		if r := recover(); r != nil {
			viol(stepNo, "panic", "the buffer panicked: %v", r)
		}
	}()

	release := func(f *c16Flush) {
		if f != nil && f.hold && !f.released {
			f.released = true
			close(f.release)
		}
	}
	// finished settles the model after flush f has returned.
	finished := func(f *c16Flush) bool {
		select {
		case <-f.exited:
		case <-time.After(20 * time.Second):
			res.inconc = "flush function did not return after release (watchdog)"
			return false
		}
		if f.settled {
			return true
		}
		f.settled = true
		if !c16SameContent(f.content, f.atExit) {
			viol(stepNo, "handoff:buffer-changed-during-flush", "generation %d: the buffer handed to the flush function changed while the flush was running: at entry %s, at exit %s", f.gen, c16Fmt(f.content), c16Fmt(f.atExit))
		}
		return true
	}
	// consume: the buffer has consumed the result of cur (a Flush that waited for it or a FlushWait).
	consume := func(reported error) {
		if cur == nil {
			return
		}
		if !cur.fail {
			for k, v := range cur.content {
				m.store[k] = v
			}
		}
		m.flushing = nil
		cur = nil
		_ = reported
	}
	stepName := func() string {
		if stepNo < len(p.Steps) {
			return p.Steps[stepNo].String()
		}
		if j := stepNo - len(p.Steps); j < len(p.Tail) {
			return "tail:" + p.Tail[j].String()
		}
		return "?"
	}
	// inFlight: invocations of the flush function that have not returned (running or held).  The flush function
	// is the harness's own, so this is exact.
	inFlight := func() (n int, held int) {
		env.mu.Lock()
		defer env.mu.Unlock()
		for _, f := range env.flushes {
			select {
			case <-f.exited:
			default:
				n++
				if f.hold && !f.released {
					held++
				}
			}
		}
		// an invocation that has been entered but is not in the list yet is counted by env.active
		if a := int(env.active.Load()); a > n {
			n = a
		}
		return n, held
	}
	releaseAllHeld := func() {
		env.mu.Lock()
		fl := append([]*c16Flush(nil), env.flushes...)
		env.mu.Unlock()
		for _, f := range fl {
			release(f)
		}
	}
	// blocking runs a call that may wait for the flush in flight; a held flush is released when the call
	// does not return by itself.
	//
	// Bounded progress is decided on a logical condition: every invocation of the flush function has returned
	// (none is running, none is held), so nothing is left that could wake the call up.  The watchdog only bounds
	// how long we look; the state has to persist over a ten-fold bound before it counts.
	blocking := func(name string, call func()) bool {
		done := make(chan struct{})
		var pv any
		go func() {
			defer close(done)
			defer func() { pv = recover() }()
			call()
		}()
		ret := func() bool {
			if pv != nil {
				panic(pv)
			}
			return true
		}
		if cur != nil && cur.hold && !cur.released {
			select {
			case <-done:
				return ret()
			case <-time.After(c16Grace):
				release(cur)
				res.releasedByWait++
			}
		}
		sig := "blocked:" + name + ":no-flush-in-flight"
		first := c16Watchdog
		if c16BlockedReported[sig] {
			// this blocked state has been judged already: do not spend the bound on every program that reaches it
			first = c16Watchdog / 50
		}
		select {
		case <-done:
			return ret()
		case <-time.After(first):
		}
		if n, _ := inFlight(); n != 0 {
			// an invocation is still running (held behind the driver's back, or slow): let everything go and look again
			releaseAllHeld()
			select {
			case <-done:
				return ret()
			case <-time.After(10 * c16Watchdog):
			}
			if n, _ := inFlight(); n != 0 {
				res.inconc = fmt.Sprintf("%s did not return and %d invocation(s) of the flush function did not return after release (watchdog)", name, n)
				return false
			}
		}
		if c16BlockedReported[sig] {
			res.abandoned = true
			return false
		}
		select {
		case <-done:
			return ret()
		case <-time.After(10 * c16Watchdog):
		}
		if n, _ := inFlight(); n != 0 {
			res.inconc = name + " did not return; the flush function is running again (watchdog)"
			return false
		}
		env.mu.Lock()
		nInv := len(env.flushes)
		env.mu.Unlock()
		res.hang = true
		c16BlockedReported[sig] = true
		res.violations = append(res.violations, c16Viol{sig: sig, step: stepNo,
			msg: fmt.Sprintf("step %d: %s (%s) has not returned after %v although no flush is in flight: all %d invocations of the flush function have returned, none is held; first failure reported by %q", stepNo, name, stepName(), 11*c16Watchdog, nInv, res.errBy),
			extra: map[string]any{"goroutines_inside_the_buffer": c16Goroutines(), "flush_function_invocations": nInv, "flush_function_running": 0}})
		return false
	}

	// tail: what the application does after it has been told that a flush failed.  Reads and hand-off contents
	// are not judged any more (the transaction has failed); progress, generations and "one at a time" are.
	runTail := func() {
		for j, st := range p.Tail {
			stepNo = len(p.Steps) + j
			res.tailSteps++
			switch st.Op {
			case "set":
				_ = db.Set([]byte(st.Key), []byte(st.Val))
			case "len":
				res.tailBlockingCalls["len"]++
				if !blocking("len", func() { _ = db.Len() }) {
					return
				}
			case "dirty":
				res.tailBlockingCalls["dirty"]++
				if !blocking("dirty", func() { _ = db.Dirty() }) {
					return
				}
			case "release":
				if cur != nil && cur.hold && !cur.released {
					release(cur)
					if !finished(cur) {
						return
					}
				}
			case "flushwait":
				prev := cur
				res.tailBlockingCalls["flushwait"]++
				if !blocking("flushwait", func() { _ = db.FlushWait() }) {
					return
				}
				if prev != nil && prev.released && !finished(prev) {
					return
				}
				cur = nil
			case "flush":
				env.mu.Lock()
				env.next = st
				env.mu.Unlock()
				prev := cur
				var trig bool
				var err error
				res.tailBlockingCalls["flush"]++
				if !blocking("flush", func() { trig, err = db.Flush(st.Force) }) {
					return
				}
				if err != nil {
					cur = nil // the result of the flush in flight has been consumed
					continue
				}
				if !trig {
					continue
				}
				var f *c16Flush
				select {
				case f = <-env.entered:
				case <-time.After(30 * time.Second):
					viol(stepNo, "handoff:flush-func-never-called", "Flush(force=%v) returned triggered=true but the flush function was not invoked within 30 s", st.Force)
					return
				}
				res.flushes++
				if f.overlapped {
					viol(stepNo, "inflight:two-flushes", "the flush function was entered for generation %d while the previous invocation (generation %v) was still running", f.gen, c16PrevGen(env, f))
				}
				if prev != nil {
					release(prev)
					if !finished(prev) {
						return
					}
				}
				if n := len(res.gens); n > 0 && f.gen <= res.gens[n-1] {
					viol(stepNo, "gen:not-increasing", "flush generation %d follows generation %d", f.gen, res.gens[n-1])
				}
				res.gens = append(res.gens, f.gen)
				cur = f
				if !f.hold && !finished(f) {
					return
				}
			}
		}
	}

	for i, st := range p.Steps {
		stepNo = i
		switch st.Op {
		case "set":
			if err := db.Set([]byte(st.Key), []byte(st.Val)); err != nil {
				viol(i, "write:error", "Set(%q) failed: %v", st.Key, err)
				return
			}
			m.write(st.Key, c16Val{v: st.Val})
			res.shape = append(res.shape, "set")
		case "del":
			if err := db.Delete([]byte(st.Key)); err != nil {
				viol(i, "write:error", "Delete(%q) failed: %v", st.Key, err)
				return
			}
			m.write(st.Key, c16Val{del: true})
			res.shape = append(res.shape, "del")
		case "flags":
			db.UpdateFlags([]byte(st.Key), kv.SetNeedConstraintCheckInPrewrite)
			res.shape = append(res.shape, "flags")
		case "stage":
			handles = append(handles, db.Staging())
			m.layers = append(m.layers, map[string]c16Val{})
			res.stagingOps++
			res.shape = append(res.shape, "stage")
		case "srelease":
			h := handles[len(handles)-1]
			handles = handles[:len(handles)-1]
			db.Release(h)
			top := m.layers[len(m.layers)-1]
			m.layers = m.layers[:len(m.layers)-1]
			for k, v := range top {
				m.layers[len(m.layers)-1][k] = v
			}
			res.stagingOps++
			res.shape = append(res.shape, "srelease")
		case "scleanup":
			h := handles[len(handles)-1]
			handles = handles[:len(handles)-1]
			db.Cleanup(h)
			m.layers = m.layers[:len(m.layers)-1]
			res.stagingOps++
			res.shape = append(res.shape, "scleanup")
		case "get":
			want, tier := m.lookup(st.Key)
			got, err := db.Get(ctx, []byte(st.Key))
			cls := tier
			if want.del {
				cls += "-del"
			}
			if cachedSince[st.Key] && (tier == "flushed" || tier == "none") {
				res.afterCache++
				cls += "+cached"
			}
			res.reads["get:"+cls]++
			res.shape = append(res.shape, "get:"+cls)
			if tier == "flushing" || tier == "flushed" {
				res.nontrivial = true
			}
			if msg := c16CheckRead(want, tier, got.Value, err, true); msg != "" {
				viol(i, "read:get:"+c16Sig(want, tier, got.Value, err), "Get(%q) %s; the latest write of the transaction is held by tier %q", st.Key, msg, tier)
			}
		case "bget":
			var ks [][]byte
			for _, k := range st.Keys {
				ks = append(ks, []byte(k))
			}
			got, err := db.BatchGet(ctx, ks)
			if err != nil {
				viol(i, "read:bget:error", "BatchGet(%q) failed: %v", st.Keys, err)
				return
			}
			shape := "bget"
			for _, k := range st.Keys {
				want, tier := m.lookup(k)
				cls := tier
				if want.del {
					cls += "-del"
				}
				res.reads["bget:"+cls]++
				shape += ":" + cls
				if tier == "flushing" || tier == "flushed" {
					res.nontrivial = true
				}
				e, ok := got[k]
				var gerr error
				if !ok {
					gerr = tikverr.ErrNotExist
				}
				if msg := c16CheckRead(want, tier, e.Value, gerr, false); msg != "" {
					viol(i, "read:bget:"+c16Sig(want, tier, e.Value, gerr), "BatchGet(%q) for key %q %s; the latest write of the transaction is held by tier %q", st.Keys, k, msg, tier)
				}
				cachedSince[k] = true
			}
			for k := range got {
				found := false
				for _, q := range st.Keys {
					found = found || q == k
				}
				if !found {
					viol(i, "read:bget:unrequested-key", "BatchGet(%q) returned key %q that was not asked for", st.Keys, k)
				}
			}
			res.shape = append(res.shape, shape)
		case "release":
			if cur != nil && cur.hold && !cur.released {
				release(cur)
				res.releasedByStep++
				if !finished(cur) {
					return
				}
				if cur.fail {
					pendingFail = true
				}
				res.shape = append(res.shape, "release")
			}
		case "flush":
			env.mu.Lock()
			env.next = st
			nBefore := len(env.flushes)
			env.mu.Unlock()
			prev := cur
			var trig bool
			var err error
			if !blocking("flush", func() { trig, err = db.Flush(st.Force) }) {
				return
			}
			for k := range cachedSince {
				delete(cachedSince, k)
			}
			if prev != nil && prev.released {
				// the call may have consumed the previous flush's result; make sure that flush is over
				if !finished(prev) {
					return
				}
				if prev.fail {
					pendingFail = true
				}
			}
			if err != nil {
				res.errReported++
				res.shape = append(res.shape, "flush:error")
				if trig {
					viol(i, "flush:triggered-with-error", "Flush(force=%v) returned both triggered=true and error %v", st.Force, err)
				}
				if !pendingFail {
					viol(i, "error:spurious", "Flush(force=%v) returned %v although no flush had failed", st.Force, err)
				}
				pendingFail = false
				c16NoSpuriousFlush(env, nBefore, i, viol)
				// the transaction has been told to fail: the result of the flush in flight has been consumed; the
				// program ends and its tail runs
				consume(err)
				res.errBy = "flush"
				runTail()
				return
			}
			if !trig {
				res.shape = append(res.shape, "flush:no")
				if st.Force {
					viol(i, "flush:forced-not-triggered", "Flush(force=true) returned triggered=false without error")
				}
				c16NoSpuriousFlush(env, nBefore, i, viol)
				continue
			}
			// triggered: exactly one invocation of the flush function with exactly the mutable tier
			var f *c16Flush
			select {
			case f = <-env.entered:
			case <-time.After(30 * time.Second):
				viol(i, "handoff:flush-func-never-called", "Flush(force=%v) returned triggered=true but the flush function was not invoked within 30 s", st.Force)
				return
			}
			res.flushes++
			if st.Force {
				res.forced++
			} else {
				res.threshold++
			}
			if f.hold {
				res.held++
			}
			if f.fail {
				res.failed++
			}
			res.shape = append(res.shape, fmt.Sprintf("flush:%v:hold=%v:fail=%v", map[bool]string{true: "force", false: "thr"}[st.Force], f.hold, f.fail))
			if f.overlapped {
				viol(i, "inflight:two-flushes", "the flush function was entered for generation %d while the previous invocation (generation %v) was still running", f.gen, c16PrevGen(env, f))
			}
			if prev != nil {
				// the buffer started a new flush: it must have waited for the previous one and consumed its result
				if !prev.released && prev.hold {
					// still held: overlap (reported above through f.overlapped)
					release(prev)
				}
				if !finished(prev) {
					return
				}
				if prev.fail {
					// a new generation was started although the previous flush failed and the error was not returned
					viol(i, "error:swallowed-by-next-flush", "generation %d failed with %q but Flush(force=%v) returned nil and started generation %d", prev.gen, errC16Injected, st.Force, f.gen)
					pendingFail = false
				}
				consume(nil)
			}
			if n := len(res.gens); n > 0 && f.gen <= res.gens[n-1] {
				viol(i, "gen:not-increasing", "flush generation %d follows generation %d", f.gen, res.gens[n-1])
			}
			res.gens = append(res.gens, f.gen)
			want := m.mutable()
			if !c16SameContent(want, f.content) {
				viol(i, "handoff:"+c16DiffSig(want, f.content), "generation %d: the flush function received %s but the writes buffered since the previous flush are %s", f.gen, c16Fmt(f.content), c16Fmt(want))
			}
			// on disagreement the violation is recorded and the model keeps its own view
			m.flushing = want
			m.layers = []map[string]c16Val{{}}
			cur = f
			if !f.hold {
				if !finished(f) {
					return
				}
				if f.fail {
					pendingFail = true
				}
			}
			c16NoSpuriousFlush(env, nBefore+1, i, viol)
		case "flushwait":
			prev := cur
			var err error
			if !blocking("flushwait", func() { err = db.FlushWait() }) {
				return
			}
			if prev != nil {
				if !finished(prev) {
					return
				}
				if prev.fail {
					pendingFail = true
				}
			}
			if err != nil {
				res.errReported++
				res.shape = append(res.shape, "flushwait:error")
				if !pendingFail {
					viol(i, "error:spurious", "FlushWait returned %v although no flush had failed", err)
				}
				pendingFail = false
				consume(err)
				res.errBy = "flushwait"
				runTail()
				return
			}
			res.shape = append(res.shape, "flushwait")
			if prev != nil && prev.fail {
				viol(i, "error:swallowed-by-flushwait", "generation %d failed with %q but FlushWait returned nil", prev.gen, errC16Injected)
				pendingFail = false
			}
			consume(nil)
		}
	}
	// the program ends with Flush(true); FlushWait(): everything must have been handed over, every failure reported
	if pendingFail {
		viol(len(p.Steps), "error:never-reported", "a flush failed but no Flush/FlushWait up to the closing Flush(true)+FlushWait returned an error")
	}
	if left := m.mutable(); len(left) != 0 {
		viol(len(p.Steps), "handoff:never-flushed", "writes %s were never handed to a flush", c16Fmt(left))
	}
	env.mu.Lock()
	n := len(env.flushes)
	env.mu.Unlock()
	if n != res.flushes {
		viol(len(p.Steps), "handoff:extra-flush", "the flush function was invoked %d times for %d triggered flushes", n, res.flushes)
	}
	return
}

func c16PrevGen(env *c16Env, f *c16Flush) any {
	env.mu.Lock()
	defer env.mu.Unlock()
	for i, x := range env.flushes {
		if x == f && i > 0 {
			return env.flushes[i-1].gen
		}
	}
	return "?"
}

func c16NoSpuriousFlush(env *c16Env, want int, step int, viol func(int, string, string, ...any)) {
	env.mu.Lock()
	n := len(env.flushes)
	env.mu.Unlock()
	if n > want {
		viol(step, "handoff:extra-flush", "the flush function has been invoked %d times, %d flushes were reported as triggered", n, want)
	}
}

// c16CheckRead compares one read with the model.  isGet: Get (an absent key is ErrNotExist); otherwise a
// BatchGet entry (absent = not in the map, passed in as ErrNotExist).
func c16CheckRead(want c16Val, tier string, got []byte, err error, isGet bool) string {
	if err != nil && !tikverr.IsErrNotFound(err) {
		return fmt.Sprintf("failed: %v", err)
	}
	switch {
	case tier == "none":
		// never written by the transaction: the buffer has nothing
		if err == nil {
			return fmt.Sprintf("returned %q for a key the transaction never wrote", c16short(string(got)))
		}
	case want.del:
		// A deletion hides older values at every level.  At this interface that means the empty tombstone
		// value: "not found" would tell the union store / batch getter above that the transaction has no write
		// of the key, and they would go on to the snapshot and return the value the deletion has to hide.
		if err == nil && len(got) != 0 {
			return fmt.Sprintf("returned %q although the latest write of the key is a deletion", c16short(string(got)))
		}
		if err != nil {
			return "reports the key as not written by the transaction although its latest write is a deletion (the caller falls through to the snapshot)"
		}
	default:
		if err != nil {
			return fmt.Sprintf("reports the key as missing, want %q", c16short(want.v))
		}
		if !bytes.Equal(got, []byte(want.v)) {
			return fmt.Sprintf("returned %q, want %q", c16short(string(got)), c16short(want.v))
		}
	}
	return ""
}

func c16Sig(want c16Val, tier string, got []byte, err error) string {
	w := "value"
	if tier == "none" {
		w = "nothing"
	} else if want.del {
		w = "deleted"
	}
	g := "other-value"
	switch {
	case err != nil && tikverr.IsErrNotFound(err):
		g = "missing"
	case err != nil:
		g = "error"
	case len(got) == 0:
		g = "empty"
	}
	return fmt.Sprintf("tier=%s:want=%s:got=%s", tier, w, g)
}

func c16SameContent(a, b map[string]c16Val) bool {
	if len(a) != len(b) {
		return false
	}
	for k, v := range a {
		if w, ok := b[k]; !ok || w != v {
			return false
		}
	}
	return true
}

func c16DiffSig(want, got map[string]c16Val) string {
	var parts []string
	missDel, missPut, extra, wrong := false, false, false, false
	for k, v := range want {
		g, ok := got[k]
		switch {
		case !ok && v.del:
			missDel = true
		case !ok:
			missPut = true
		case g != v:
			wrong = true
		}
	}
	for k := range got {
		if _, ok := want[k]; !ok {
			extra = true
		}
	}
	if missDel {
		parts = append(parts, "deletion-missing")
	}
	if missPut {
		parts = append(parts, "put-missing")
	}
	if wrong {
		parts = append(parts, "wrong-value")
	}
	if extra {
		parts = append(parts, "extra-mutation")
	}
	return strings.Join(parts, "+")
}

func c16Fmt(m map[string]c16Val) string {
	var ks []string
	for k := range m {
		ks = append(ks, k)
	}
	sort.Strings(ks)
	var sb strings.Builder
	sb.WriteString("{")
	for i, k := range ks {
		if i > 0 {
			sb.WriteString(" ")
		}
		if m[k].del {
			fmt.Fprintf(&sb, "%q:DEL", k)
		} else {
			fmt.Fprintf(&sb, "%q:%s", k, c16short(m[k].v))
		}
	}
	sb.WriteString("}")
	return sb.String()
}

// ---------------------------------------------------------------- test

func TestVerifC16PipelinedMemDB(t *testing.T) {
	r := vrep.New("C16", "c16-pipelined-memdb", "generated programs (set/delete/get/batch-get/flush force|threshold/flush-wait/staging open-release-cleanup/flag updates over 2-6 keys incl. prefixes of each other, flush thresholds lowered through the pipelinedMemDB* failpoints) on the real PipelinedMemDB with a scripted flush function (returns at once | held until a later step or until the buffer waits for it; succeeds | fails; the store already shows a part of a running flush) and a scripted batch getter; monitor = three-tier model (mutable with staging layers, flushing, store): every Get/BatchGet vs latest write incl. deletions and the batch-get cache, content of every hand-off vs the mutable tier, buffer unchanged while flushing, generations increase, flush function never entered twice at once, every flush failure reported by a later Flush/FlushWait; once a failure has been reported the program's tail runs (FlushWait - what Rollback does -, Flush forced or not with scripted hold/failure, Len, Dirty, writes, release): no call stays blocked while no invocation of the flush function is running or held (exact: the flush function is the harness's; judged after a ten-fold bound), generations still increase, still one flush at a time; distinct = distinct operation/tier shapes of programs that flushed and read from the flushing or flushed tier")
	defer r.Finish(t)
	util.EnableFailpoints()
	defer failpoint.Disable("tikvclient/pipelinedMemDBMinFlushKeys")
	defer failpoint.Disable("tikvclient/pipelinedMemDBMinFlushSize")
	defer failpoint.Disable("tikvclient/pipelinedMemDBForceFlushSizeThreshold")
	rng := vrep.Rand("c16-memdb")
	tailRng := vrep.Rand("c16-memdb-tail")
	n := vrep.Pick(4000, 60000)
	hangs := 0
	directed := c16Directed()
	for id := -len(directed); id < n && hangs < 4; id++ {
		var p c16Program
		if id < 0 {
			p = directed[-id-1]
			r.Count("directed_programs", 1)
		} else {
			p = c16Gen(rng, id)
			p.Tail = c16GenTail(tailRng, id)
		}
		res := c16Run(p)
		r.Eval(1)
		r.Count("programs", 1)
		if res.inconc != "" {
			r.Inconc("program %d: %s", id, res.inconc)
			if hangs++; hangs >= 4 {
				break
			}
			continue
		}
		if res.hang {
			hangs++
		}
		if res.abandoned {
			r.Count("programs_abandoned_in_a_blocked_state_already_reported", 1)
		}
		if res.errBy != "" {
			r.Count("tail_after_error_reported_by:"+res.errBy, 1)
			r.Count("tail_steps", res.tailSteps)
			for k, v := range res.tailBlockingCalls {
				r.Count("tail_call:"+k+":after_error_reported_by:"+res.errBy, v)
				r.Eval(v)
			}
		}
		r.Count("flushes", res.flushes)
		r.Count("flushes_forced", res.forced)
		r.Count("flushes_threshold_driven", res.threshold)
		r.Count("flushes_held", res.held)
		r.Count("flushes_failed", res.failed)
		r.Count("flush_errors_reported", res.errReported)
		r.Count("held_flush_released_by_later_step", res.releasedByStep)
		r.Count("held_flush_released_because_buffer_waited", res.releasedByWait)
		r.Count("generations", len(res.gens))
		r.Count("staging_ops", res.stagingOps)
		r.Count("gets_below_buffers_after_batchget_without_flush", res.afterCache)
		for k, v := range res.reads {
			r.Count("read:"+k, v)
			r.Eval(v)
		}
		if res.nontrivial && res.flushes > 0 {
			r.Distinct(strings.Join(res.shape, " "))
		}
		if r.SampleN() < 3 && res.flushes >= 2 && res.nontrivial && id%7 == 3 {
			var steps []string
			for _, s := range p.Steps {
				steps = append(steps, s.String())
			}
			r.Sample(map[string]any{"program": id, "thresholds": []int{p.MinKeys, p.MinSize, p.ForceSize}, "steps": steps, "observed": res.shape, "generations": res.gens})
		}
		for _, v := range res.violations {
			var steps []string
			for i, s := range p.Steps {
				if i > v.step {
					break
				}
				steps = append(steps, s.String())
			}
			for j, s := range p.Tail {
				if len(p.Steps)+j <= v.step {
					steps = append(steps, "tail:"+s.String())
				}
			}
			detail := map[string]any{"program_id": id, "program": p, "steps_until_failure": steps}
			for k, x := range v.extra {
				detail[k] = x
			}
			r.Violate("memdb:"+v.sig, fmt.Sprintf("program %d: %s", id, v.msg), detail)
		}
	}
	r.Floor("flushes", 1000)
	r.Floor("flushes_threshold_driven", 50)
	r.Floor("flushes_held", 200)
	r.Floor("flush_errors_reported", 20)
	// the family "the application goes on after it was told that a flush failed"
	r.Floor("tail_after_error_reported_by:flush", 100)
	r.Floor("tail_after_error_reported_by:flushwait", 50)
	r.Floor("tail_call:flushwait:after_error_reported_by:flush", 100)
	r.Floor("tail_call:flush:after_error_reported_by:flush", 100)
	r.Floor("tail_call:len:after_error_reported_by:flush", 20)
	r.Floor("tail_call:dirty:after_error_reported_by:flush", 20)
	r.Floor("read:get:flushing", 100)
	r.Floor("read:get:flushed", 100)
	r.Floor("read:get:flushed-del", 20)
	r.Floor("read:bget:flushing", 100)
	r.Floor("read:bget:flushed", 100)
	r.Floor("gets_below_buffers_after_batchget_without_flush", 20)
}
