//go:build verif

package oracles

// C13 — shared pieces of the timestamp monitors: the event record, the
// real-time-order checker, the expiry sandwich and the caller workload that is
// run against the pd oracle (over the scripted PD verifh/vtso), the mock
// oracle and the local oracle.

import (
	"context"
	"fmt"
	"math"
	"math/rand"
	"sort"
	"sync"
	"sync/atomic"
	"time"

	"github.com/pingcap/log"
	"github.com/tikv/client-go/v2/oracle"
	"github.com/tikv/client-go/v2/verifh/vrep"
	"github.com/tikv/client-go/v2/verifh/vtso"
	"go.uber.org/zap/zapcore"
)

const (
	c13KindTS = iota // GetTimestamp / GetTimestampAsync.Wait
	c13KindLR        // GetLowResolutionTimestamp(±Async)
)

// c13Ev is one completed call: Inv/Ret are numbers from the one atomic event
// sequencer taken immediately before the call was invoked and immediately
// after it returned (never the wall clock).
type c13Ev struct {
	Kind   int    `json:"kind"`
	Scope  string `json:"scope"`
	Caller int    `json:"caller"`
	Op     string `json:"op"`
	Inv    int64  `json:"inv"`
	Ret    int64  `json:"ret"`
	Val    uint64 `json:"val"`
}

var c13QuietOnce sync.Once

func c13Quiet() {
	c13QuietOnce.Do(func() { log.SetLevel(zapcore.FatalLevel) })
}

func c13ScopeKey(s string) string {
	if s == "" {
		return oracle.GlobalTxnScope
	}
	return s
}

// c13RealTime decides: for all events A,B with A.Ret < B.Inv (A returned
// before B was invoked), A.Val < B.Val (strict) or A.Val <= B.Val.  It returns
// the first offending pair.  O(n log n): sweep B in invocation order keeping
// the largest value among the calls that had already returned.
func c13RealTime(evs []c13Ev, strict bool) (a, b *c13Ev, pairsOrdered int64) {
	byInv := make([]int, len(evs))
	byRet := make([]int, len(evs))
	for i := range evs {
		byInv[i], byRet[i] = i, i
	}
	sort.Slice(byInv, func(x, y int) bool { return evs[byInv[x]].Inv < evs[byInv[y]].Inv })
	sort.Slice(byRet, func(x, y int) bool { return evs[byRet[x]].Ret < evs[byRet[y]].Ret })
	j := 0
	best := -1
	for _, bi := range byInv {
		for j < len(byRet) && evs[byRet[j]].Ret < evs[bi].Inv {
			if best < 0 || evs[byRet[j]].Val > evs[best].Val {
				best = byRet[j]
			}
			j++
		}
		pairsOrdered += int64(j)
		if best >= 0 {
			if evs[best].Val > evs[bi].Val || strict && evs[best].Val == evs[bi].Val {
				return &evs[best], &evs[bi], pairsOrdered
			}
		}
	}
	return nil, nil, pairsOrdered
}

// c13CheckOrder applies clause (a) to the TS events and clause (b, monotone
// part) to the LR events per scope.
func c13CheckOrder(r *vrep.Report, which string, evs []c13Ev, desc any) {
	var ts []c13Ev
	lr := map[string][]c13Ev{}
	for _, e := range evs {
		if e.Kind == c13KindTS {
			ts = append(ts, e)
		} else {
			lr[c13ScopeKey(e.Scope)] = append(lr[c13ScopeKey(e.Scope)], e)
		}
	}
	a, b, pairs := c13RealTime(ts, true)
	r.Eval(len(ts))
	r.Count("ts_events", len(ts))
	r.Count("ts_realtime_ordered_pairs", int(pairs))
	if a != nil {
		r.Violate("order:ts-not-increasing:"+which,
			fmt.Sprintf("%s oracle: %s of caller %d returned %d (ret seq %d) before %s of caller %d was invoked (inv seq %d), which returned %d: not strictly increasing in real-time order",
				which, a.Op, a.Caller, a.Val, a.Ret, b.Op, b.Caller, b.Inv, b.Val),
			map[string]any{"first": a, "second": b, "scenario": desc})
	}
	// duplicates among overlapping calls are only counted (the statement orders
	// non-overlapping calls only)
	seen := map[uint64]int{}
	for _, e := range ts {
		seen[e.Val]++
	}
	for _, n := range seen {
		if n > 1 {
			r.Count("duplicate_ts_among_overlapping_calls", n-1)
		}
	}
	for sc, l := range lr {
		a, b, pairs := c13RealTime(l, false)
		r.Eval(len(l))
		r.Count("lowres_events", len(l))
		r.Count("lowres_realtime_ordered_pairs", int(pairs))
		if a != nil {
			r.Violate("lowres:decreased:"+which,
				fmt.Sprintf("%s oracle, scope %q: low-resolution ts %d was returned (ret seq %d, caller %d) before a call invoked at seq %d (caller %d) returned the smaller %d",
					which, sc, a.Val, a.Ret, a.Caller, b.Inv, b.Caller, b.Val),
				map[string]any{"first": a, "second": b, "scenario": desc})
		}
	}
}

// c13Sandwich evaluates clause (c) without reading a clock:
//
//	u1 = UntilExpired, e = IsExpired, u2 = UntilExpired
//
// The remaining time only shrinks while the oracle's notion of "now" only
// grows (checked: a sandwich with u1 < u2 is not judged), so the remaining
// time R at the instant IsExpired was evaluated obeys u1 >= R >= u2; "expired exactly when R <= 0" then requires u2 <= 0 when
// e is true and u1 > 0 when e is false.
func c13Sandwich(r *vrep.Report, which string, o oracle.Oracle, lockTS, ttl uint64, opt *oracle.Option, note string) (u1 int64, e bool, u2 int64) {
	u1 = o.UntilExpired(lockTS, ttl, opt)
	e = o.IsExpired(lockTS, ttl, opt)
	u2 = o.UntilExpired(lockTS, ttl, opt)
	c13JudgeSandwich(r, which, lockTS, ttl, opt, note, u1, e, u2)
	return
}

// c13SandwichWallClock is the sandwich for the oracles whose "now" is the
// process wall clock (mock, local without hook).  Their remaining time only
// shrinks as long as the wall clock does not step backwards; a sample during
// which the wall clock and the monotonic clock disagree is discarded (the clock
// reads guard the premise, they never decide).
func c13SandwichWallClock(r *vrep.Report, which string, o oracle.Oracle, lockTS, ttl uint64, opt *oracle.Option, note string) {
	t0 := time.Now()
	u1 := o.UntilExpired(lockTS, ttl, opt)
	e := o.IsExpired(lockTS, ttl, opt)
	u2 := o.UntilExpired(lockTS, ttl, opt)
	t1 := time.Now()
	wall := t1.UnixNano() - t0.UnixNano()
	mono := t1.Sub(t0).Nanoseconds()
	if wall < 0 || wall-mono > int64(time.Millisecond) || mono-wall > int64(time.Millisecond) {
		r.Count("expiry_samples_discarded(wall clock stepped)", 1)
		return
	}
	c13JudgeSandwich(r, which, lockTS, ttl, opt, note, u1, e, u2)
}

func c13JudgeSandwich(r *vrep.Report, which string, lockTS, ttl uint64, opt *oracle.Option, note string, u1 int64, e bool, u2 int64) {
	if u1 < u2 {
		// The premise "the remaining time only shrinks" is itself observed, not
		// assumed: it does not hold across the moment a scope gets its first
		// cached ts (before: IsExpired=true / UntilExpired=0, consistently).  A
		// cached ts that really moved backwards is clause (b)'s business.
		r.Count("expiry_sandwich_not_judged(remaining grew)", 1)
		return
	}
	r.Eval(1)
	det := map[string]any{"oracle": which, "lockTS": lockTS, "lockPhysicalMs": oracle.ExtractPhysical(lockTS), "ttlMs": ttl,
		"scope": opt.TxnScope, "untilExpiredBefore": u1, "isExpired": e, "untilExpiredAfter": u2, "note": note}
	if e && u2 > 0 {
		r.Violate("expiry:expired-but-remaining-positive:"+which,
			fmt.Sprintf("%s oracle: IsExpired(lockTS=%d, ttl=%d)=true but UntilExpired evaluated afterwards is still %d ms > 0 (before: %d)", which, lockTS, ttl, u2, u1), det)
	}
	if !e && u1 <= 0 {
		r.Violate("expiry:not-expired-but-remaining-nonpositive:"+which,
			fmt.Sprintf("%s oracle: IsExpired(lockTS=%d, ttl=%d)=false but UntilExpired evaluated just before was already %d ms <= 0 (after: %d)", which, lockTS, ttl, u1, u2), det)
	}
	if u1 >= -1 && u1 <= 1 || u2 >= -1 && u2 <= 1 || u1 != u2 {
		r.Distinct(fmt.Sprintf("exp|%s|%d|%d|%v|%v", which, c13Sign(u1), c13Sign(u2), e, u1 != u2))
		r.Count("expiry_boundary_cases", 1)
		if u1 != u2 {
			r.Count("expiry_clock_moved_inside_sandwich", 1)
		}
	}
	if e {
		r.Count("expiry_answered_expired", 1)
	} else {
		r.Count("expiry_answered_not_expired", 1)
	}
}

func c13Sign(x int64) int {
	switch {
	case x < 0:
		return -1
	case x > 0:
		return 1
	}
	return 0
}

// ---------------------------------------------------------------- workload

var c13Scopes = []string{oracle.GlobalTxnScope, "", "dc-1"}

// c13Mix are the operation weights of one stress phase.
type c13Mix struct {
	TS, Async, LR, LRAsync, Stale, Expiry, Validate int
}

type c13Caller struct {
	id   int
	r    *vrep.Report
	seq  *atomic.Int64
	o    oracle.Oracle
	pd   *vtso.Source // nil for the mock / local oracle
	kind string       // "pd" | "mock" | "local"
	rng  *rand.Rand
	mix  c13Mix
	evs  []c13Ev
	// physical "now" (ms) the expiry inputs are built around when there is no
	// scripted PD (input construction only; the verdict is the sandwich).
	nowMs func() int64
	// when set and true, ValidateReadTS is only called for normal reads
	noStale *atomic.Bool
	// percentage of ValidateReadTS calls made under a context with a very short
	// deadline; such a call is only judged if its own context is still alive
	// after it returned
	cancelPct int
}

func (c *c13Caller) scope() string {
	if c.kind != "pd" {
		return oracle.GlobalTxnScope
	}
	return c13Scopes[c.rng.Intn(len(c13Scopes))]
}

func (c *c13Caller) rec(kind int, op, scope string, inv int64, v uint64) {
	ret := c.seq.Add(1)
	c.evs = append(c.evs, c13Ev{Kind: kind, Scope: scope, Caller: c.id, Op: op, Inv: inv, Ret: ret, Val: v})
}

func (c *c13Caller) opTS(ctx context.Context) {
	sc := c.scope()
	inv := c.seq.Add(1)
	v, err := c.o.GetTimestamp(ctx, &oracle.Option{TxnScope: sc})
	if err != nil {
		c.seq.Add(1)
		c.r.Count("get_ts_errors", 1)
		if v != 0 {
			c.r.Count("get_ts_error_with_value", 1)
		}
		return
	}
	c.rec(c13KindTS, "GetTimestamp", sc, inv, v)
}

func (c *c13Caller) opAsync(ctx context.Context) {
	sc := c.scope()
	inv := c.seq.Add(1)
	f := c.o.GetTimestampAsync(ctx, &oracle.Option{TxnScope: sc})
	// something else in between request and Wait, so that other responses
	// overtake this one
	switch c.rng.Intn(4) {
	case 0:
		c.opLR(ctx, false)
	case 1:
		c.opExpiry()
	}
	v, err := f.Wait()
	if err != nil {
		c.seq.Add(1)
		c.r.Count("get_ts_errors", 1)
		return
	}
	c.rec(c13KindTS, "GetTimestampAsync.Wait", sc, inv, v)
}

func (c *c13Caller) opLR(ctx context.Context, async bool) {
	sc := c.scope()
	opt := &oracle.Option{TxnScope: sc}
	inv := c.seq.Add(1)
	var v uint64
	var err error
	op := "GetLowResolutionTimestamp"
	if async {
		op = "GetLowResolutionTimestampAsync.Wait"
		v, err = c.o.GetLowResolutionTimestampAsync(ctx, opt).Wait()
	} else {
		v, err = c.o.GetLowResolutionTimestamp(ctx, opt)
	}
	if err != nil {
		c.seq.Add(1)
		c.r.Count("lowres_errors(scope never fetched)", 1)
		return
	}
	c.rec(c13KindLR, op, sc, inv, v)
	if c.pd != nil {
		// clause (b, bound part): read *after* the call returned, so this is
		// at least the largest ts PD had issued when the call returned.
		issued := c.pd.MaxIssued()
		c.r.Eval(1)
		if v > issued {
			c.r.Violate("lowres:ahead-of-pd",
				fmt.Sprintf("%s(scope %q) returned %d but the largest timestamp the scripted PD has issued is %d", op, sc, v, issued),
				map[string]any{"lowres": v, "maxIssued": issued, "scope": sc, "caller": c.id})
		}
		if v == issued {
			c.r.Count("lowres_equal_to_newest_issued", 1)
		}
	}
}

func (c *c13Caller) opStale(ctx context.Context) {
	sc := c.scope()
	if c.kind == "pd" && c.rng.Intn(8) == 0 {
		sc = "dc-2" // possibly never fetched: the oracle fetches from PD on that path
	}
	prev := []uint64{0, 0, 1, 3, 1 << 40, math.MaxUint64}[c.rng.Intn(6)]
	_, err := c.o.GetStaleTimestamp(ctx, sc, prev)
	// the statement gives no guarantee for the value (see the interface
	// comment: it is an estimate that has to be validated) — exercised only
	if err != nil {
		c.r.Count("stale_ts_errors", 1)
	} else {
		c.r.Count("stale_ts_ok", 1)
	}
}

var c13Boundary = []int64{-2, -1, 0, 0, 1, 1, 2}

func (c *c13Caller) opExpiry() {
	var p int64
	if c.pd != nil {
		p = vtso.Physical(c.pd.MaxIssued())
	} else {
		p = c.nowMs()
	}
	var rem int64
	if c.rng.Intn(10) < 7 {
		rem = c13Boundary[c.rng.Intn(len(c13Boundary))]
	} else {
		rem = int64(c.rng.Intn(201)) - 100
	}
	k := int64(c.rng.Intn(5000))
	if k+rem < 0 {
		k = -rem
	}
	lock := oracle.ComposeTS(p-k, int64(c.rng.Intn(1<<18)))
	sc := c.scope()
	if c.kind == "pd" && c.rng.Intn(16) == 0 {
		sc = "dc-never"
	}
	if c.pd == nil {
		c13SandwichWallClock(c.r, c.kind, c.o, lock, uint64(k+rem), &oracle.Option{TxnScope: sc}, "stress")
		return
	}
	c13Sandwich(c.r, c.kind, c.o, lock, uint64(k+rem), &oracle.Option{TxnScope: sc}, "stress")
}

// opValidate: clause (e).  The read ts is chosen (and, for the issued classes,
// read from the scripted PD's allocation log) *before* the call is invoked;
// the largest issued ts is read *after* it returned.
func (c *c13Caller) opValidate(ctx context.Context) {
	var ts uint64
	class := c.rng.Intn(12)
	name := ""
	mustAccept := false
	switch {
	case class < 3:
		name = "issued-recent"
		is, ok := c.pd.PickIssued(64, c.rng.Intn(64))
		if !ok {
			return
		}
		ts, mustAccept = is.TS, true
	case class < 6:
		name = "issued-fresh-by-other-client"
		ts, mustAccept = c.pd.Issue(), true
	case class < 7:
		name = "far-future"
		ts = oracle.ComposeTS(vtso.Physical(c.pd.MaxIssued())+3_600_000+int64(c.rng.Intn(1000)), int64(c.rng.Intn(100)))
	case class < 9:
		name = "near-future-logical"
		ts = c.pd.MaxIssued() + 1 + uint64(c.rng.Intn(24))
	case class < 10:
		name = "near-future-physical"
		ts = oracle.ComposeTS(vtso.Physical(c.pd.MaxIssued())+1+int64(c.rng.Intn(3)), 0)
	case class < 11:
		name = "special"
		ts = []uint64{math.MaxUint64, math.MaxUint64 - 1, math.MaxInt64, math.MaxInt64 + 1, math.MaxInt64 - 1}[c.rng.Intn(5)]
	default:
		name = "old"
		ts = []uint64{0, 1, c.pd.MaxIssued() - uint64(c.rng.Intn(1000))}[c.rng.Intn(3)]
	}
	stale := c.rng.Intn(2) == 0
	if c.noStale != nil && c.noStale.Load() {
		stale = false
	}
	sc := c.scope()
	short := false
	if c.cancelPct > 0 && c.rng.Intn(100) < c.cancelPct {
		short = true
		var cancel context.CancelFunc
		ctx, cancel = context.WithTimeout(ctx, time.Duration(10+c.rng.Intn(190))*time.Microsecond)
		defer cancel()
	}
	req0, max0 := c.pd.Requests(), c.pd.MaxIssued()
	inv := c.seq.Add(1)
	err := c.o.ValidateReadTS(ctx, ts, stale, &oracle.Option{TxnScope: sc})
	ret := c.seq.Add(1)
	maxAfter := c.pd.MaxIssued()
	req1 := c.pd.Requests()
	if short {
		c.r.Count("validate_stress_calls_with_short_deadline", 1)
		if ctx.Err() != nil {
			// its own context ended (possibly only after the call had returned:
			// then a verdict is lost, never invented)
			c.r.Count("validate_stress_calls_own_ctx_ended", 1)
			return
		}
	}
	c13JudgeValidate(c.r, ts, name, stale, sc, mustAccept, err, maxAfter, inv, ret, "stress")
	c.r.Distinct(fmt.Sprintf("val|%s|%v|%s|%v|%v|%v", name, stale, sc, err == nil, req1 > req0, maxAfter > max0))
}

func c13JudgeValidate(r *vrep.Report, ts uint64, class string, stale bool, scope string, issuedBefore bool, err error, maxAfter uint64, inv, ret int64, scenario any) {
	r.Eval(1)
	det := map[string]any{"readTS": ts, "class": class, "isStaleRead": stale, "scope": scope, "inv": inv, "ret": ret,
		"largestIssuedAfterReturn": maxAfter, "error": fmt.Sprint(err), "scenario": scenario}
	if issuedBefore {
		r.Count("validate_issued_ts", 1)
		if err != nil {
			r.Violate("validate:issued-ts-rejected",
				fmt.Sprintf("ValidateReadTS(readTS=%d, stale=%v, scope=%q) failed with %q although PD had issued %d before the call was invoked", ts, stale, scope, err, ts), det)
		}
	}
	// MaxUint64 is the "read the latest" sentinel, not a timestamp: open for
	// non-stale reads (every behaviour accepted)
	sentinel := ts == math.MaxUint64 && !stale
	if ts > maxAfter && !sentinel {
		r.Count("validate_beyond_ts", 1)
		if err == nil {
			r.Violate("validate:future-ts-accepted",
				fmt.Sprintf("ValidateReadTS(readTS=%d, stale=%v, scope=%q) succeeded although the largest timestamp PD has issued after the call returned is %d", ts, stale, scope, maxAfter), det)
		}
	}
	if !issuedBefore && ts <= maxAfter {
		r.Count("validate_open_cases(not issued, not beyond)", 1)
	}
}

func (c *c13Caller) run(ctx context.Context, nOps int) {
	m := c.mix
	total := m.TS + m.Async + m.LR + m.LRAsync + m.Stale + m.Expiry + m.Validate
	for i := 0; i < nOps; i++ {
		x := c.rng.Intn(total)
		switch {
		case x < m.TS:
			c.opTS(ctx)
		case x < m.TS+m.Async:
			c.opAsync(ctx)
		case x < m.TS+m.Async+m.LR:
			c.opLR(ctx, false)
		case x < m.TS+m.Async+m.LR+m.LRAsync:
			c.opLR(ctx, true)
		case x < m.TS+m.Async+m.LR+m.LRAsync+m.Stale:
			c.opStale(ctx)
		case x < m.TS+m.Async+m.LR+m.LRAsync+m.Stale+m.Expiry:
			c.opExpiry()
		default:
			c.opValidate(ctx)
		}
	}
}

// c13WaitOrInconc waits for done under a generous wall-clock watchdog whose
// firing is inconclusive, never a verdict.
func c13WaitOrInconc(r *vrep.Report, done <-chan struct{}, what string, unblock func()) bool {
	select {
	case <-done:
		return true
	case <-time.After(90 * time.Second):
		r.Inconc("watchdog: %s did not finish within 90s", what)
		if unblock != nil {
			unblock()
		}
		select {
		case <-done:
		case <-time.After(30 * time.Second):
		}
		return false
	}
}
