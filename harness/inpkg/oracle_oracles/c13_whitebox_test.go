//go:build verif

package oracles

// C13 — white-box extension (private identifiers; the runner records
// whitebox_unavailable instead of failing if it stops compiling):
//   * local oracle with its time hook frozen at chosen sub-millisecond
//     instants: the expiry sandwich at exact boundaries, and strictly
//     increasing timestamps while the hooked clock stands still / advances;
//   * the compare-and-swap publication loop setLastTS hammered directly;
//   * the adaptive update-interval state machine driven through
//     normal -> adapting -> recovering -> adapting -> unadjustable with the real
//     update loop running under the caller workload (state read under its
//     mutex, for the evidence only).

import (
	"context"
	"fmt"
	"sync"
	"sync/atomic"
	"testing"
	"time"

	"github.com/tikv/client-go/v2/oracle"
	"github.com/tikv/client-go/v2/util"
	"github.com/tikv/client-go/v2/verifh/vrep"
	"github.com/tikv/client-go/v2/verifh/vtso"
)

func c13LocalHook(r *vrep.Report) {
	rng := vrep.Rand("c13-local-hook")
	l := NewLocalOracle().(*localOracle)
	base := time.UnixMilli(c13BasePhysical)
	opt := &oracle.Option{TxnScope: oracle.GlobalTxnScope}
	for _, sub := range []int64{0, 1, 499_999, 500_000, 999_999} {
		l.hook = &struct{ currentTime time.Time }{base.Add(time.Duration(sub))}
		for rem := int64(-2); rem <= 2; rem++ {
			for _, k := range []int64{0, 1, 999, 1000, 20000, int64(rng.Intn(1 << 20))} {
				if k+rem < 0 {
					continue
				}
				c13Sandwich(r, "local", l, oracle.ComposeTS(c13BasePhysical-k, int64(rng.Intn(1<<18))), uint64(k+rem), opt, fmt.Sprintf("hook frozen at +%dns", sub))
			}
		}
	}
	// timestamps while the hooked clock stands still, moves by < 1ms, by 1ms
	seq := &atomic.Int64{}
	var evs []c13Ev
	now := base
	ctx := context.Background()
	for i := 0; i < vrep.Pick(3000, 30000); i++ {
		now = now.Add([]time.Duration{0, 0, 0, time.Nanosecond, 300 * time.Microsecond, time.Millisecond, 3 * time.Millisecond}[rng.Intn(7)])
		l.hook = &struct{ currentTime time.Time }{now}
		inv := seq.Add(1)
		var v uint64
		var err error
		op := "GetTimestamp"
		switch rng.Intn(3) {
		case 0:
			v, err = l.GetTimestamp(ctx, opt)
		case 1:
			op = "GetTimestampAsync.Wait"
			v, err = l.GetTimestampAsync(ctx, opt).Wait()
		default:
			op = "GetLowResolutionTimestamp"
			v, err = l.GetLowResolutionTimestamp(ctx, opt)
		}
		if err == nil {
			evs = append(evs, c13Ev{Kind: c13KindTS, Scope: oracle.GlobalTxnScope, Op: op, Inv: inv, Ret: seq.Add(1), Val: v})
		}
	}
	c13CheckOrder(r, "local", evs, "hooked clock, single caller")
	// concurrent callers, hooked clock frozen (no writer of the hook)
	var wg sync.WaitGroup
	all := make([][]c13Ev, 8)
	for g := range all {
		wg.Add(1)
		go func(g int) {
			defer wg.Done()
			for i := 0; i < vrep.Pick(400, 4000); i++ {
				inv := seq.Add(1)
				v, err := l.GetTimestamp(ctx, opt)
				if err == nil {
					all[g] = append(all[g], c13Ev{Kind: c13KindTS, Scope: oracle.GlobalTxnScope, Caller: g, Op: "GetTimestamp", Inv: inv, Ret: seq.Add(1), Val: v})
				}
			}
		}(g)
	}
	wg.Wait()
	evs = evs[:0]
	for _, e := range all {
		evs = append(evs, e...)
	}
	c13CheckOrder(r, "local", evs, "hooked clock frozen, 8 callers")
}

// c13SetLastTSHammer: writers publish seeded timestamps through setLastTS
// while readers sample the cached value.  Clauses: the cached value never
// decreases in real-time order and never exceeds the largest value any writer
// had started to publish when the read returned.
func c13SetLastTSHammer(r *vrep.Report, round int) {
	o := &pdOracle{}
	seq := &atomic.Int64{}
	var started atomic.Uint64 // largest ts a writer is about to publish
	writers, readers := 12, 4
	var wg sync.WaitGroup
	for w := 0; w < writers; w++ {
		wg.Add(1)
		go func(w int) {
			defer wg.Done()
			rng := vrep.Rand(fmt.Sprintf("c13-hammer-%d-w%d", round, w))
			scope := []string{"", oracle.GlobalTxnScope}[w%2]
			for i := 0; i < vrep.Pick(400, 4000); i++ {
				ts := uint64(1000 + rng.Intn(1<<20))
				for {
					cur := started.Load()
					if ts <= cur || started.CompareAndSwap(cur, ts) {
						break
					}
				}
				o.setLastTS(ts, scope)
			}
		}(w)
	}
	evs := make([][]c13Ev, readers)
	for g := 0; g < readers; g++ {
		wg.Add(1)
		go func(g int) {
			defer wg.Done()
			for i := 0; i < vrep.Pick(1500, 15000); i++ {
				inv := seq.Add(1)
				v, ok := o.getLastTS(oracle.GlobalTxnScope)
				ret := seq.Add(1)
				if !ok {
					continue
				}
				bound := started.Load()
				r.Eval(1)
				if v > bound {
					r.Violate("lowres:ahead-of-pd", fmt.Sprintf("cached ts %d exceeds the largest published value %d", v, bound), nil)
				}
				evs[g] = append(evs[g], c13Ev{Kind: c13KindLR, Scope: oracle.GlobalTxnScope, Caller: g, Op: "getLastTS", Inv: inv, Ret: ret, Val: v})
			}
		}(g)
	}
	wg.Wait()
	var allEv []c13Ev
	for _, e := range evs {
		allEv = append(allEv, e...)
	}
	// one final read after every writer returned
	inv := seq.Add(1)
	if v, ok := o.getLastTS(""); ok {
		allEv = append(allEv, c13Ev{Kind: c13KindLR, Scope: oracle.GlobalTxnScope, Caller: -1, Op: "getLastTS(final)", Inv: inv, Ret: seq.Add(1), Val: v})
		if v == started.Load() {
			r.Count("hammer_final_equals_max", 1)
		}
	}
	c13CheckOrder(r, "pd", allEv, fmt.Sprintf("setLastTS hammer round %d", round))
	r.Distinct(fmt.Sprintf("hammer|%d", round))
}

func c13Adaptive(r *vrep.Report) {
	env, err := c13NewEnv(r, "adaptive", 2*time.Second, true)
	if err != nil {
		r.Inconc("NewPdOracle: %v", err)
		return
	}
	o := env.o.(*pdOracle)
	ctx := context.Background()
	env.pd.SetPolicy(vtso.Policy{Hold: 2, AllocLatePct: 30, StepPct: 10, StepMaxMs: 3})
	env.pd.StartPump(20)
	var noStale atomic.Bool
	mix := c13Mix{TS: 10, Async: 5, LR: 15, LRAsync: 5, Stale: 5, Expiry: 15, Validate: 45}
	callers := make([]*c13Caller, 8)
	for i := range callers {
		callers[i] = &c13Caller{id: i, r: r, seq: env.seq, o: env.o, pd: env.pd, kind: "pd", mix: mix, noStale: &noStale,
			rng: vrep.Rand(fmt.Sprintf("c13-adaptive-caller-%d", i))}
	}
	states := map[string]bool{}
	observe := func() {
		o.adaptiveUpdateIntervalState.mu.Lock()
		st := o.adaptiveUpdateIntervalState.state
		o.adaptiveUpdateIntervalState.mu.Unlock()
		if !states[st.String()] {
			states[st.String()] = true
			r.Count("adaptive_states_seen", 1)
			r.Distinct("adaptive|" + st.String())
		}
	}
	rounds := 44
	finished := make(chan struct{})
	go func() {
		defer close(finished)
		for round := 0; round < rounds; round++ {
			switch round {
			case 12:
				// no read has asked for a short staleness for six minutes
				noStale.Store(true)
				o.adaptiveUpdateIntervalState.lastShortStalenessReadTime.Store(time.Now().Add(-6 * time.Minute).UnixMilli())
			case 28:
				noStale.Store(false)
			case 34:
				env.o.SetLowResolutionTimestampUpdateInterval(300 * time.Millisecond)
				r.Count("interval_changes", 1)
			}
			var wg sync.WaitGroup
			for _, c := range callers {
				wg.Add(1)
				go func(c *c13Caller) {
					defer wg.Done()
					c.run(ctx, vrep.Pick(25, 100))
				}(c)
			}
			wg.Wait()
			observe()
			time.Sleep(50 * time.Millisecond) // pacing only: lets the real ticker of the update loop fire
			env.pd.Advance(50)
			observe()
		}
	}()
	ok := c13WaitOrInconc(r, finished, "adaptive phase", env.pd.Drain)
	env.pd.StopPump()
	reorders := env.pd.Reorders()
	env.close()
	if !ok {
		return
	}
	var evs []c13Ev
	for _, c := range callers {
		evs = append(evs, c.evs...)
	}
	c13CheckOrder(r, "pd", evs, "adaptive phase")
	r.Count("pd_responses_released_out_of_order", int(reorders))
	var seen []string
	for s := range states {
		seen = append(seen, s)
	}
	r.Sample(map[string]any{"scenario": "adaptive phase", "states_seen": seen})
}

func TestVerifC13WB(t *testing.T) {
	r := vrep.New("C13", "c13-whitebox", "white-box: local oracle with the time hook frozen at chosen sub-ms instants (expiry sandwich at exact boundaries; ts strictly increasing while the hooked clock stands still/advances, 1 and 8 callers); "+
		"setLastTS hammered by 12 writers with 4 readers (cached ts never decreases in real-time order, never exceeds the largest value being published); "+
		"adaptive update-interval states driven normal->adapting->recovering->adapting->unadjustable with the real update loop under the caller workload (all clauses of c13-pd). distinct = boundary expiry cases, hammer rounds, adaptive states seen, validation observation classes")
	defer r.Finish(t)
	c13Quiet()
	util.EnableFailpoints()
	EnableTSValidation.Store(true)
	defer EnableTSValidation.Store(false)
	c13LocalHook(r)
	r.Flush()
	for i := 0; i < vrep.Pick(6, 40); i++ {
		c13SetLastTSHammer(r, i)
	}
	r.Flush()
	c13Adaptive(r)
	r.Floor("adaptive_states_seen", 2)
	r.Floor("expiry_boundary_cases", 100)
	r.Floor("lowres_realtime_ordered_pairs", 10000)
}
