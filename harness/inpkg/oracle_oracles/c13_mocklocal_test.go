//go:build verif

package oracles

// C13 — the mock oracle and the local oracle (exported API only): strictly
// increasing timestamps in real-time order under concurrent callers,
// low-resolution ts never decreasing, and the expiry sandwich around "now".
// Both read the process wall clock, so the expiry inputs are *built* around
// the clock (lock + ttl ending in the current / next millisecond) while the
// verdict is the clock-free sandwich.

import (
	"context"
	"fmt"
	"sync"
	"sync/atomic"
	"testing"
	"time"

	"github.com/tikv/client-go/v2/oracle"
	"github.com/tikv/client-go/v2/verifh/vrep"
)

// c13BoundarySamples drives the sandwich with locks that expire in the
// current, next and previous milliseconds of the oracle's clock.
func c13BoundarySamples(r *vrep.Report, which string, o oracle.Oracle, nowMs func() int64, n int, stream string) {
	rng := vrep.Rand(stream)
	opt := &oracle.Option{TxnScope: oracle.GlobalTxnScope}
	for i := 0; i < n; i++ {
		j := []int64{1, 1, 1, 1, 0, 2, -1, -2, 5, -5}[rng.Intn(10)]
		k := int64(rng.Intn(20000))
		expire := nowMs() + j // whole ms: 0 < expire-now <= 1ms for j=1
		lock := oracle.ComposeTS(expire-k, int64(rng.Intn(1<<18)))
		c13SandwichWallClock(r, which, o, lock, uint64(k), opt, "boundary-sample")
	}
}

type c13ClockPhase struct {
	Oracle  string `json:"oracle"`
	Index   int    `json:"index"`
	Callers int    `json:"callers"`
	Ops     int    `json:"ops_per_caller"`
	Control bool   `json:"control_thread"`
}

func c13RunClockPhase(r *vrep.Report, p c13ClockPhase) {
	stream := fmt.Sprintf("c13-%s-phase-%d", p.Oracle, p.Index)
	rng := vrep.Rand(stream)
	seq := &atomic.Int64{}
	var o oracle.Oracle
	var mock *MockOracle
	var offset atomic.Int64
	if p.Oracle == "mock" {
		mock = &MockOracle{}
		o = mock
	} else {
		o = NewLocalOracle()
	}
	nowMs := func() int64 { return oracle.GetPhysical(time.Now().Add(time.Duration(offset.Load()))) }
	mix := c13Mix{TS: 30, Async: 20, LR: 12, LRAsync: 8, Stale: 4, Expiry: 26}
	ctx := context.Background()
	callers := make([]*c13Caller, p.Callers)
	var wg sync.WaitGroup
	for i := range callers {
		callers[i] = &c13Caller{id: i, r: r, seq: seq, o: o, kind: p.Oracle, mix: mix, nowMs: nowMs,
			rng: vrep.Rand(fmt.Sprintf("%s-caller-%d", stream, i))}
		wg.Add(1)
		go func(c *c13Caller) {
			defer wg.Done()
			c.run(ctx, p.Ops)
		}(callers[i])
	}
	stop := make(chan struct{})
	ctlDone := make(chan struct{})
	go func() {
		defer close(ctlDone)
		if !p.Control || mock == nil {
			return
		}
		for {
			select {
			case <-stop:
				return
			default:
			}
			switch rng.Intn(6) {
			case 0, 1, 2:
				// only forward: a negative offset turns the mock's clock back on
				// purpose, which the statement does not cover
				d := time.Duration(rng.Intn(3_000_000)) * time.Nanosecond
				mock.AddOffset(d)
				offset.Add(int64(d))
				r.Count("mock_offset_added", 1)
			case 3:
				mock.Disable()
				mock.Enable()
			}
			time.Sleep(time.Duration(50+rng.Intn(300)) * time.Microsecond)
		}
	}()
	done := make(chan struct{})
	go func() { wg.Wait(); close(done) }()
	ok := c13WaitOrInconc(r, done, stream, nil)
	close(stop)
	<-ctlDone
	if !ok {
		return
	}
	var evs []c13Ev
	for _, c := range callers {
		evs = append(evs, c.evs...)
	}
	c13CheckOrder(r, p.Oracle, evs, p)
	r.Count("clock_phases", 1)
	r.Distinct(fmt.Sprintf("phase|%+v", p))
	if p.Index == 0 && len(evs) > 4 {
		r.Sample(map[string]any{"scenario": p, "first_events": evs[:4]})
	}
	// quiescent boundary samples on the same (possibly offset) oracle
	c13BoundarySamples(r, p.Oracle, o, nowMs, vrep.Pick(400, 4000), stream+"-boundary")
}

func TestVerifC13MockLocal(t *testing.T) {
	r := vrep.New("C13", "c13-mocklocal", "MockOracle (with forward AddOffset, Disable/Enable) and the local oracle under 1..16 concurrent callers: "+
		"(a) ts strictly increasing in real-time order (event sequencer); (b) low-resolution ts never decreases; "+
		"(c) expiry sandwich u1,e,u2 with locks ending in the previous/current/next millisecond of the oracle's clock (a sample is discarded when wall and monotonic clock disagree). "+
		"distinct = phase configurations and expiry cases with |remaining|<=1ms or the clock moving inside the sandwich")
	defer r.Finish(t)
	c13Quiet()
	idx := 0
	for _, which := range []string{"mock", "local"} {
		for _, callers := range []int{1, 2, 4, 16} {
			for rep := 0; rep < vrep.Pick(1, 6); rep++ {
				ops := vrep.Pick(4000, 20000) / callers
				c13RunClockPhase(r, c13ClockPhase{Oracle: which, Index: idx, Callers: callers, Ops: ops, Control: idx%2 == 0})
				idx++
			}
		}
	}
	r.Floor("ts_realtime_ordered_pairs", 10000)
	r.Floor("expiry_boundary_cases", 1000)
	r.Floor("lowres_events", 500)
}
