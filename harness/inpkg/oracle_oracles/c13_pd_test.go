//go:build verif

package oracles

// C13 — the pd oracle over the scripted PD (verifh/vtso).  Exported API only.
//
//   scripted  single driver + gates at the PD boundary: PD responses released
//             in every permutation (k<=4) / seeded permutations, low-resolution
//             ts, expiry sandwich and ValidateReadTS probed after each release;
//             ValidateReadTS single-flight reuse with a stale in-flight fetch
//             (PD gate and the failpoint getCurrentTSForValidationBeforeReturn
//             armed with pause / sleep);
//   stress    1..32 concurrent callers, responses held back and reordered by a
//             seeded policy, update-interval changes / clock jumps / hold
//             changes driven in between, the background update loop on or off.

import (
	"context"
	"fmt"
	"math/rand"
	"runtime"
	"sync"
	"sync/atomic"
	"testing"
	"time"

	"github.com/pingcap/failpoint"
	"github.com/tikv/client-go/v2/oracle"
	"github.com/tikv/client-go/v2/util"
	"github.com/tikv/client-go/v2/verifh/vrep"
	"github.com/tikv/client-go/v2/verifh/vtso"
)

const (
	c13BasePhysical = int64(1_760_000_000_000) // ms; a fixed instant in 2025
	c13FPValidation = "tikvclient/getCurrentTSForValidationBeforeReturn"
)

type c13Env struct {
	r   *vrep.Report
	seq *atomic.Int64
	pd  *vtso.Source
	o   oracle.Oracle
}

// c13NewEnv creates a scripted PD and a pd oracle on top of it.
func c13NewEnv(r *vrep.Report, stream string, interval time.Duration, loop bool) (*c13Env, error) {
	seq := &atomic.Int64{}
	src := vtso.New(seq, c13BasePhysical, vrep.Rand("c13-pd-"+stream), nil)
	o, err := NewPdOracle(src, &PDOracleOptions{UpdateInterval: interval, NoUpdateTS: !loop})
	if err != nil {
		return nil, err
	}
	return &c13Env{r: r, seq: seq, pd: src, o: o}, nil
}

func (e *c13Env) close() {
	e.pd.Drain()
	e.o.Close()
}

func c13Perms(n int) [][]int {
	var out [][]int
	p := make([]int, n)
	for i := range p {
		p[i] = i
	}
	var rec func(k int)
	rec = func(k int) {
		if k == n {
			out = append(out, append([]int(nil), p...))
			return
		}
		for i := k; i < n; i++ {
			p[k], p[i] = p[i], p[k]
			rec(k + 1)
			p[k], p[i] = p[i], p[k]
		}
	}
	rec(0)
	return out
}

// probe: after a PD response has been consumed, everything the oracle answers
// from its cache is checked (single goroutine, nothing in flight that could
// complete on its own).
func (e *c13Env) probe(evs *[]c13Ev, rng *rand.Rand, note string) {
	ctx := context.Background()
	c := &c13Caller{id: -1, r: e.r, seq: e.seq, o: e.o, pd: e.pd, kind: "pd", rng: rng}
	c.opLR(ctx, rng.Intn(2) == 0)
	*evs = append(*evs, c.evs...)
	last, err := e.o.GetLowResolutionTimestamp(ctx, &oracle.Option{TxnScope: oracle.GlobalTxnScope})
	if err != nil {
		return
	}
	p := oracle.ExtractPhysical(last)
	for _, rem := range []int64{-1, 0, 1} {
		k := int64(rng.Intn(3000))
		if k+rem < 0 {
			k = -rem
		}
		c13Sandwich(e.r, "pd", e.o, oracle.ComposeTS(p-k, int64(rng.Intn(1<<18))), uint64(k+rem), &oracle.Option{TxnScope: oracle.GlobalTxnScope}, note)
	}
}

// ---------------------------------------------------------------- scripted: reordered responses

func c13ScriptReorder(r *vrep.Report, rng *rand.Rand, perm []int, async bool, latePct int, idx int) {
	desc := map[string]any{"scenario": "reorder", "release_order": perm, "async": async, "alloc_late_pct": latePct}
	env, err := c13NewEnv(r, fmt.Sprintf("reorder-%d", idx), 2*time.Second, false)
	if err != nil {
		r.Inconc("NewPdOracle: %v", err)
		return
	}
	defer env.close()
	ctx := context.Background()
	k := len(perm)
	env.pd.SetPolicy(vtso.Policy{Hold: -1, AllocLatePct: latePct, StepPct: 30, StepMaxMs: 4})
	var evs []c13Ev
	type res struct {
		i   int
		ev  c13Ev
		err error
	}
	if async {
		// one goroutine: k futures, responses released in perm order, Wait in
		// perm order
		futs := make([]oracle.Future, k)
		invs := make([]int64, k)
		for i := 0; i < k; i++ {
			invs[i] = env.seq.Add(1)
			futs[i] = env.o.GetTimestampAsync(ctx, &oracle.Option{TxnScope: oracle.GlobalTxnScope})
		}
		if env.pd.Pending() != k {
			r.Inconc("reorder: %d of %d requests reached the scripted PD", env.pd.Pending(), k)
			return
		}
		remaining := make([]int, k) // request numbers still pending, oldest first
		for i := range remaining {
			remaining[i] = i
		}
		for _, want := range perm {
			pos := 0
			for remaining[pos] != want {
				pos++
			}
			remaining = append(remaining[:pos], remaining[pos+1:]...)
			env.pd.Release(pos)
			v, err := futs[want].Wait()
			ret := env.seq.Add(1)
			if err != nil {
				r.Violate("order:unexpected-error", fmt.Sprintf("GetTimestampAsync.Wait failed without an injected PD error: %v", err), desc)
				continue
			}
			evs = append(evs, c13Ev{Kind: c13KindTS, Scope: oracle.GlobalTxnScope, Caller: want, Op: "GetTimestampAsync.Wait", Inv: invs[want], Ret: ret, Val: v})
			env.probe(&evs, rng, "after-release")
		}
	} else {
		out := make(chan res, k)
		for i := 0; i < k; i++ {
			i := i
			go func() {
				inv := env.seq.Add(1)
				v, err := env.o.GetTimestamp(ctx, &oracle.Option{TxnScope: oracle.GlobalTxnScope})
				ret := env.seq.Add(1)
				out <- res{i, c13Ev{Kind: c13KindTS, Scope: oracle.GlobalTxnScope, Caller: i, Op: "GetTimestamp", Inv: inv, Ret: ret, Val: v}, err}
			}()
			// requests reach the PD one by one, so request i is the i-th oldest
			if !env.pd.WaitPending(i+1, 20*time.Second) {
				r.Inconc("reorder: request %d did not reach the scripted PD", i)
				return
			}
		}
		remaining := make([]int, k)
		for i := range remaining {
			remaining[i] = i
		}
		for _, want := range perm {
			pos := 0
			for remaining[pos] != want {
				pos++
			}
			remaining = append(remaining[:pos], remaining[pos+1:]...)
			env.pd.Release(pos)
			var got res
			select {
			case got = <-out:
			case <-time.After(30 * time.Second):
				r.Inconc("reorder: caller did not return after its response was released")
				return
			}
			if got.err != nil {
				r.Violate("order:unexpected-error", fmt.Sprintf("GetTimestamp failed without an injected PD error: %v", got.err), desc)
				continue
			}
			if got.i != want {
				r.Count("reorder_unexpected_completion", 1)
			}
			evs = append(evs, got.ev)
			env.probe(&evs, rng, "after-release")
		}
	}
	c13CheckOrder(r, "pd", evs, desc)
	sorted := true
	for i := range perm {
		if perm[i] != i {
			sorted = false
		}
	}
	if !sorted {
		r.Distinct(fmt.Sprintf("reorder|%v|%v|%d", perm, async, latePct))
		r.Count("scripted_reordered_releases", 1)
	}
	if r.SampleN() < 1 && !sorted {
		r.Sample(map[string]any{"scenario": desc, "events": evs})
	}
}

// ---------------------------------------------------------------- scripted: validation, stale single flight

type c13VRes struct {
	i        int
	err      error
	inv, ret int64
	maxAfter uint64
}

func c13ScriptValidate(r *vrep.Report, rng *rand.Rand, idx int) {
	fp := []string{"", "", "pause", "sleep(1)"}[rng.Intn(4)]
	late := []int{0, 0, 100}[rng.Intn(3)]
	n := 2 + rng.Intn(7)
	bump := rng.Intn(3) == 0 // a plain GetTimestamp overtakes the flight and raises the cached ts
	desc := map[string]any{"scenario": "validate-single-flight", "failpoint": fp, "alloc_late_pct": late, "validators": n, "bump": bump, "index": idx}
	env, err := c13NewEnv(r, fmt.Sprintf("validate-%d", idx), 2*time.Second, false)
	if err != nil {
		r.Inconc("NewPdOracle: %v", err)
		return
	}
	defer env.close()
	ctx := context.Background()
	env.pd.SetPolicy(vtso.Policy{Hold: -1, AllocLatePct: late, StepPct: 20, StepMaxMs: 3})
	if fp != "" {
		if err := failpoint.Enable(c13FPValidation, fp); err != nil {
			r.Inconc("failpoint.Enable: %v", err)
			return
		}
		defer failpoint.Disable(c13FPValidation)
	}
	type vcase struct {
		ts     uint64
		class  string
		stale  bool
		scope  string
		issued bool
	}
	cases := make([]vcase, n)
	out := make(chan c13VRes, n)
	launch := func(i int) {
		vc := cases[i]
		go func() {
			inv := env.seq.Add(1)
			err := env.o.ValidateReadTS(ctx, vc.ts, vc.stale, &oracle.Option{TxnScope: vc.scope})
			ret := env.seq.Add(1)
			out <- c13VRes{i, err, inv, ret, env.pd.MaxIssued()}
		}()
	}
	req0 := env.pd.Requests()
	// validator 0: a ts another client got from PD, unknown to the oracle → the
	// oracle has to ask PD; that request is held.
	cases[0] = vcase{env.pd.Issue(), "issued-fresh-by-other-client", rng.Intn(2) == 0, oracle.GlobalTxnScope, true}
	launch(0)
	if !env.pd.WaitPending(1, 20*time.Second) {
		r.Inconc("validate: the first validator's fetch did not reach the scripted PD")
		env.pd.Drain()
		return
	}
	if fp == "pause" {
		// let the flight obtain its ts and stop at the failpoint *before* the
		// other timestamps are issued: its result is stale for them
		env.pd.Release(0)
		for i := 0; i < 50; i++ {
			runtime.Gosched()
		}
		time.Sleep(300 * time.Microsecond)
	}
	for i := 1; i < n; i++ {
		vc := vcase{stale: rng.Intn(2) == 0, scope: oracle.GlobalTxnScope}
		if rng.Intn(5) == 0 {
			vc.scope = ""
		}
		switch x := rng.Intn(10); {
		case x < 6:
			vc.ts, vc.class, vc.issued = env.pd.Issue(), "issued-fresh-by-other-client", true
		case x < 7:
			is, _ := env.pd.PickIssued(8, rng.Intn(8))
			vc.ts, vc.class, vc.issued = is.TS, "issued-recent", true
		case x < 9:
			vc.ts, vc.class = oracle.ComposeTS(vtso.Physical(env.pd.MaxIssued())+60_000, 7), "far-future"
		default:
			vc.ts, vc.class = env.pd.MaxIssued()+1+uint64(rng.Intn(3)), "near-future-logical"
		}
		cases[i] = vc
		launch(i)
	}
	// let the validators reach the single flight (scheduling aid only; a late
	// one simply starts its own fetch, which the verdicts allow)
	for i := 0; i < 100; i++ {
		runtime.Gosched()
	}
	time.Sleep(500 * time.Microsecond)
	if bump {
		done := make(chan struct{})
		before := env.pd.Pending()
		go func() {
			env.o.GetTimestamp(ctx, &oracle.Option{TxnScope: oracle.GlobalTxnScope})
			close(done)
		}()
		if env.pd.WaitPending(before+1, 20*time.Second) {
			env.pd.Release(env.pd.Pending() - 1) // the newest request first: it overtakes the flight's
			select {
			case <-done:
				r.Count("validate_scenarios_with_overtaking_fetch", 1)
			case <-time.After(time.Second): // another fetch slipped in between; released below
			}
		}
	}
	// from here on PD answers at once
	env.pd.SetPolicy(vtso.Policy{Hold: 0, AllocLatePct: late, StepPct: 20, StepMaxMs: 3})
	if fp == "pause" {
		failpoint.Disable(c13FPValidation)
	}
	res := make([]c13VRes, 0, n)
	for len(res) < n {
		select {
		case x := <-out:
			res = append(res, x)
		case <-time.After(60 * time.Second):
			r.Inconc("validate: %d of %d validators returned", len(res), n)
			env.pd.Drain()
			failpoint.Disable(c13FPValidation)
			return
		}
	}
	flights := env.pd.Requests() - req0
	if bump {
		flights--
	}
	needPD := 0
	for _, x := range res {
		vc := cases[x.i]
		c13JudgeValidate(r, vc.ts, vc.class, vc.stale, vc.scope, vc.issued, x.err, x.maxAfter, x.inv, x.ret, desc)
		if vc.class != "issued-recent" {
			needPD++
		}
	}
	if int64(needPD) > flights {
		r.Count("validate_calls_sharing_a_pd_fetch", needPD-int(flights))
	}
	r.Count("validate_pd_fetches", int(flights))
	r.Distinct(fmt.Sprintf("vsf|%s|%d|%d|%v|%d", fp, late, n, bump, flights))
	if r.SampleN() < 3 {
		var rows []map[string]any
		for _, x := range res {
			rows = append(rows, map[string]any{"readTS": cases[x.i].ts, "class": cases[x.i].class, "stale": cases[x.i].stale, "inv": x.inv, "ret": x.ret, "error": fmt.Sprint(x.err)})
		}
		r.Sample(map[string]any{"scenario": desc, "pd_fetches": flights, "validators": rows})
	}
}

// ---------------------------------------------------------------- scripted: expiry boundary

func c13ScriptExpiry(r *vrep.Report, rng *rand.Rand) {
	env, err := c13NewEnv(r, "expiry", 2*time.Second, false)
	if err != nil {
		r.Inconc("NewPdOracle: %v", err)
		return
	}
	defer env.close()
	ctx := context.Background()
	env.pd.SetPolicy(vtso.Policy{Hold: 0})
	steps := vrep.Pick(40, 400)
	for s := 0; s < steps; s++ {
		env.pd.Advance(int64(rng.Intn(3))) // 0: only the logical part moves
		ts, err := env.o.GetTimestamp(ctx, &oracle.Option{TxnScope: c13Scopes[rng.Intn(2)]})
		if err != nil {
			r.Violate("order:unexpected-error", fmt.Sprintf("GetTimestamp failed without an injected PD error: %v", err), nil)
			continue
		}
		p := oracle.ExtractPhysical(ts)
		for rem := int64(-3); rem <= 3; rem++ {
			for _, k := range []int64{0, 1, 20, 3000, int64(rng.Intn(100000))} {
				if k+rem < 0 {
					continue
				}
				for _, sc := range []string{oracle.GlobalTxnScope, ""} {
					u1, e, u2 := c13Sandwich(r, "pd", env.o, oracle.ComposeTS(p-k, int64(rng.Intn(1<<18))), uint64(k+rem), &oracle.Option{TxnScope: sc}, "quiescent-boundary")
					if u1 != rem || u2 != rem {
						// not a verdict (the statement fixes consistency, not the value); the
						// scripted clock makes the expected value known, so record it
						r.Count("expiry_value_differs_from_virtual_clock", 1)
					}
					_ = e
				}
			}
		}
		// a scope the oracle has never fetched
		c13Sandwich(r, "pd", env.o, oracle.ComposeTS(p-5, 0), uint64(rng.Intn(10)), &oracle.Option{TxnScope: "dc-never"}, "unknown-scope")
	}
}

// ---------------------------------------------------------------- scripted: a validator's context ends while the shared fetch is outstanding

// c13ScriptValidateCancel: k>=2 callers validate timestamps above the cached
// one while PD's answer to the (shared, single-flight) fetch is held; the
// context of the first caller / of a seeded subset is cancelled or runs into
// its deadline while the answer is outstanding; then PD answers.  Verdict: a
// caller whose *own* context is alive is judged exactly as everywhere else (a
// ts PD issued before its call must be accepted, a ts beyond the issued
// frontier must be rejected); a caller whose context ended may fail or not.
func c13ScriptValidateCancel(r *vrep.Report, rng *rand.Rand, idx int) {
	k := 2 + rng.Intn(5)
	who := []string{"first", "first", "subset", "subset", "all-but-last"}[rng.Intn(5)]
	how := []string{"cancel", "cancel", "deadline"}[rng.Intn(3)]
	late := []int{0, 0, 100}[rng.Intn(3)]
	fp := []string{"", "", "sleep(1)"}[rng.Intn(3)]
	desc := map[string]any{"scenario": "validate-cancel", "validators": k, "ended": who, "how": how, "alloc_late_pct": late, "failpoint": fp, "index": idx}
	env, err := c13NewEnv(r, fmt.Sprintf("vcancel-%d", idx), 2*time.Second, false)
	if err != nil {
		r.Inconc("NewPdOracle: %v", err)
		return
	}
	defer env.close()
	env.pd.SetPolicy(vtso.Policy{Hold: -1, AllocLatePct: late, StepPct: 20, StepMaxMs: 3})
	if fp != "" {
		if err := failpoint.Enable(c13FPValidation, fp); err != nil {
			r.Inconc("failpoint.Enable: %v", err)
			return
		}
		defer failpoint.Disable(c13FPValidation)
	}
	ends := make([]bool, k)
	switch who {
	case "first":
		ends[0] = true
	case "subset":
		for i := range ends {
			ends[i] = rng.Intn(2) == 0
		}
	default:
		for i := 0; i < k-1; i++ {
			ends[i] = true
		}
	}
	type vcase struct {
		ts     uint64
		class  string
		stale  bool
		issued bool
		ctx    context.Context
		cancel context.CancelFunc
	}
	cases := make([]vcase, k)
	out := make(chan c13VRes, k)
	launch := func(i int) {
		vc := cases[i]
		go func() {
			inv := env.seq.Add(1)
			err := env.o.ValidateReadTS(vc.ctx, vc.ts, vc.stale, &oracle.Option{TxnScope: oracle.GlobalTxnScope})
			ret := env.seq.Add(1)
			out <- c13VRes{i, err, inv, ret, env.pd.MaxIssued()}
		}()
	}
	for i := 0; i < k; i++ {
		vc := vcase{stale: rng.Intn(2) == 0}
		if i == 0 || rng.Intn(5) != 0 {
			vc.ts, vc.class, vc.issued = env.pd.Issue(), "issued-fresh-by-other-client", true
		} else {
			vc.ts, vc.class = oracle.ComposeTS(vtso.Physical(env.pd.MaxIssued())+60_000, 7), "far-future"
		}
		vc.ctx, vc.cancel = context.WithCancel(context.Background())
		if ends[i] && how == "deadline" {
			vc.cancel()
			// the deadline is armed below, once every caller is waiting
			vc.ctx, vc.cancel = nil, nil
		}
		cases[i] = vc
	}
	// deadline contexts must exist before the call; a generous deadline that the
	// driver waits for while PD's answer is held
	for i := range cases {
		if cases[i].ctx == nil {
			cases[i].ctx, cases[i].cancel = context.WithTimeout(context.Background(), 3*time.Millisecond)
		}
	}
	defer func() {
		for _, vc := range cases {
			vc.cancel()
		}
	}()
	launch(0)
	if !env.pd.WaitPending(1, 20*time.Second) {
		if cases[0].ctx.Err() == nil {
			r.Inconc("validate-cancel: the first validator's fetch did not reach the scripted PD")
		}
		env.pd.Drain()
		return
	}
	for i := 1; i < k; i++ {
		launch(i)
	}
	// scheduling aid: let the others join the single flight
	for i := 0; i < 100; i++ {
		runtime.Gosched()
	}
	time.Sleep(400 * time.Microsecond)
	// PD's answer is still outstanding: end the chosen contexts
	for i, vc := range cases {
		if !ends[i] {
			continue
		}
		if how == "cancel" {
			vc.cancel()
		} else {
			<-vc.ctx.Done()
		}
	}
	for i := 0; i < 50; i++ {
		runtime.Gosched()
	}
	time.Sleep(200 * time.Microsecond)
	// now PD answers everything, at once from here on
	env.pd.SetPolicy(vtso.Policy{Hold: 0, AllocLatePct: late, StepPct: 20, StepMaxMs: 3})
	res := make([]c13VRes, 0, k)
	for len(res) < k {
		select {
		case x := <-out:
			res = append(res, x)
		case <-time.After(60 * time.Second):
			r.Inconc("validate-cancel: %d of %d validators returned", len(res), k)
			env.pd.Drain()
			return
		}
	}
	alive := 0
	var rows []map[string]any
	for _, x := range res {
		vc := cases[x.i]
		rows = append(rows, map[string]any{"caller": x.i, "readTS": vc.ts, "class": vc.class, "stale": vc.stale, "ctx_ended": ends[x.i], "inv": x.inv, "ret": x.ret, "error": fmt.Sprint(x.err)})
	}
	desc["validators_detail"] = rows
	for _, x := range res {
		vc := cases[x.i]
		if ends[x.i] {
			if x.err == nil {
				r.Count("validate_ctx_ended_caller_still_accepted", 1)
			} else {
				r.Count("validate_ctx_ended_caller_failed", 1)
			}
			continue
		}
		alive++
		c13JudgeValidate(r, vc.ts, vc.class, vc.stale, oracle.GlobalTxnScope, vc.issued, x.err, x.maxAfter, x.inv, x.ret, desc)
	}
	if alive > 0 && alive < k {
		r.Count("validate_alive_callers_next_to_ended_ctx", alive)
		if ends[0] {
			r.Count("validate_alive_callers_after_starter_ctx_ended", alive)
		}
	}
	r.Count("validate_cancel_scenarios", 1)
	r.Distinct(fmt.Sprintf("vcx|%d|%s|%s|%d|%s|%v", k, who, how, late, fp, ends))
	if idx < 2 {
		r.Sample(map[string]any{"scenario": desc})
	}
}

// ---------------------------------------------------------------- scripted: validation at the exact frontier

// c13ScriptValidateFrontier: one caller, PD answers at once and only moves by
// what the oracle itself fetches, so the frontier "largest ts issued when the
// call ends" is hit exactly: readTS = largest issued + d for small d.
func c13ScriptValidateFrontier(r *vrep.Report, rng *rand.Rand) {
	env, err := c13NewEnv(r, "frontier", 2*time.Second, false)
	if err != nil {
		r.Inconc("NewPdOracle: %v", err)
		return
	}
	defer env.close()
	ctx := context.Background()
	for i := 0; i < vrep.Pick(300, 3000); i++ {
		env.pd.SetPolicy(vtso.Policy{Hold: 0, StepPct: []int{0, 0, 20}[rng.Intn(3)], StepMaxMs: 2})
		if rng.Intn(3) == 0 {
			env.pd.Issue() // another client moves the frontier beyond the oracle's cache
		}
		if rng.Intn(4) == 0 {
			env.o.GetTimestamp(ctx, &oracle.Option{TxnScope: oracle.GlobalTxnScope})
		}
		d := uint64(rng.Intn(7))
		ts := env.pd.MaxIssued() + d
		stale := rng.Intn(2) == 0
		sc := c13Scopes[rng.Intn(2)]
		inv := env.seq.Add(1)
		verr := env.o.ValidateReadTS(ctx, ts, stale, &oracle.Option{TxnScope: sc})
		ret := env.seq.Add(1)
		maxAfter := env.pd.MaxIssued()
		c13JudgeValidate(r, ts, fmt.Sprintf("frontier+%d", d), stale, sc, d == 0, verr, maxAfter, inv, ret, "frontier")
		r.Distinct(fmt.Sprintf("vfr|%d|%v|%v|%d", d, stale, verr == nil, int64(maxAfter)-int64(ts)))
		r.Count("validate_frontier_cases", 1)
	}
}

// ---------------------------------------------------------------- stress

type c13Phase struct {
	Index     int           `json:"index"`
	Callers   int           `json:"callers"`
	Ops       int           `json:"ops_per_caller"`
	Hold      int           `json:"hold"`
	LatePct   int           `json:"alloc_late_pct"`
	StepPct   int           `json:"step_pct"`
	Loop      bool          `json:"update_loop"`
	Interval  time.Duration `json:"update_interval"`
	Failpoint string        `json:"failpoint"`
	ErrPct    int           `json:"pd_err_pct"`
	Control   bool          `json:"control_thread"`
	// percentage of ValidateReadTS calls made with a context that runs into a
	// very short deadline (the others use context.Background())
	CancelPct int `json:"validate_short_deadline_pct"`
}

func c13GenPhase(rng *rand.Rand, idx int) c13Phase {
	callers := []int{1, 2, 3, 4, 8, 16, 32}[idx%7]
	p := c13Phase{Index: idx, Callers: callers}
	p.Ops = vrep.Pick(6400, 32000) / callers
	if p.Ops > vrep.Pick(800, 4000) {
		p.Ops = vrep.Pick(800, 4000)
	}
	p.Hold = []int{0, 1, 2, 4, 8, 16}[rng.Intn(6)]
	p.LatePct = []int{0, 0, 30, 100}[rng.Intn(4)]
	p.StepPct = []int{0, 5, 30}[rng.Intn(3)]
	p.Loop = rng.Intn(3) != 0
	p.Interval = []time.Duration{time.Millisecond, 2 * time.Millisecond, 5 * time.Millisecond, 600 * time.Millisecond, 2 * time.Second}[rng.Intn(5)]
	p.Failpoint = []string{"", "", "sleep(1)"}[rng.Intn(3)]
	if rng.Intn(6) == 0 {
		p.ErrPct = 10
	}
	p.Control = rng.Intn(4) != 0
	if idx%3 == 1 && p.ErrPct == 0 {
		// derived from the index, so the other phases are the same as before
		p.CancelPct = 30
		if p.Hold < 2 {
			p.Hold = 2 // PD's answers must be outstanding for a while
		}
	}
	return p
}

func c13RunPhase(r *vrep.Report, p c13Phase) {
	stream := fmt.Sprintf("phase-%d", p.Index)
	rng := vrep.Rand("c13-" + stream)
	env, err := c13NewEnv(r, stream, p.Interval, p.Loop)
	if err != nil {
		r.Inconc("NewPdOracle: %v", err)
		return
	}
	ctx := context.Background()
	pol := vtso.Policy{Hold: p.Hold, AllocLatePct: p.LatePct, StepPct: p.StepPct, StepMaxMs: 3, ErrPct: p.ErrPct}
	env.pd.SetPolicy(pol)
	env.pd.StartPump(20)
	if p.Failpoint != "" {
		failpoint.Enable(c13FPValidation, p.Failpoint)
		defer failpoint.Disable(c13FPValidation)
	}
	mix := c13Mix{TS: 20, Async: 15, LR: 15, LRAsync: 8, Stale: 4, Expiry: 18, Validate: 20}
	if p.Failpoint != "" {
		mix.Validate = 8 // every fetch for validation sleeps: keep the phase short
	}
	if p.ErrPct > 0 {
		// a PD failure makes ValidateReadTS fail for another reason than the
		// one the statement talks about: not driven together
		mix.Validate = 0
	}
	callers := make([]*c13Caller, p.Callers)
	var wg sync.WaitGroup
	stop := make(chan struct{})
	for i := range callers {
		callers[i] = &c13Caller{id: i, r: r, seq: env.seq, o: env.o, pd: env.pd, kind: "pd", mix: mix, cancelPct: p.CancelPct,
			rng: vrep.Rand(fmt.Sprintf("c13-%s-caller-%d", stream, i))}
		wg.Add(1)
		go func(c *c13Caller) {
			defer wg.Done()
			c.run(ctx, p.Ops)
		}(callers[i])
	}
	ctlDone := make(chan struct{})
	go func() {
		defer close(ctlDone)
		if !p.Control {
			return
		}
		for n := 0; ; n++ {
			select {
			case <-stop:
				return
			default:
			}
			switch rng.Intn(4) {
			case 0:
				// mostly short: a long interval only takes effect at the next tick and then
				// silences the loop for the rest of the phase
				iv := []time.Duration{time.Millisecond, time.Millisecond, 2 * time.Millisecond, 3 * time.Millisecond, 3 * time.Millisecond, 7 * time.Millisecond, 20 * time.Millisecond,
					20 * time.Millisecond, 499 * time.Millisecond, 500 * time.Millisecond, 501 * time.Millisecond, 2 * time.Second}[rng.Intn(12)]
				if err := env.o.SetLowResolutionTimestampUpdateInterval(iv); err == nil {
					r.Count("interval_changes", 1)
				}
			case 1:
				env.pd.Advance(1 + int64(rng.Intn(40)))
				r.Count("pd_clock_jumps", 1)
			case 2:
				q := pol
				q.Hold = []int{0, 1, 3, 8, 32}[rng.Intn(5)]
				env.pd.SetPolicy(q)
			case 3:
				env.o.SetLowResolutionTimestampUpdateInterval(-time.Second) // must be refused, changes nothing
			}
			time.Sleep(time.Duration(100+rng.Intn(400)) * time.Microsecond)
		}
	}()
	done := make(chan struct{})
	go func() { wg.Wait(); close(done) }()
	ok := c13WaitOrInconc(r, done, "stress "+stream, env.pd.Drain)
	close(stop)
	<-ctlDone
	env.pd.StopPump()
	reorders := env.pd.Reorders()
	requests := env.pd.Requests()
	env.close()
	if !ok {
		return
	}
	var evs []c13Ev
	for _, c := range callers {
		evs = append(evs, c.evs...)
	}
	c13CheckOrder(r, "pd", evs, p)
	r.Count("pd_requests", int(requests))
	r.Count("pd_responses_released_out_of_order", int(reorders))
	r.Count("stress_phases", 1)
	r.Distinct(fmt.Sprintf("phase|%+v", p))
	if p.Index == 0 && len(evs) > 6 {
		r.Sample(map[string]any{"scenario": p, "first_events": evs[:6]})
	}
}

func TestVerifC13PD(t *testing.T) {
	r := vrep.New("C13", "c13-pd", "pd oracle over a scripted PD (virtual clock, responses released in chosen orders). "+
		"Clauses: (a) GetTimestamp/GetTimestampAsync.Wait: A returned before B invoked => ts(A)<ts(B) (event sequencer, no clock); "+
		"(b) low-resolution ts per scope never decreases in real-time order and is <= the largest ts the PD has issued, read after the call returned; "+
		"(c) expiry sandwich u1=UntilExpired,e=IsExpired,u2=UntilExpired: e => u2<=0, !e => u1>0; "+
		"(e) ValidateReadTS (validation enabled, normal and stale reads): a ts the PD issued before the call was invoked must be accepted, a ts above the largest issued ts read after return must be rejected (MaxUint64 non-stale = 'latest' sentinel: open); "+
		"also while other callers sharing the same single-flight fetch have their context cancelled / run into their deadline with PD's answer outstanding (the scripted PD honours the request context): only a caller whose own context ended is exempt. "+
		"distinct = scripted release permutations (non-identity), single-flight scenario shapes (failpoint, allocation mode, validators, PD fetches), stress phase configurations, expiry cases with |remaining|<=1ms or the clock moving inside the sandwich, validation observation classes (ts class, stale, scope, verdict, fetched from PD, PD issued during the call)")
	defer r.Finish(t)
	c13Quiet()
	util.EnableFailpoints()
	EnableTSValidation.Store(true)
	defer EnableTSValidation.Store(false)
	rng := vrep.Rand("c13-pd-script")

	// scripted: every release order for k<=4 (sync callers and futures, ts
	// allocated on arrival or on release), seeded orders for k=5..7
	idx := 0
	for k := 2; k <= 4; k++ {
		for _, perm := range c13Perms(k) {
			for _, async := range []bool{false, true} {
				late := []int{0, 100}[idx%2]
				if vrep.Thorough() {
					c13ScriptReorder(r, rng, perm, async, 100-late, idx)
					idx++
				}
				c13ScriptReorder(r, rng, perm, async, late, idx)
				idx++
			}
		}
	}
	for i := 0; i < vrep.Pick(20, 300); i++ {
		k := 5 + rng.Intn(3)
		c13ScriptReorder(r, rng, rng.Perm(k), rng.Intn(2) == 0, []int{0, 50, 100}[rng.Intn(3)], idx)
		idx++
	}
	r.Flush()
	for i := 0; i < vrep.Pick(400, 4000); i++ {
		c13ScriptValidate(r, rng, i)
	}
	r.Flush()
	c13ScriptExpiry(r, rng)
	c13ScriptValidateFrontier(r, rng)
	r.Flush()
	crng := vrep.Rand("c13-pd-cancel")
	for i := 0; i < vrep.Pick(250, 2500); i++ {
		c13ScriptValidateCancel(r, crng, i)
	}
	r.Flush()
	prng := vrep.Rand("c13-pd-phases")
	for i := 0; i < vrep.Pick(70, 700); i++ {
		c13RunPhase(r, c13GenPhase(prng, i))
		if i%7 == 6 {
			r.Flush()
		}
	}
	r.Floor("scripted_reordered_releases", 50)
	r.Floor("pd_responses_released_out_of_order", 100)
	r.Floor("validate_calls_sharing_a_pd_fetch", 20)
	r.Floor("validate_issued_ts", 500)
	r.Floor("validate_beyond_ts", 200)
	r.Floor("expiry_boundary_cases", 500)
	r.Floor("lowres_events", 1000)
	r.Floor("ts_realtime_ordered_pairs", 10000)
	r.Floor("interval_changes", 20)
	r.Floor("validate_alive_callers_after_starter_ctx_ended", 100)
	r.Floor("validate_stress_calls_with_short_deadline", 100)
}
