//go:build verif

package latch

// C17 (black-box core) — seeded concurrent stress through the exported API
// only: NewScheduler / Lock / UnLock / Close, Lock.IsStale / SetCommitTS, used
// the way KVTxn.Commit uses them (Lock; if stale: UnLock; else work, on success
// SetCommitTS, UnLock).  Many goroutines, few keys, tiny latch tables, random
// commit timestamps, rolled-back transactions; run under -race.
//
// Monitors
//   online : per key a counter of current non-stale holders (must be 1 after a
//            non-stale Lock returns, until its UnLock is called);
//   history: every request is recorded with logical stamps from one atomic
//            sequencer (call < return < unlock-call).  Per key, the observed
//            hold intervals [return, unlock-call] of non-stale holders must
//            not overlap (exclusivity); since the real hold interval contains
//            the observed one, their order is the real order of holding, so a
//            non-stale holder T of key k must have start ts >= the commit ts
//            of every earlier non-stale holder of k (else it had to be
//            reported stale), and a stale T needs some non-stale holder H of
//            one of its keys with H.commit > T.start whose UnLock was called
//            before T's Lock returned (else the flag is spurious);
//   progress: every round (a batch of goroutines) must end.  A generous
//            wall-clock watchdog only triggers the analysis: if nobody is
//            between Lock-return and UnLock, nothing completes any more and
//            goroutines sit in Lock, that is a lost wake-up / deadlock;
//            otherwise the case is inconclusive.
//
// The unlock-burst families further down (runBurst) put the single scheduler
// goroutine and its bounded unlock channel under back-pressure (hundreds of
// UnLock calls at once while the goroutine is busy or blocked); they use the
// same request path and the same oracles.  Their only white-box parts: the
// slot mutexes are held during the burst in the "stall" family (a schedule
// perturbation) and len(unlockCh) is read for coverage and for the "scheduler
// idle" part of the progress analysis.

import (
	"encoding/binary"
	"fmt"
	"math/rand"
	"os"
	"runtime"
	"sort"
	"sync"
	"sync/atomic"
	"testing"
	"time"

	"github.com/tikv/client-go/v2/verifh/vrep"
)

const c17sBigBase = uint64(430000000000) << 18

type c17sRec struct {
	G, Round, N int
	Keys        []int
	Start       uint64
	Commit      uint64 // 0: rolled back or stale
	Stale       bool
	Call        int64
	Ret         int64
	Unl         int64
}

func (x *c17sRec) String() string {
	return fmt.Sprintf("{g%d r%d #%d keys=%v start=%d commit=%d stale=%v call@%d ret@%d unlock@%d}", x.G, x.Round, x.N, x.Keys, x.Start, x.Commit, x.Stale, x.Call, x.Ret, x.Unl)
}

type c17sParams struct {
	Session   int         `json:"session"`
	Seed      int64       `json:"seed"`
	Size      uint        `json:"table_size"`
	PoolN     int         `json:"pool_keys"`
	G         int         `json:"goroutines"`
	Rounds    int         `json:"rounds"`
	PerG      int         `json:"txns_per_goroutine_per_round"`
	Realistic bool        `json:"tso_mode"` // true: start/commit from one increasing counter; false: random inside a sliding window
	Base      uint64      `json:"ts_base"`
	Prefix    string      `json:"key_prefix"`
	Burst     *c17bParams `json:"burst,omitempty"` // set for the unlock-burst families
}

type c17sSession struct {
	p       c17sParams
	sched   *LatchesScheduler
	pool    [][]byte
	seq     atomic.Int64
	tso     atomic.Uint64
	holders []atomic.Int32
	inLock  atomic.Int64
	holding atomic.Int64
	done    atomic.Int64
	// unlCalled counts UnLock calls that have begun (burst families)
	unlCalled atomic.Int64
	r         *vrep.Report
}

func c17sYield(rng *rand.Rand) {
	switch rng.Intn(16) {
	case 0, 1, 2, 3:
		runtime.Gosched()
	case 4, 5:
		for i := 0; i < 3; i++ {
			runtime.Gosched()
		}
	case 6:
		time.Sleep(time.Duration(rng.Intn(30)) * time.Microsecond)
	}
}

func (s *c17sSession) worker(g, round int, rng *rand.Rand, out *[]*c17sRec) {
	for n := 0; n < s.p.PerG; n++ {
		nk := 1 + rng.Intn(3)
		if nk > s.p.PoolN {
			nk = s.p.PoolN
		}
		perm := rng.Perm(s.p.PoolN)[:nk]
		rec := &c17sRec{G: g, Round: round, N: n, Keys: append([]int(nil), perm...)}
		sort.Ints(rec.Keys)
		if s.p.Realistic {
			rec.Start = s.tso.Add(1)
		} else {
			rec.Start = s.p.Base + 1 + uint64(round*8) + uint64(rng.Intn(8))
		}
		if rng.Intn(3) == 0 {
			c17sYield(rng) // gap between taking the start ts and asking for the latches
		}
		ks := make([][]byte, nk)
		for i, k := range perm {
			ks[i] = append([]byte(nil), s.pool[k]...)
		}
		if !s.request(rec, ks, rng, 5, nil) {
			return
		}
		*out = append(*out, rec)
	}
}

// request performs one transaction the way KVTxn.Commit uses the scheduler:
// Lock; if stale: UnLock; else "commit" (1 in rollbackOneIn rolled back; 0:
// never), SetCommitTS, UnLock.  rec.Start and rec.Keys are set by the caller.
// hold, if given, runs after Lock returned and before the commit / UnLock (the
// burst families park their holders there).  false: Lock panicked.
func (s *c17sSession) request(rec *c17sRec, ks [][]byte, rng *rand.Rand, rollbackOneIn int, hold func(stale bool)) bool {
	{
		rec.Call = s.seq.Add(1)
		s.inLock.Add(1)
		var lock *Lock
		func() {
			defer func() {
				if p := recover(); p != nil {
					s.r.Violate("bb:panic-in-Lock", fmt.Sprintf("LatchesScheduler.Lock panicked: %v (request %v)", p, rec), map[string]any{"params": s.p})
				}
			}()
			lock = s.sched.Lock(rec.Start, ks)
		}()
		if lock == nil {
			s.inLock.Add(-1)
			return false
		}
		s.holding.Add(1)
		s.inLock.Add(-1)
		rec.Stale = lock.IsStale()
		rec.Ret = s.seq.Add(1)
		if !rec.Stale {
			for _, k := range rec.Keys {
				if c := s.holders[k].Add(1); c != 1 {
					s.r.Violate("bb:exclusivity-online", fmt.Sprintf("after a non-stale Lock returned, key #%d has %d non-stale holders that have not called UnLock (request %v)", k, c, rec),
						map[string]any{"params": s.p})
				}
			}
			if hold != nil {
				hold(false)
			}
			runtime.Gosched() // the commit
			c17sYield(rng)
			if rollbackOneIn <= 0 || rng.Intn(rollbackOneIn) != 0 {
				if s.p.Realistic {
					rec.Commit = s.tso.Add(1)
				} else {
					rec.Commit = rec.Start + 1 + uint64(rng.Intn(4))
				}
				lock.SetCommitTS(rec.Commit)
			}
			for _, k := range rec.Keys {
				s.holders[k].Add(-1)
			}
		} else if hold != nil {
			hold(true)
		}
		rec.Unl = s.seq.Add(1)
		s.unlCalled.Add(1)
		s.sched.UnLock(lock)
		s.holding.Add(-1)
		s.done.Add(1)
	}
	return true
}

// run returns false when the session could not be completed (stuck)
func (s *c17sSession) run() (recs []*c17sRec, ok bool) {
	s.sched = NewScheduler(s.p.Size)
	defer s.sched.Close()
	s.pool = make([][]byte, s.p.PoolN)
	for i := range s.pool {
		s.pool[i] = []byte(fmt.Sprintf("%s%d", s.p.Prefix, i))
	}
	s.holders = make([]atomic.Int32, s.p.PoolN)
	s.tso.Store(s.p.Base)
	perG := make([][]*c17sRec, s.p.G)
	for round := 0; round < s.p.Rounds; round++ {
		var wg sync.WaitGroup
		for g := 0; g < s.p.G; g++ {
			wg.Add(1)
			rng := rand.New(rand.NewSource(s.p.Seed + int64(g)*7919 + int64(round)*104729))
			go func(g int, rng *rand.Rand) {
				defer wg.Done()
				s.worker(g, round, rng, &perG[g])
			}(g, rng)
		}
		fin := make(chan struct{})
		go func() { wg.Wait(); close(fin) }()
		select {
		case <-fin:
		case <-time.After(30 * time.Second):
			// watchdog: decide on the logical state, not on the time
			a := [3]int64{s.inLock.Load(), s.holding.Load(), s.done.Load()}
			stable := true
			for i := 0; i < 4 && stable; i++ {
				time.Sleep(2 * time.Second)
				b := [3]int64{s.inLock.Load(), s.holding.Load(), s.done.Load()}
				stable = a == b
			}
			select {
			case <-fin:
				continue
			default:
			}
			if stable && a[1] == 0 && a[0] > 0 {
				s.r.Violate("bb:lock-never-returns", fmt.Sprintf("%d goroutines sit in LatchesScheduler.Lock, nobody is between Lock and UnLock (every holder has unlocked), and nothing completes any more: lost wake-up / deadlock (round %d)", a[0], round),
					map[string]any{"params": s.p})
			} else {
				s.r.Inconc("c17-stress session %d round %d: watchdog fired (inLock=%d holding=%d done=%d stable=%v)", s.p.Session, round, a[0], a[1], a[2], stable)
			}
			return nil, false
		}
	}
	for _, l := range perG {
		recs = append(recs, l...)
	}
	return recs, true
}

func (s *c17sSession) check(recs []*c17sRec) {
	r := s.r
	perKey := make([][]*c17sRec, s.p.PoolN)
	for _, x := range recs {
		if x.Stale {
			continue
		}
		for _, k := range x.Keys {
			perKey[k] = append(perKey[k], x)
		}
	}
	contended := map[*c17sRec]bool{}
	for k, l := range perKey {
		sort.Slice(l, func(i, j int) bool { return l[i].Ret < l[j].Ret })
		var maxC uint64
		var maxBy *c17sRec
		for i, x := range l {
			if i > 0 {
				prev := l[i-1]
				if prev.Unl > x.Ret {
					r.Violate("bb:exclusivity", fmt.Sprintf("key #%d: hold intervals of two non-stale holders overlap: %v and %v", k, prev, x),
						map[string]any{"params": s.p, "a": prev.String(), "b": x.String()})
				}
				if prev.Unl > x.Call {
					contended[x] = true
				}
			}
			if maxC > x.Start {
				r.Violate("bb:stale-missed", fmt.Sprintf("key #%d: %v returned non-stale although the earlier holder %v released the key with commit ts %d > start ts %d", k, x, maxBy, maxC, x.Start),
					map[string]any{"params": s.p, "earlier": maxBy.String(), "later": x.String()})
			}
			if x.Commit > maxC {
				maxC, maxBy = x.Commit, x
			}
		}
	}
	for _, x := range recs {
		r.Eval(1)
		if !x.Stale {
			if x.Commit == 0 {
				r.Count("rolled_back_holders", 1)
			}
			if contended[x] {
				r.Count("contended_requests", 1)
				r.Distinct(fmt.Sprintf("c|%d|%d|%d|%d", s.p.Session, x.Round, x.G, x.N))
			}
			continue
		}
		r.Count("stale_returns", 1)
		r.Distinct(fmt.Sprintf("s|%d|%d|%d|%d", s.p.Session, x.Round, x.G, x.N))
		justified := false
		for _, k := range x.Keys {
			for _, h := range perKey[k] {
				if h.Commit > x.Start && h.Unl < x.Ret {
					justified = true
				}
			}
		}
		if !justified {
			r.Violate("bb:stale-spurious", fmt.Sprintf("%v was reported stale but no non-stale holder of one of its keys with commit ts > %d had called UnLock before that Lock returned", x, x.Start),
				map[string]any{"params": s.p, "request": x.String()})
		}
	}
}

// ---------------------------------------------------------------------------
// Unlock-burst families: back-pressure on the scheduler goroutine.
//
// Every release and every wake-up goes through one goroutine fed by a bounded
// channel (lockChanSize entries).  The sessions above never have more than a
// dozen unlocks in flight, so that hand-off is never under pressure.  A burst
// session lets 150..600 goroutines each take a private lock (1..3 keys, never
// contended), parks them, queues some early requests on those keys (they have
// to be woken), and then lets every holder commit and UnLock at once while the
// scheduler goroutine cannot keep up:
//   huge-lock: one lock of 10^5..10^6 keys is unlocked just before the burst
//              (the scheduler goroutine is busy releasing it);
//   stall    : the slot mutexes are held for the duration of the burst, as by
//              acquirers descheduled inside their critical sections (the
//              scheduler goroutine blocks at its first release) - a schedule
//              perturbation, not a different input;
//   plain    : nothing but the burst itself.
// Afterwards a fresh request for every key (and some multi-key ones; start ts
// taken before or after the commits) must return; all requests are judged by
// the same history oracle (exclusivity, stale exactly when due).
// Progress is decided on the logical state: when the watchdog (ten times the
// set-up time of the session, which contains work comparable to the release)
// fires and over a further observation window nobody is between Lock-return
// and UnLock-return, the unlock channel is empty, nothing completes and
// requests still sit in Lock, an unlock or a wake-up was lost.
// Coverage (white-box, observation only): len(unlockCh) is sampled during the
// burst; sessions that saw it full are counted and have a floor.

type c17bParams struct {
	Family          string `json:"family"`
	Holders         int    `json:"holders"`
	SmallKeys       int    `json:"small_keys"`
	HugeKeys        int    `json:"huge_lock_keys"`
	Early           int    `json:"early_waiters"`
	FreshMulti      int    `json:"fresh_multi_key_requests"`
	FreshConcurrent bool   `json:"fresh_requests_concurrent_with_burst"`
}

const c17bSample = 8 // keys of the huge lock that are part of the judged pool

// awaitOrAnalyse waits for wg; true: everybody finished.
func (s *c17sSession) awaitOrAnalyse(wg *sync.WaitGroup, wd time.Duration, phase string) bool {
	fin := make(chan struct{})
	go func() { wg.Wait(); close(fin) }()
	select {
	case <-fin:
		return true
	case <-time.After(wd):
	}
	state := func() [4]int64 {
		return [4]int64{s.inLock.Load(), s.holding.Load(), s.done.Load(), int64(len(s.sched.unlockCh))}
	}
	a := state()
	stable := true
	for i := 0; i < 5 && stable; i++ {
		select {
		case <-fin:
			return true
		case <-time.After(2 * time.Second):
		}
		stable = a == state()
	}
	select {
	case <-fin:
		return true
	default:
	}
	if stable && a[1] == 0 && a[3] == 0 && a[0] > 0 {
		s.r.Violate("bb:burst-lock-never-returns", fmt.Sprintf("after an unlock burst (%s, %d holders unlocking at once) %d requests sit in LatchesScheduler.Lock although every holder's UnLock has returned, the unlock channel is empty and nothing completes any more (%d UnLock calls made, %d requests completed; phase %s; watchdog %v >= ten times the set-up): a dropped unlock / lost wake-up",
			s.p.Burst.Family, s.p.Burst.Holders, a[0], s.unlCalled.Load(), a[2], phase, wd), map[string]any{"params": s.p})
	} else {
		s.r.Inconc("c17-stress burst session %d (%s) phase %s: watchdog %v fired (inLock=%d holding=%d done=%d unlockCh=%d stable=%v)", s.p.Session, s.p.Burst.Family, phase, wd, a[0], a[1], a[2], a[3], stable)
	}
	return false
}

func (s *c17sSession) runBurst(rng *rand.Rand) (recs []*c17sRec, ok bool) {
	bp := s.p.Burst
	t0 := time.Now()
	s.sched = NewScheduler(s.p.Size)
	defer s.sched.Close()

	// holders: consecutive private keys
	nks := make([]int, bp.Holders)
	bp.SmallKeys = 0
	for h := range nks {
		nks[h] = 1
		if rng.Intn(4) == 0 {
			nks[h] = 2 + rng.Intn(2)
		}
		bp.SmallKeys += nks[h]
	}
	nSample := 0
	if bp.HugeKeys > 0 {
		nSample = c17bSample
	}
	s.p.PoolN = bp.SmallKeys + nSample
	s.pool = make([][]byte, s.p.PoolN)
	for i := 0; i < bp.SmallKeys; i++ {
		s.pool[i] = []byte(fmt.Sprintf("%s-%05d", s.p.Prefix, i))
	}
	var hugeKeys [][]byte
	if bp.HugeKeys > 0 {
		const w = 11
		buf := make([]byte, w*bp.HugeKeys)
		hugeKeys = make([][]byte, bp.HugeKeys)
		for i := range hugeKeys {
			k := buf[w*i : w*i+w : w*i+w]
			k[0], k[1], k[2] = 'B', s.p.Prefix[0], s.p.Prefix[1]
			binary.BigEndian.PutUint64(k[3:], uint64(i))
			hugeKeys[i] = k
		}
		for j := 0; j < nSample; j++ {
			s.pool[bp.SmallKeys+j] = append([]byte(nil), hugeKeys[j*(bp.HugeKeys-1)/(nSample-1)]...)
		}
	}
	s.holders = make([]atomic.Int32, s.p.PoolN)
	s.tso.Store(s.p.Base)
	var mu sync.Mutex
	add := func(rec *c17sRec) { mu.Lock(); recs = append(recs, rec); mu.Unlock() }
	keysOf := func(idx []int) [][]byte {
		ks := make([][]byte, len(idx))
		for i, k := range idx {
			ks[i] = append([]byte(nil), s.pool[k]...)
		}
		return ks
	}
	pick := func(n int) []int {
		m := map[int]bool{}
		var idx []int
		for len(idx) < n {
			if k := rng.Intn(s.p.PoolN); !m[k] {
				m[k] = true
				idx = append(idx, k)
			}
		}
		sort.Ints(idx)
		return idx
	}

	// phase 1: every holder takes its private lock and parks
	gate := make(chan struct{})
	var acquired, all, holdersDone sync.WaitGroup
	off := 0
	for h := 0; h < bp.Holders; h++ {
		idx := make([]int, nks[h])
		for i := range idx {
			idx[i] = off + i
		}
		off += nks[h]
		rec := &c17sRec{G: h, Round: 0, Keys: idx, Start: s.tso.Add(1)}
		ks := keysOf(idx)
		hr := rand.New(rand.NewSource(s.p.Seed + int64(h)*7919))
		acquired.Add(1)
		all.Add(1)
		holdersDone.Add(1)
		go func() {
			defer all.Done()
			defer holdersDone.Done()
			parked := false
			okr := s.request(rec, ks, hr, 6, func(stale bool) {
				parked = true
				acquired.Done()
				if !stale {
					<-gate
				}
			})
			if !parked {
				acquired.Done()
			}
			if okr {
				add(rec)
			}
		}()
	}
	var huge *Lock
	var hugeRec *c17sRec
	if bp.HugeKeys > 0 {
		idx := make([]int, nSample)
		for j := range idx {
			idx[j] = bp.SmallKeys + j
		}
		hugeRec = &c17sRec{G: -1, Round: 0, Keys: idx, Start: s.tso.Add(1)}
		hugeRec.Call = s.seq.Add(1)
		s.inLock.Add(1)
		func() {
			defer func() {
				if p := recover(); p != nil {
					s.r.Violate("bb:panic-in-Lock", fmt.Sprintf("LatchesScheduler.Lock panicked: %v (lock of %d keys)", p, bp.HugeKeys), map[string]any{"params": s.p})
				}
			}()
			huge = s.sched.Lock(hugeRec.Start, hugeKeys)
		}()
		s.inLock.Add(-1)
		if huge == nil {
			return nil, false
		}
		s.holding.Add(1)
		hugeRec.Stale = huge.IsStale()
		hugeRec.Ret = s.seq.Add(1)
		if !hugeRec.Stale {
			for _, k := range hugeRec.Keys {
				s.holders[k].Add(1)
			}
		}
	}
	if !s.awaitOrAnalyse(&acquired, 120*time.Second, "acquire") {
		return nil, false
	}

	// early requests on held keys: they queue up and have to be woken by the
	// burst; their start ts precede every commit ts of the burst
	launch := func(round, n int, idx []int, start uint64) {
		rec := &c17sRec{G: n, Round: round, Keys: idx, Start: start}
		ks := keysOf(idx)
		rr := rand.New(rand.NewSource(s.p.Seed + int64(round)*104729 + int64(n)*31))
		all.Add(1)
		go func() {
			defer all.Done()
			if s.request(rec, ks, rr, 5, nil) {
				add(rec)
			}
		}()
	}
	for e := 0; e < bp.Early; e++ {
		launch(1, e, pick(1+rng.Intn(3)), s.tso.Add(1))
	}
	// fresh requests, planned now so that the "old" ones get a start ts that
	// precedes the commits
	type plan struct {
		idx []int
		old uint64
	}
	var fresh []plan
	for k := 0; k < s.p.PoolN; k++ {
		fresh = append(fresh, plan{idx: []int{k}})
	}
	for i := 0; i < bp.FreshMulti; i++ {
		fresh = append(fresh, plan{idx: pick(2 + rng.Intn(2))})
	}
	for i := range fresh {
		if rng.Intn(2) == 0 {
			fresh[i].old = s.tso.Add(1)
		}
	}
	launchFresh := func() {
		for i, f := range fresh {
			st := f.old
			if st == 0 {
				st = s.tso.Add(1)
			}
			launch(2, i, f.idx, st)
		}
	}
	for i := 0; i < 2000 && s.inLock.Load() < int64(bp.Early); i++ { // let the early requests reach the queue (either order is legal)
		runtime.Gosched()
	}
	setup := time.Since(t0)
	wd := 10 * setup
	if wd < 15*time.Second {
		wd = 15 * time.Second
	}
	if wd > 150*time.Second {
		wd = 150 * time.Second
	}

	// phase 2: the burst
	stop := make(chan struct{})
	var maxLen atomic.Int64
	var samplerDone sync.WaitGroup
	samplerDone.Add(1)
	go func() {
		defer samplerDone.Done()
		for {
			select {
			case <-stop:
				return
			default:
			}
			if n := int64(len(s.sched.unlockCh)); n > maxLen.Load() {
				maxLen.Store(n)
			}
			runtime.Gosched()
		}
	}()
	stopSampler := func() { close(stop); samplerDone.Wait() }
	switch bp.Family {
	case "huge-lock":
		if !hugeRec.Stale {
			for _, k := range hugeRec.Keys {
				s.holders[k].Add(-1)
			}
			hugeRec.Commit = s.tso.Add(1)
			huge.SetCommitTS(hugeRec.Commit)
		}
		hugeRec.Unl = s.seq.Add(1)
		s.unlCalled.Add(1)
		s.sched.UnLock(huge)
		s.holding.Add(-1)
		s.done.Add(1)
		add(hugeRec)
		close(gate)
	case "stall":
		slots := s.sched.latches.slots
		for i := range slots {
			slots[i].Lock()
		}
		before := s.unlCalled.Load()
		close(gate)
		for i := 0; i < 4000; i++ {
			if s.unlCalled.Load()-before >= int64(bp.Holders) {
				break
			}
			if i < 1000 {
				runtime.Gosched()
			} else {
				time.Sleep(time.Millisecond)
			}
		}
		for i := 0; i < 50; i++ {
			runtime.Gosched()
		}
		for i := range slots {
			slots[i].Unlock()
		}
	default:
		close(gate)
	}
	if bp.FreshConcurrent {
		launchFresh()
	} else {
		if !s.awaitOrAnalyse(&holdersDone, wd, "holders-unlock") {
			stopSampler()
			return nil, false
		}
		launchFresh()
	}
	fin := s.awaitOrAnalyse(&all, wd, "fresh-requests")
	stopSampler()
	if !fin {
		return nil, false
	}
	s.r.Count("burst_sessions", 1)
	s.r.Count("burst_sessions_"+bp.Family, 1)
	s.r.Count("burst_unlocks", bp.Holders)
	if maxLen.Load() >= lockChanSize {
		s.r.Count("burst_sessions_unlock_channel_full", 1)
	}
	return recs, true
}

func TestVerifC17Stress(t *testing.T) {
	r := vrep.New("C17", "c17-stress",
		"black-box concurrent stress of LatchesScheduler (Lock/UnLock/SetCommitTS/IsStale as KVTxn.Commit uses them) under -race: sessions of 2..12 goroutines x rounds x 1..3 requests, 1..3 distinct keys out of 2..6 on tables of 1/2/4 slots, start/commit ts from a TSO counter or random in a sliding window (ties possible), 1 in 5 holders rolled back, ts base 0 or a realistic TSO; "+
			"oracles: online holder counter per key, history check per key (no overlap of [Lock return, UnLock call] of non-stale holders; non-stale later holder => start >= commit of every earlier holder; stale => justified by an unlocked holder with commit > start), every round terminates (watchdog -> logical-state analysis); "+
			"unlock-burst families (back-pressure on the scheduler goroutine and its bounded unlock channel): 150..600 parked holders of private 1..3-key locks plus queued early requests, all holders UnLock at once while the scheduler goroutine is busy releasing one lock of 10^5..10^6 keys / blocked on held slot mutexes / merely outnumbered, then a fresh request per key and multi-key ones (start ts before or after the commits), same history oracle; progress decided on the logical state after a watchdog of ten times the session's set-up (every UnLock returned, unlock channel empty, nothing completes, requests still in Lock => dropped unlock / lost wake-up); "+
			"evaluations = Lock returns judged; distinct = stale requests + requests that had to wait for a holder of a shared key, each counted once")
	defer r.Finish(t)
	// unlock-burst families (own random stream: the sessions below stay as they were)
	bm := vrep.Rand("c17-stress-burst")
	nHuge, nStall, nPlain := vrep.Pick(4, 24), vrep.Pick(24, 240), vrep.Pick(8, 80)
	var fams []string
	for _, f := range []struct {
		name string
		n    int
	}{{"huge-lock", nHuge}, {"stall", nStall}, {"plain", nPlain}} {
		for i := 0; i < f.n; i++ {
			fams = append(fams, f.name)
		}
	}
	bm.Shuffle(len(fams), func(i, j int) { fams[i], fams[j] = fams[j], fams[i] })
	if only := os.Getenv("VERIF_C17_BURST_ONLY"); only != "" { // hand runs: one family (the floors then report inconclusive)
		var l []string
		for _, f := range fams {
			if f == only {
				l = append(l, f)
			}
		}
		fams = l
	}
	for bn, fam := range fams {
		bp := &c17bParams{Family: fam, Holders: 150 + bm.Intn(451), Early: bm.Intn(120), FreshMulti: bm.Intn(60), FreshConcurrent: bm.Intn(3) == 0}
		p := c17sParams{Session: 1000000 + bn, Seed: bm.Int63(), Realistic: true, Burst: bp}
		switch fam {
		case "huge-lock":
			bp.HugeKeys = vrep.Pick(200000, 100000+bm.Intn(900001))
			p.Size = uint(1) << uint(13+bm.Intn(6)) // 8Ki..256Ki slots: chains stay short enough for 10^6 keys
			if vrep.Thorough() && bp.HugeKeys > 400000 && p.Size < 1<<15 {
				p.Size = 1 << 15
			}
		case "stall":
			p.Size = []uint{1, 4, 16, 64}[bm.Intn(4)]
		default:
			p.Size = []uint{1, 4, 64, 1024}[bm.Intn(4)]
		}
		if bm.Intn(2) == 0 {
			p.Base = c17sBigBase
		}
		p.Prefix = string(rune('a'+bm.Intn(26))) + string(rune('a'+bm.Intn(26)))
		s := &c17sSession{p: p, r: r}
		recs, ok := s.runBurst(rand.New(rand.NewSource(p.Seed)))
		if !ok {
			break // goroutines of a stuck session stay behind; the other families of this unit go on
		}
		s.check(recs)
		r.Count("burst_requests", len(recs))
		if bn < 2 {
			r.Sample(map[string]any{"params": s.p, "requests": len(recs)})
		}
		if r.NViolations() > 20 {
			break
		}
	}
	r.Floor("burst_sessions", vrep.Pick(30, 300))
	r.Floor("burst_sessions_huge-lock", vrep.Pick(3, 20))
	r.Floor("burst_sessions_unlock_channel_full", vrep.Pick(20, 200))
	r.Floor("burst_unlocks", vrep.Pick(8000, 80000))

	master := vrep.Rand("c17-stress")
	sessions := vrep.Pick(1200, 12000)
	for sn := 0; sn < sessions; sn++ {
		p := c17sParams{Session: sn, Seed: master.Int63()}
		p.Size = []uint{1, 2, 2, 4}[master.Intn(4)]
		p.PoolN = 2 + master.Intn(5)
		p.G = 2 + master.Intn(11)
		p.Rounds = 4 + master.Intn(28)
		p.PerG = 1 + master.Intn(3)
		p.Realistic = master.Intn(2) == 0
		if master.Intn(2) == 0 {
			p.Base = c17sBigBase
		}
		p.Prefix = string(rune('a'+master.Intn(26))) + string(rune('a'+master.Intn(26)))
		s := &c17sSession{p: p, r: r}
		recs, ok := s.run()
		if !ok {
			break
		}
		s.check(recs)
		r.Count("sessions", 1)
		r.Count("requests", len(recs))
		if sn < 2 && len(recs) > 6 {
			var sm []string
			for _, x := range recs[:6] {
				sm = append(sm, x.String())
			}
			r.Sample(map[string]any{"params": p, "first_requests": sm})
		}
		if r.NViolations() > 20 {
			break
		}
	}
	r.Floor("requests", 20000)
	r.Floor("stale_returns", 500)
	r.Floor("contended_requests", 2000)
	r.Floor("rolled_back_holders", 500)
}
