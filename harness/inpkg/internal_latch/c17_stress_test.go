//go:build verif

package latch

// C17 (black-box core) — seeded concurrent stress through the exported API
// only: NewScheduler / Lock / UnLock / Close, Lock.IsStale / SetCommitTS, used
// the way KVTxn.Commit uses them (Lock; if stale: UnLock; else work, on success
// SetCommitTS, UnLock).  Many goroutines, few keys, tiny latch tables, random
// commit timestamps, rolled-back transactions; run under -race.
//
// Monitors
//   online : per key a counter of current non-stale holders (must be 1 after a
//            non-stale Lock returns, until its UnLock is called);
//   history: every request is recorded with logical stamps from one atomic
//            sequencer (call < return < unlock-call).  Per key, the observed
//            hold intervals [return, unlock-call] of non-stale holders must
//            not overlap (exclusivity); since the real hold interval contains
//            the observed one, their order is the real order of holding, so a
//            non-stale holder T of key k must have start ts >= the commit ts
//            of every earlier non-stale holder of k (else it had to be
//            reported stale), and a stale T needs some non-stale holder H of
//            one of its keys with H.commit > T.start whose UnLock was called
//            before T's Lock returned (else the flag is spurious);
//   progress: every round (a batch of goroutines) must end.  A generous
//            wall-clock watchdog only triggers the analysis: if nobody is
//            between Lock-return and UnLock, nothing completes any more and
//            goroutines sit in Lock, that is a lost wake-up / deadlock;
//            otherwise the case is inconclusive.

import (
	"fmt"
	"math/rand"
	"runtime"
	"sort"
	"sync"
	"sync/atomic"
	"testing"
	"time"

	"github.com/tikv/client-go/v2/verifh/vrep"
)

const c17sBigBase = uint64(430000000000) << 18

type c17sRec struct {
	G, Round, N int
	Keys        []int
	Start       uint64
	Commit      uint64 // 0: rolled back or stale
	Stale       bool
	Call        int64
	Ret         int64
	Unl         int64
}

func (x *c17sRec) String() string {
	return fmt.Sprintf("{g%d r%d #%d keys=%v start=%d commit=%d stale=%v call@%d ret@%d unlock@%d}", x.G, x.Round, x.N, x.Keys, x.Start, x.Commit, x.Stale, x.Call, x.Ret, x.Unl)
}

type c17sParams struct {
	Session   int    `json:"session"`
	Seed      int64  `json:"seed"`
	Size      uint   `json:"table_size"`
	PoolN     int    `json:"pool_keys"`
	G         int    `json:"goroutines"`
	Rounds    int    `json:"rounds"`
	PerG      int    `json:"txns_per_goroutine_per_round"`
	Realistic bool   `json:"tso_mode"` // true: start/commit from one increasing counter; false: random inside a sliding window
	Base      uint64 `json:"ts_base"`
	Prefix    string `json:"key_prefix"`
}

type c17sSession struct {
	p       c17sParams
	sched   *LatchesScheduler
	pool    [][]byte
	seq     atomic.Int64
	tso     atomic.Uint64
	holders []atomic.Int32
	inLock  atomic.Int64
	holding atomic.Int64
	done    atomic.Int64
	r       *vrep.Report
}

func c17sYield(rng *rand.Rand) {
	switch rng.Intn(16) {
	case 0, 1, 2, 3:
		runtime.Gosched()
	case 4, 5:
		for i := 0; i < 3; i++ {
			runtime.Gosched()
		}
	case 6:
		time.Sleep(time.Duration(rng.Intn(30)) * time.Microsecond)
	}
}

func (s *c17sSession) worker(g, round int, rng *rand.Rand, out *[]*c17sRec) {
	for n := 0; n < s.p.PerG; n++ {
		nk := 1 + rng.Intn(3)
		if nk > s.p.PoolN {
			nk = s.p.PoolN
		}
		perm := rng.Perm(s.p.PoolN)[:nk]
		rec := &c17sRec{G: g, Round: round, N: n, Keys: append([]int(nil), perm...)}
		sort.Ints(rec.Keys)
		if s.p.Realistic {
			rec.Start = s.tso.Add(1)
		} else {
			rec.Start = s.p.Base + 1 + uint64(round*8) + uint64(rng.Intn(8))
		}
		if rng.Intn(3) == 0 {
			c17sYield(rng) // gap between taking the start ts and asking for the latches
		}
		ks := make([][]byte, nk)
		for i, k := range perm {
			ks[i] = append([]byte(nil), s.pool[k]...)
		}
		rec.Call = s.seq.Add(1)
		s.inLock.Add(1)
		var lock *Lock
		func() {
			defer func() {
				if p := recover(); p != nil {
					s.r.Violate("bb:panic-in-Lock", fmt.Sprintf("LatchesScheduler.Lock panicked: %v (request %v)", p, rec), map[string]any{"params": s.p})
				}
			}()
			lock = s.sched.Lock(rec.Start, ks)
		}()
		if lock == nil {
			s.inLock.Add(-1)
			return
		}
		s.holding.Add(1)
		s.inLock.Add(-1)
		rec.Stale = lock.IsStale()
		rec.Ret = s.seq.Add(1)
		if !rec.Stale {
			for _, k := range rec.Keys {
				if c := s.holders[k].Add(1); c != 1 {
					s.r.Violate("bb:exclusivity-online", fmt.Sprintf("after a non-stale Lock returned, key #%d has %d non-stale holders that have not called UnLock (request %v)", k, c, rec),
						map[string]any{"params": s.p})
				}
			}
			runtime.Gosched() // the commit
			c17sYield(rng)
			if rng.Intn(5) != 0 {
				if s.p.Realistic {
					rec.Commit = s.tso.Add(1)
				} else {
					rec.Commit = rec.Start + 1 + uint64(rng.Intn(4))
				}
				lock.SetCommitTS(rec.Commit)
			}
			for _, k := range rec.Keys {
				s.holders[k].Add(-1)
			}
		}
		rec.Unl = s.seq.Add(1)
		s.sched.UnLock(lock)
		s.holding.Add(-1)
		s.done.Add(1)
		*out = append(*out, rec)
	}
}

// run returns false when the session could not be completed (stuck)
func (s *c17sSession) run() (recs []*c17sRec, ok bool) {
	s.sched = NewScheduler(s.p.Size)
	defer s.sched.Close()
	s.pool = make([][]byte, s.p.PoolN)
	for i := range s.pool {
		s.pool[i] = []byte(fmt.Sprintf("%s%d", s.p.Prefix, i))
	}
	s.holders = make([]atomic.Int32, s.p.PoolN)
	s.tso.Store(s.p.Base)
	perG := make([][]*c17sRec, s.p.G)
	for round := 0; round < s.p.Rounds; round++ {
		var wg sync.WaitGroup
		for g := 0; g < s.p.G; g++ {
			wg.Add(1)
			rng := rand.New(rand.NewSource(s.p.Seed + int64(g)*7919 + int64(round)*104729))
			go func(g int, rng *rand.Rand) {
				defer wg.Done()
				s.worker(g, round, rng, &perG[g])
			}(g, rng)
		}
		fin := make(chan struct{})
		go func() { wg.Wait(); close(fin) }()
		select {
		case <-fin:
		case <-time.After(30 * time.Second):
			// watchdog: decide on the logical state, not on the time
			a := [3]int64{s.inLock.Load(), s.holding.Load(), s.done.Load()}
			stable := true
			for i := 0; i < 4 && stable; i++ {
				time.Sleep(2 * time.Second)
				b := [3]int64{s.inLock.Load(), s.holding.Load(), s.done.Load()}
				stable = a == b
			}
			select {
			case <-fin:
				continue
			default:
			}
			if stable && a[1] == 0 && a[0] > 0 {
				s.r.Violate("bb:lock-never-returns", fmt.Sprintf("%d goroutines sit in LatchesScheduler.Lock, nobody is between Lock and UnLock (every holder has unlocked), and nothing completes any more: lost wake-up / deadlock (round %d)", a[0], round),
					map[string]any{"params": s.p})
			} else {
				s.r.Inconc("c17-stress session %d round %d: watchdog fired (inLock=%d holding=%d done=%d stable=%v)", s.p.Session, round, a[0], a[1], a[2], stable)
			}
			return nil, false
		}
	}
	for _, l := range perG {
		recs = append(recs, l...)
	}
	return recs, true
}

func (s *c17sSession) check(recs []*c17sRec) {
	r := s.r
	perKey := make([][]*c17sRec, s.p.PoolN)
	for _, x := range recs {
		if x.Stale {
			continue
		}
		for _, k := range x.Keys {
			perKey[k] = append(perKey[k], x)
		}
	}
	contended := map[*c17sRec]bool{}
	for k, l := range perKey {
		sort.Slice(l, func(i, j int) bool { return l[i].Ret < l[j].Ret })
		var maxC uint64
		var maxBy *c17sRec
		for i, x := range l {
			if i > 0 {
				prev := l[i-1]
				if prev.Unl > x.Ret {
					r.Violate("bb:exclusivity", fmt.Sprintf("key #%d: hold intervals of two non-stale holders overlap: %v and %v", k, prev, x),
						map[string]any{"params": s.p, "a": prev.String(), "b": x.String()})
				}
				if prev.Unl > x.Call {
					contended[x] = true
				}
			}
			if maxC > x.Start {
				r.Violate("bb:stale-missed", fmt.Sprintf("key #%d: %v returned non-stale although the earlier holder %v released the key with commit ts %d > start ts %d", k, x, maxBy, maxC, x.Start),
					map[string]any{"params": s.p, "earlier": maxBy.String(), "later": x.String()})
			}
			if x.Commit > maxC {
				maxC, maxBy = x.Commit, x
			}
		}
	}
	for _, x := range recs {
		r.Eval(1)
		if !x.Stale {
			if x.Commit == 0 {
				r.Count("rolled_back_holders", 1)
			}
			if contended[x] {
				r.Count("contended_requests", 1)
				r.Distinct(fmt.Sprintf("c|%d|%d|%d|%d", s.p.Session, x.Round, x.G, x.N))
			}
			continue
		}
		r.Count("stale_returns", 1)
		r.Distinct(fmt.Sprintf("s|%d|%d|%d|%d", s.p.Session, x.Round, x.G, x.N))
		justified := false
		for _, k := range x.Keys {
			for _, h := range perKey[k] {
				if h.Commit > x.Start && h.Unl < x.Ret {
					justified = true
				}
			}
		}
		if !justified {
			r.Violate("bb:stale-spurious", fmt.Sprintf("%v was reported stale but no non-stale holder of one of its keys with commit ts > %d had called UnLock before that Lock returned", x, x.Start),
				map[string]any{"params": s.p, "request": x.String()})
		}
	}
}

func TestVerifC17Stress(t *testing.T) {
	r := vrep.New("C17", "c17-stress",
		"black-box concurrent stress of LatchesScheduler (Lock/UnLock/SetCommitTS/IsStale as KVTxn.Commit uses them) under -race: sessions of 2..12 goroutines x rounds x 1..3 requests, 1..3 distinct keys out of 2..6 on tables of 1/2/4 slots, start/commit ts from a TSO counter or random in a sliding window (ties possible), 1 in 5 holders rolled back, ts base 0 or a realistic TSO; "+
			"oracles: online holder counter per key, history check per key (no overlap of [Lock return, UnLock call] of non-stale holders; non-stale later holder => start >= commit of every earlier holder; stale => justified by an unlocked holder with commit > start), every round terminates (watchdog -> logical-state analysis); "+
			"evaluations = Lock returns judged; distinct = stale requests + requests that had to wait for a holder of a shared key, each counted once")
	defer r.Finish(t)
	master := vrep.Rand("c17-stress")
	sessions := vrep.Pick(1200, 12000)
	for sn := 0; sn < sessions; sn++ {
		p := c17sParams{Session: sn, Seed: master.Int63()}
		p.Size = []uint{1, 2, 2, 4}[master.Intn(4)]
		p.PoolN = 2 + master.Intn(5)
		p.G = 2 + master.Intn(11)
		p.Rounds = 4 + master.Intn(28)
		p.PerG = 1 + master.Intn(3)
		p.Realistic = master.Intn(2) == 0
		if master.Intn(2) == 0 {
			p.Base = c17sBigBase
		}
		p.Prefix = string(rune('a'+master.Intn(26))) + string(rune('a'+master.Intn(26)))
		s := &c17sSession{p: p, r: r}
		recs, ok := s.run()
		if !ok {
			break
		}
		s.check(recs)
		r.Count("sessions", 1)
		r.Count("requests", len(recs))
		if sn < 2 && len(recs) > 6 {
			var sm []string
			for _, x := range recs[:6] {
				sm = append(sm, x.String())
			}
			r.Sample(map[string]any{"params": p, "first_requests": sm})
		}
		if r.NViolations() > 20 {
			break
		}
	}
	r.Floor("requests", 20000)
	r.Floor("stale_returns", 500)
	r.Floor("contended_requests", 2000)
	r.Floor("rolled_back_holders", 500)
}
