//go:build verif

package latch

// C17 (white-box extension) — the local latch scheduler is exclusive,
// deadlock-free and flags exactly stale work.
//
// Runtime monitor over the real Latches data structure.  A deterministic
// single-goroutine driver plays the caller goroutines (genLock + acquire, then
// SetCommitTS + UnLock) and the scheduler goroutine (FIFO unlock queue:
// release, then re-acquire of every lock in the wake-up list, exactly the loop
// of LatchesScheduler.run/wakeup) and enumerates the interleavings of those
// steps.  Granularity "method": acquire / release / wake-up re-acquire are
// atomic (exhaustive DFS).  Granularity "slot": every acquireSlot /
// releaseSlot call is a step (the real granularity of the per-slot mutex);
// explored by seeded random walks.
//
// The oracle is a specification-level state kept by the driver (who holds
// which key, which commit ts was released on which key); it never looks at
// the latch's queue / waiting / maxCommitTS fields:
//   (a) exclusivity  - when a Lock returns non-stale no other transaction is
//       between its own non-stale return and its UnLock call on a shared key;
//   (b) progress     - a state where somebody has not returned and no step is
//       enabled is a deadlock / lost wake-up; after everybody unlocked, probe
//       requests over every key must return at once;
//   (c) staleness    - a returning Lock is stale  <=>  some key it asked for
//       was released before by a non-stale holder whose commit ts is greater
//       than the requester's start ts (per *key*; keys colliding on a slot and
//       committed filler keys in the same slot must not matter).
// Timestamps stay inside the recycle window (all within one TSO millisecond)
// so the latch's own garbage collection may run but must not forget.

import (
	"encoding/binary"
	"encoding/json"
	"fmt"
	"hash/fnv"
	"math/rand"
	"os"
	"runtime"
	"sort"
	"strings"
	"sync"
	"sync/atomic"
	"testing"

	"github.com/tikv/client-go/v2/verifh/vrep"
)

const (
	c17PoolN    = 4                          // keys in the scenario pool
	c17BigBase  = uint64(430000000000) << 18 // a realistic TSO (physical ms << 18)
	c17FillerTS = 1000                       // commit ts (relative) of the pre-filled keys: above every scenario start ts
)

type c17Txn struct {
	Keys   []int  `json:"keys"`   // indices into the pool, distinct, in the order handed to genLock
	Start  uint64 `json:"start"`  // relative to Base
	Commit uint64 `json:"commit"` // relative to Base; 0 = rolled back (SetCommitTS never called)
}

type c17Cfg struct {
	Size     uint     `json:"table_size"`
	Pattern  []int    `json:"slot_of_pool_key"`
	Txns     []c17Txn `json:"txns"`
	Base     uint64   `json:"ts_base"`
	Prefill  bool     `json:"prefill"` // 5 committed filler keys per slot first: recycle runs on every acquireSlot
	SlotMode bool     `json:"slot_granularity"`
}

func (c *c17Cfg) String() string {
	var sb strings.Builder
	fmt.Fprintf(&sb, "size=%d slots=%v base=%d prefill=%v slotmode=%v", c.Size, c.Pattern, c.Base, c.Prefill, c.SlotMode)
	for i, t := range c.Txns {
		fmt.Fprintf(&sb, " T%d{keys=%v start=%d commit=%d}", i, t.Keys, t.Start, t.Commit)
	}
	return sb.String()
}

// ------------------------------------------------------------------ key pools

type c17Pool struct {
	keys    [][]byte // pool keys, ascending
	fillers [][]byte // 5 per slot
}

var (
	c17PoolMu    sync.Mutex
	c17PoolCache = map[string]*c17Pool{}
)

// c17PoolFor finds, by asking the real hash (slotID), ascending keys whose
// slots follow the pattern, plus filler keys for every slot.
func c17PoolFor(size uint, pattern []int) *c17Pool {
	id := fmt.Sprint(size, pattern)
	c17PoolMu.Lock()
	defer c17PoolMu.Unlock()
	if p, ok := c17PoolCache[id]; ok {
		return p
	}
	l := NewLatches(size)
	p := &c17Pool{}
	next := 0
	for _, want := range pattern {
		for {
			k := []byte(fmt.Sprintf("k%04d", next))
			next++
			if l.slotID(k) == want%len(l.slots) {
				p.keys = append(p.keys, k)
				break
			}
		}
	}
	per := make([]int, len(l.slots))
	for n := 0; ; n++ {
		k := []byte(fmt.Sprintf("zfill%04d", n))
		s := l.slotID(k)
		if per[s] < 5 {
			per[s]++
			p.fillers = append(p.fillers, k)
		}
		done := true
		for _, c := range per {
			if c < 5 {
				done = false
			}
		}
		if done {
			break
		}
	}
	c17PoolCache[id] = p
	return p
}

// ------------------------------------------------------------------ execution

const (
	c17NotStarted = iota
	c17Acquiring  // slot mode: in the middle of acquire
	c17Blocked    // acquire returned acquireLocked; waits for the scheduler
	c17Returned   // Lock returned (stale or not), UnLock not yet called
	c17Unlocked   // UnLock called (queued or released)
)

type c17Event struct {
	actor int8 // txn index, or -1 scheduler
	kind  int8 // 'A' acquire step, 'U' unlock, 'R' release step, 'W' wake-up acquire step
	who   int8 // for R/W: the transaction concerned
	res   int8 // acquireResult, or -1
	ret   int8 // 1: this step made Lock return non-stale, 2: stale
}

type c17Exec struct {
	cfg   *c17Cfg
	pool  *c17Pool
	l     *Latches
	n     int
	locks []*Lock
	st    []uint8
	stale []bool
	mask  []uint8 // key set of txn as bit mask over the pool

	queue   []int // unlock channel (FIFO)
	relCur  int   // slot mode: transaction being released
	relTmp  []*Lock
	wake    []*Lock
	wakeIdx int

	holding  []bool           // spec: non-stale return .. UnLock call
	released [c17PoolN]uint64 // spec: max commit ts (absolute) released so far on key, by non-stale holders
	relBy    [c17PoolN]int8

	events   []c17Event
	retOrder []int8
	blockedN int
	staleN   int
	judged   int

	bad    bool
	badSig string
	badMsg string
}

func (e *c17Exec) fail(sig, format string, a ...any) {
	if e.bad {
		return
	}
	e.bad = true
	e.badSig = sig
	e.badMsg = fmt.Sprintf(format, a...)
}

func c17NewExec(cfg *c17Cfg) *c17Exec {
	n := len(cfg.Txns)
	e := &c17Exec{cfg: cfg, pool: c17PoolFor(cfg.Size, cfg.Pattern), n: n, relCur: -1}
	e.l = NewLatches(cfg.Size)
	e.locks = make([]*Lock, n)
	e.st = make([]uint8, n)
	e.stale = make([]bool, n)
	e.mask = make([]uint8, n)
	e.holding = make([]bool, n)
	e.events = make([]c17Event, 0, 8*n+8)
	for i := range e.relBy {
		e.relBy[i] = -1
	}
	for i, t := range cfg.Txns {
		for _, k := range t.Keys {
			e.mask[i] |= 1 << uint(k)
		}
	}
	if cfg.Prefill {
		ks := make([][]byte, len(e.pool.fillers))
		copy(ks, e.pool.fillers)
		f := e.l.genLock(cfg.Base, ks)
		if res := e.l.acquire(f); res != acquireSuccess {
			e.fail("wb:prefill", "filler transaction on an empty table got result %d", res)
			return e
		}
		f.SetCommitTS(cfg.Base + c17FillerTS)
		if w := e.l.release(f, nil); len(w) != 0 {
			e.fail("wb:prefill", "release of the filler transaction woke %d locks", len(w))
		}
	}
	return e
}

func (e *c17Exec) txnOf(l *Lock) int {
	for i, x := range e.locks {
		if x == l {
			return i
		}
	}
	return -1
}

// acqStep performs one acquire step of lock.  Method granularity: the whole
// acquire.  Slot granularity: the loop of (*Latches).acquire unrolled, one
// acquireSlot per step.
func (e *c17Exec) acqStep(lock *Lock) (done bool, res acquireResult) {
	if !e.cfg.SlotMode {
		return true, e.l.acquire(lock)
	}
	if lock.IsStale() {
		return true, acquireStale
	}
	if lock.acquiredCount >= len(lock.requiredSlots) {
		return true, acquireSuccess
	}
	s := e.l.acquireSlot(lock)
	if s != acquireSuccess {
		return true, s
	}
	if lock.acquiredCount >= len(lock.requiredSlots) {
		return true, acquireSuccess
	}
	return false, s
}

// onReturn: Lock of transaction j returns now.  All three oracle clauses that
// speak about the moment of return are evaluated here.
func (e *c17Exec) onReturn(j int) int8 {
	lock := e.locks[j]
	e.st[j] = c17Returned
	e.stale[j] = lock.IsStale()
	e.retOrder = append(e.retOrder, int8(j))
	e.judged++
	t := &e.cfg.Txns[j]
	start := e.cfg.Base + t.Start
	// (c) staleness, per key
	expect := false
	why := -1
	for _, k := range t.Keys {
		if e.released[k] > start {
			expect = true
			why = k
		}
	}
	if e.stale[j] && !expect {
		e.fail("wb:stale-spurious", "T%d (start %d, keys %v) reported stale although no key it asked for was released with a greater commit ts (released max per pool key: %v, base %d)",
			j, t.Start, t.Keys, e.relRel(), e.cfg.Base)
	}
	if !e.stale[j] && expect {
		e.fail("wb:stale-missed", "T%d (start %d, keys %v) returned non-stale although pool key %d was released by T%d with commit ts %d > start",
			j, t.Start, t.Keys, why, e.relBy[why], e.released[why]-e.cfg.Base)
	}
	if e.stale[j] {
		e.staleN++
		return 2
	}
	if lock.isLocked() {
		e.fail("wb:return-while-locked", "T%d returned from acquire with success but isLocked() (LatchesScheduler.Lock would panic)", j)
	}
	// (a) exclusivity
	for i := 0; i < e.n; i++ {
		if i != j && e.holding[i] && e.mask[i]&e.mask[j] != 0 {
			e.fail("wb:exclusivity", "T%d (keys %v) acquired successfully while T%d (keys %v) holds a shared key and has not unlocked",
				j, t.Keys, i, e.cfg.Txns[i].Keys)
		}
	}
	e.holding[j] = true
	return 1
}

func (e *c17Exec) relRel() []uint64 {
	out := make([]uint64, c17PoolN)
	for i, v := range e.released {
		if v >= e.cfg.Base && v != 0 {
			out[i] = v - e.cfg.Base
		}
	}
	return out
}

// enabled actions: 0..n-1 = caller goroutine of Ti, n = scheduler goroutine
func (e *c17Exec) enabled(buf []int8) []int8 {
	buf = buf[:0]
	for i := 0; i < e.n; i++ {
		switch e.st[i] {
		case c17NotStarted, c17Acquiring, c17Returned:
			buf = append(buf, int8(i))
		}
	}
	if e.relCur >= 0 || e.wakeIdx < len(e.wake) || len(e.queue) > 0 {
		buf = append(buf, int8(e.n))
	}
	return buf
}

func (e *c17Exec) finished() bool {
	for i := 0; i < e.n; i++ {
		if e.st[i] != c17Unlocked {
			return false
		}
	}
	return e.relCur < 0 && e.wakeIdx >= len(e.wake) && len(e.queue) == 0
}

func (e *c17Exec) step(a int8) {
	if int(a) < e.n {
		e.stepTxn(int(a))
	} else {
		e.stepSched()
	}
}

func (e *c17Exec) stepTxn(i int) {
	t := &e.cfg.Txns[i]
	switch e.st[i] {
	case c17NotStarted, c17Acquiring:
		if e.st[i] == c17NotStarted {
			ks := make([][]byte, len(t.Keys))
			for x, k := range t.Keys {
				ks[x] = e.pool.keys[k]
			}
			e.locks[i] = e.l.genLock(e.cfg.Base+t.Start, ks)
		}
		done, res := e.acqStep(e.locks[i])
		ev := c17Event{actor: int8(i), kind: 'A', who: int8(i), res: int8(res)}
		switch {
		case !done:
			e.st[i] = c17Acquiring
		case res == acquireLocked:
			e.st[i] = c17Blocked
			e.blockedN++
		default:
			ev.ret = e.onReturn(i)
		}
		e.events = append(e.events, ev)
	case c17Returned:
		if !e.stale[i] && t.Commit != 0 {
			e.locks[i].SetCommitTS(e.cfg.Base + t.Commit)
		}
		e.holding[i] = false
		e.queue = append(e.queue, i)
		e.st[i] = c17Unlocked
		e.events = append(e.events, c17Event{actor: int8(i), kind: 'U', who: int8(i), res: -1})
	}
}

// noteRelease: the spec-level effect of the holder i giving up pool key k.
func (e *c17Exec) noteRelease(i int, k int) {
	if e.stale[i] {
		return // a stale requester never was a holder in the sense of the statement
	}
	c := e.cfg.Txns[i].Commit
	if c == 0 {
		return
	}
	if abs := e.cfg.Base + c; abs > e.released[k] {
		e.released[k] = abs
		e.relBy[k] = int8(i)
	}
}

func (e *c17Exec) poolIndex(key []byte) int {
	for i, k := range e.pool.keys {
		if string(k) == string(key) {
			return i
		}
	}
	return -1
}

func (e *c17Exec) stepSched() {
	switch {
	case e.relCur >= 0: // slot mode: one releaseSlot
		i := e.relCur
		lock := e.locks[i]
		if lock.acquiredCount > 0 {
			k := e.poolIndex(lock.keys[lock.acquiredCount-1])
			if next := e.l.releaseSlot(lock); next != nil {
				e.relTmp = append(e.relTmp, next)
			}
			if k >= 0 {
				e.noteRelease(i, k)
			}
			e.events = append(e.events, c17Event{actor: -1, kind: 'R', who: int8(i), res: int8(k)})
		}
		if lock.acquiredCount <= 0 {
			e.relCur = -1
			e.wake = append(e.wake[:0], e.relTmp...)
			e.wakeIdx = 0
		}
	case e.wakeIdx < len(e.wake): // wake-up: re-acquire (scheduler.wakeup)
		lock := e.wake[e.wakeIdx]
		j := e.txnOf(lock)
		done, res := e.acqStep(lock)
		ev := c17Event{actor: -1, kind: 'W', who: int8(j), res: int8(res)}
		if done {
			e.wakeIdx++
			if j < 0 {
				e.fail("wb:wake-unknown", "release handed back a lock that belongs to no transaction of the scenario")
			} else if e.st[j] != c17Blocked {
				e.fail("wb:wake-not-waiting", "release woke T%d which is not blocked in Lock (state %d): LatchesScheduler.wakeup would call wg.Done on it", j, e.st[j])
			} else if res != acquireLocked {
				ev.ret = e.onReturn(j)
			}
		}
		e.events = append(e.events, ev)
	case len(e.queue) > 0:
		i := e.queue[0]
		e.queue = e.queue[1:]
		lock := e.locks[i]
		if e.cfg.SlotMode {
			e.relCur = i
			e.relTmp = e.relTmp[:0]
			e.stepSched() // popping the channel is not a step of its own
			return
		}
		e.wake = e.l.release(lock, e.wake)
		e.wakeIdx = 0
		for _, k := range e.cfg.Txns[i].Keys {
			e.noteRelease(i, k)
		}
		e.events = append(e.events, c17Event{actor: -1, kind: 'R', who: int8(i), res: -1})
	}
}

// probes: after everybody unlocked nobody holds anything; fresh requesters must
// return at once and see exactly the released commit timestamps, per key.
func (e *c17Exec) probes() {
	probe := func(keys []int, start uint64, wantStale bool, what string) {
		ks := make([][]byte, len(keys))
		for x, k := range keys {
			ks[x] = e.pool.keys[k]
		}
		p := e.l.genLock(start, ks)
		res := e.l.acquire(p)
		e.judged++
		if res == acquireLocked {
			e.fail("wb:probe-blocked", "after every transaction unlocked, a new request (%s, keys %v) blocks: a latch was leaked", what, keys)
			return
		}
		if p.IsStale() != wantStale {
			sig := "wb:stale-missed"
			if p.IsStale() {
				sig = "wb:stale-spurious"
			}
			e.fail(sig, "probe after the scenario (%s, keys %v, start %d): stale=%v, but released max commit per pool key is %v",
				what, keys, int64(start)-int64(e.cfg.Base), p.IsStale(), e.relRel())
		}
		if w := e.l.release(p, nil); len(w) != 0 {
			e.fail("wb:probe-woke", "releasing a probe woke %d requesters although every transaction had returned", len(w))
		}
	}
	maxTS := uint64(0)
	for k := 0; k < c17PoolN; k++ {
		if e.bad {
			return
		}
		if r := e.released[k]; r > 0 {
			probe([]int{k}, r-1, true, "start = released commit ts - 1")
			probe([]int{k}, r, false, "start = released commit ts")
			if r > maxTS {
				maxTS = r
			}
		} else {
			probe([]int{k}, e.cfg.Base, false, "key never released with a commit ts")
		}
	}
	if e.bad {
		return
	}
	all := []int{3, 1, 0, 2}
	if maxTS == 0 {
		maxTS = e.cfg.Base
	}
	probe(all, maxTS+1, false, "all keys, start above every commit ts")
}

func (e *c17Exec) describeStuck() string {
	var sb strings.Builder
	for i := 0; i < e.n; i++ {
		fmt.Fprintf(&sb, "T%d:%s ", i, [...]string{"not-started", "acquiring", "BLOCKED", "returned", "unlocked"}[e.st[i]])
	}
	return sb.String()
}

func (e *c17Exec) traceStrings() []string {
	names := map[int8]string{int8(acquireSuccess): "success", int8(acquireLocked): "locked", int8(acquireStale): "stale"}
	var out []string
	for _, ev := range e.events {
		var s string
		switch ev.kind {
		case 'A':
			s = fmt.Sprintf("T%d acquire -> %s", ev.actor, names[ev.res])
		case 'U':
			s = fmt.Sprintf("T%d unlock", ev.actor)
		case 'R':
			if ev.res >= 0 {
				s = fmt.Sprintf("sched releaseSlot T%d key#%d", ev.who, ev.res)
			} else {
				s = fmt.Sprintf("sched release T%d", ev.who)
			}
		case 'W':
			s = fmt.Sprintf("sched wake-up acquire T%d -> %s", ev.who, names[ev.res])
		}
		switch ev.ret {
		case 1:
			s += "  [Lock returns: ok]"
		case 2:
			s += "  [Lock returns: STALE]"
		}
		out = append(out, s)
	}
	return out
}

// outcome fingerprint of an execution: who blocked, who was stale, in which
// order the Locks returned, and the order of the scheduler's releases.
func (e *c17Exec) outcome(h uint64) uint64 {
	const prime = 1099511628211
	mix := func(b byte) { h = (h ^ uint64(b)) * prime }
	for _, ev := range e.events {
		if ev.kind == 'A' || ev.kind == 'W' {
			mix(byte(ev.kind))
			mix(byte(ev.who))
			mix(byte(ev.res))
		}
		if ev.kind == 'R' {
			mix('R')
			mix(byte(ev.who))
		}
	}
	return h
}

// ------------------------------------------------------------------ exploration

type c17Stats struct {
	execs, judged, blocked, stale, nontrivial, truncated, maxDepth int64
	wakeRequeued                                                   int64
	distinct                                                       map[uint64]struct{}
}

type c17Chooser interface {
	// pick returns the index into en to take at this depth
	pick(depth int, n int) int
}

type c17DFS struct {
	stack []struct{ c, n int }
}

func (d *c17DFS) pick(depth, n int) int {
	if depth < len(d.stack) {
		return d.stack[depth].c
	}
	d.stack = append(d.stack, struct{ c, n int }{0, n})
	return 0
}

func (d *c17DFS) next() bool {
	for len(d.stack) > 0 && d.stack[len(d.stack)-1].c+1 >= d.stack[len(d.stack)-1].n {
		d.stack = d.stack[:len(d.stack)-1]
	}
	if len(d.stack) == 0 {
		return false
	}
	d.stack[len(d.stack)-1].c++
	return true
}

// c17Script replays a recorded schedule (list of actors); pick is given the
// enabled list through cur.
type c17Script struct {
	actors []int8
	cur    []int8
}

func (sc *c17Script) pick(depth, n int) int {
	if depth < len(sc.actors) {
		for i, a := range sc.cur {
			if a == sc.actors[depth] {
				return i
			}
		}
	}
	return 0
}

type c17Walk struct{ rng *rand.Rand }

func (w *c17Walk) pick(depth, n int) int { return w.rng.Intn(n) }

// c17RunOne executes one schedule of cfg to the end and judges it.
func c17RunOne(cfg *c17Cfg, ch c17Chooser, schedule *[]int8) (e *c17Exec) {
	defer func() {
		if p := recover(); p != nil {
			if e == nil {
				e = &c17Exec{cfg: cfg}
			}
			e.bad = false
			e.fail("wb:panic", "panic in the latch code: %v", p)
		}
	}()
	e = c17NewExec(cfg)
	var buf [8]int8
	depth := 0
	limit := 40*len(cfg.Txns) + 40
	for !e.bad && !e.finished() {
		en := e.enabled(buf[:0])
		if len(en) == 0 {
			e.judged++
			e.fail("wb:deadlock", "no step is enabled but not every Lock has returned (nobody is left to unlock, nothing in the unlock queue, nobody woken): %s", e.describeStuck())
			return e
		}
		if sc, ok := ch.(*c17Script); ok {
			sc.cur = en
		}
		a := en[ch.pick(depth, len(en))]
		if schedule != nil {
			*schedule = append(*schedule, a)
		}
		e.step(a)
		depth++
		if depth > limit {
			e.fail("wb:no-termination", "more than %d steps for %d transactions", limit, len(cfg.Txns))
			return e
		}
	}
	if !e.bad {
		e.judged++ // terminal state: everybody returned and unlocked
		e.probes()
	}
	return e
}

func c17Detail(cfg *c17Cfg, e *c17Exec, schedule []int8) map[string]any {
	pool := c17PoolFor(cfg.Size, cfg.Pattern)
	keys := make([]string, len(pool.keys))
	for i, k := range pool.keys {
		keys[i] = string(k)
	}
	sch := make([]int, len(schedule))
	for i, a := range schedule {
		sch[i] = int(a)
	}
	return map[string]any{"config": cfg, "pool_keys": keys, "schedule": sch, "schedule_legend": "actor per step: i = caller goroutine of Ti, n = scheduler goroutine", "trace": e.traceStrings(), "state": e.describeStuck()}
}

// c17Explore runs cfg: exhaustive DFS (walks==0) or `walks` random schedules.
func c17Explore(r *vrep.Report, cfg *c17Cfg, cfgID uint64, walks int, rng *rand.Rand, capExec int64, st *c17Stats, wantSample bool) (sample map[string]any) {
	dfs := &c17DFS{}
	var ch c17Chooser = dfs
	if walks > 0 {
		ch = &c17Walk{rng}
	}
	var schedule []int8
	var n int64
	for {
		schedule = schedule[:0]
		e := c17RunOne(cfg, ch, &schedule)
		n++
		st.execs++
		st.judged += int64(e.judged)
		if int64(len(schedule)) > st.maxDepth {
			st.maxDepth = int64(len(schedule))
		}
		if e.bad {
			r.Violate(e.badSig, e.badMsg+" :: "+cfg.String(), c17Detail(cfg, e, schedule))
			return // one witness per configuration is enough
		}
		if e.blockedN > 0 || e.staleN > 0 {
			st.nontrivial++
			st.blocked += int64(e.blockedN)
			st.stale += int64(e.staleN)
			st.distinct[e.outcome(cfgID)] = struct{}{}
			if wantSample && sample == nil && e.blockedN > 0 && e.staleN > 0 {
				sample = map[string]any{"config": cfg.String(), "trace": e.traceStrings()}
			}
		}
		if walks > 0 {
			if n >= int64(walks) {
				return
			}
			continue
		}
		if !dfs.next() {
			return
		}
		if n >= capExec {
			st.truncated++
			return
		}
	}
}

// ------------------------------------------------------------------ configuration space

var c17Pools = []struct {
	size    uint
	pattern []int
}{
	{1, []int{0, 0, 0, 0}}, // every key on one slot
	{2, []int{0, 1, 0, 1}},
	{2, []int{0, 0, 1, 1}},
	{2, []int{0, 1, 1, 0}},
	{2, []int{0, 0, 0, 1}},
	{4, []int{0, 1, 2, 2}},
}

// key sets: all non-empty subsets of the pool with at most 3 keys
func c17KeySets() [][]int {
	var out [][]int
	for m := 1; m < 1<<c17PoolN; m++ {
		var ks []int
		for k := 0; k < c17PoolN; k++ {
			if m&(1<<uint(k)) != 0 {
				ks = append(ks, k)
			}
		}
		if len(ks) <= 3 {
			out = append(out, ks)
		}
	}
	return out
}

// c17TSPatterns enumerates start/commit assignments for n transactions over
// ranks 1..2n (ties allowed, commit > own start or absent) and keeps one
// representative per class of  sign(commit_i - start_j), i != j restricted to
// `interact` pairs, plus the rolled-back flags.  ties=false drops classes with
// commit_i == start_j (sampled separately).
func c17TSPatterns(n int, interact func(i, j int) bool, ties bool) [][2][]uint64 {
	maxv := uint64(2 * n)
	seen := map[string]struct{}{}
	var out [][2][]uint64
	s := make([]uint64, n)
	c := make([]uint64, n)
	var rec func(pos int)
	rec = func(pos int) {
		if pos == 2*n {
			sig := make([]byte, 0, n*n+n)
			for i := 0; i < n; i++ {
				if c[i] == 0 {
					sig = append(sig, 'r')
				} else {
					sig = append(sig, 'c')
				}
				for j := 0; j < n; j++ {
					if i == j || !interact(i, j) || c[i] == 0 {
						sig = append(sig, '.')
						continue
					}
					switch {
					case c[i] > s[j]:
						sig = append(sig, '>')
					case c[i] == s[j]:
						if !ties {
							return
						}
						sig = append(sig, '=')
					default:
						sig = append(sig, '<')
					}
				}
			}
			if _, ok := seen[string(sig)]; ok {
				return
			}
			seen[string(sig)] = struct{}{}
			out = append(out, [2][]uint64{append([]uint64(nil), s...), append([]uint64(nil), c...)})
			return
		}
		if pos < n {
			for v := uint64(1); v < maxv; v++ {
				s[pos] = v
				rec(pos + 1)
			}
			return
		}
		i := pos - n
		c[i] = 0
		rec(pos + 1)
		for v := s[i] + 1; v <= maxv; v++ {
			c[i] = v
			rec(pos + 1)
		}
	}
	rec(0)
	return out
}

func c17Interact(sets [][]int) func(i, j int) bool {
	masks := make([]int, len(sets))
	for i, ks := range sets {
		for _, k := range ks {
			masks[i] |= 1 << uint(k)
		}
	}
	return func(i, j int) bool { return masks[i]&masks[j] != 0 }
}

// order in which the keys are handed to genLock: ascending for even
// transactions, descending for odd ones (the latch must sort by itself)
func c17Order(i int, ks []int) []int {
	out := append([]int(nil), ks...)
	if i%2 == 1 {
		sort.Sort(sort.Reverse(sort.IntSlice(out)))
	}
	return out
}

// c17AllConfigs: every multiset of n key sets x every timestamp class of the
// interacting pairs x every pool.  Base/prefill alternate deterministically.
func c17AllConfigs(n int, ties bool) []*c17Cfg {
	sets := c17KeySets()
	var out []*c17Cfg
	idx := make([]int, n)
	patCache := map[string][][2][]uint64{}
	var rec func(pos, from int)
	rec = func(pos, from int) {
		if pos == n {
			chosen := make([][]int, n)
			for i := range idx {
				chosen[i] = sets[idx[i]]
			}
			inter := c17Interact(chosen)
			// cache by interaction matrix
			key := make([]byte, 0, n*n)
			for i := 0; i < n; i++ {
				for j := 0; j < n; j++ {
					if i != j && inter(i, j) {
						key = append(key, '1')
					} else {
						key = append(key, '0')
					}
				}
			}
			pats, ok := patCache[string(key)]
			if !ok {
				pats = c17TSPatterns(n, inter, ties)
				patCache[string(key)] = pats
			}
			for _, p := range pats {
				for pi, pool := range c17Pools {
					cfg := &c17Cfg{Size: pool.size, Pattern: pool.pattern}
					for i := 0; i < n; i++ {
						cfg.Txns = append(cfg.Txns, c17Txn{Keys: c17Order(i, chosen[i]), Start: p[0][i], Commit: p[1][i]})
					}
					v := len(out) + pi
					if v%2 == 1 {
						cfg.Base = c17BigBase
					}
					cfg.Prefill = v%3 == 2
					out = append(out, cfg)
				}
			}
			return
		}
		for k := from; k < len(sets); k++ {
			idx[pos] = k
			rec(pos+1, k)
		}
	}
	rec(0, 0)
	return out
}

func c17RandomConfig(rng *rand.Rand, n int, slotMode bool) *c17Cfg {
	sets := c17KeySets()
	pool := c17Pools[rng.Intn(len(c17Pools))]
	cfg := &c17Cfg{Size: pool.size, Pattern: pool.pattern, SlotMode: slotMode}
	maxv := 2 * n
	for i := 0; i < n; i++ {
		ks := append([]int(nil), sets[rng.Intn(len(sets))]...)
		rng.Shuffle(len(ks), func(a, b int) { ks[a], ks[b] = ks[b], ks[a] })
		s := uint64(1 + rng.Intn(maxv-1))
		c := uint64(0)
		if rng.Intn(4) != 0 {
			c = s + 1 + uint64(rng.Intn(maxv-int(s)))
		}
		cfg.Txns = append(cfg.Txns, c17Txn{Keys: ks, Start: s, Commit: c})
	}
	if rng.Intn(2) == 0 {
		cfg.Base = c17BigBase
	}
	cfg.Prefill = rng.Intn(3) == 0
	return cfg
}

func c17CfgID(cfg *c17Cfg) uint64 {
	h := fnv.New64a()
	var b [8]byte
	w := func(v uint64) { binary.LittleEndian.PutUint64(b[:], v); h.Write(b[:]) }
	w(uint64(cfg.Size))
	for _, p := range cfg.Pattern {
		w(uint64(p))
	}
	w(cfg.Base)
	if cfg.Prefill {
		w(1)
	}
	if cfg.SlotMode {
		w(2)
	}
	for _, t := range cfg.Txns {
		w(0xffff)
		for _, k := range t.Keys {
			w(uint64(k))
		}
		w(t.Start)
		w(t.Commit)
	}
	return h.Sum64()
}

// ------------------------------------------------------------------ the unit

type c17Job struct {
	cfg   *c17Cfg
	walks int
	seed  int64
	cap   int64
	idx   int
}

func c17RunJobs(r *vrep.Report, jobs []c17Job, group string) {
	workers := runtime.GOMAXPROCS(0)
	if workers > 32 {
		workers = 32
	}
	var next int64 = -1
	var wg sync.WaitGroup
	var mu sync.Mutex
	total := c17Stats{distinct: map[uint64]struct{}{}}
	samples := map[int]map[string]any{}
	for w := 0; w < workers; w++ {
		wg.Add(1)
		go func() {
			defer wg.Done()
			st := c17Stats{distinct: map[uint64]struct{}{}}
			for {
				i := int(atomic.AddInt64(&next, 1))
				if i >= len(jobs) {
					break
				}
				j := jobs[i]
				var rng *rand.Rand
				if j.walks > 0 {
					rng = rand.New(rand.NewSource(j.seed))
				}
				s := c17Explore(r, j.cfg, c17CfgID(j.cfg), j.walks, rng, j.cap, &st, j.idx < 40)
				if s != nil {
					mu.Lock()
					samples[j.idx] = s
					mu.Unlock()
				}
			}
			mu.Lock()
			total.execs += st.execs
			total.judged += st.judged
			total.blocked += st.blocked
			total.stale += st.stale
			total.nontrivial += st.nontrivial
			total.truncated += st.truncated
			if st.maxDepth > total.maxDepth {
				total.maxDepth = st.maxDepth
			}
			for k := range st.distinct {
				total.distinct[k] = struct{}{}
			}
			mu.Unlock()
		}()
	}
	wg.Wait()
	r.Eval(int(total.judged))
	r.Count(group+"_configs", len(jobs))
	r.Count(group+"_executions", int(total.execs))
	r.Count(group+"_executions_with_blocking_or_stale", int(total.nontrivial))
	r.Count(group+"_configs_truncated_at_cap", int(total.truncated))
	r.Count("blocked_lock_requests", int(total.blocked))
	r.Count("stale_lock_requests", int(total.stale))
	r.Count("executions", int(total.execs))
	for k := range total.distinct {
		r.Distinct(fmt.Sprintf("%s|%x", group, k))
	}
	// deterministic samples: the lowest job indices that produced one
	var ids []int
	for i := range samples {
		ids = append(ids, i)
	}
	sort.Ints(ids)
	for n, i := range ids {
		if n >= 2 {
			break
		}
		samples[i]["group"] = group
		r.Sample(samples[i])
	}
}

func c17Sampled(all []*c17Cfg, n int, stream string) ([]*c17Cfg, bool) {
	if n >= len(all) {
		return all, true
	}
	rng := vrep.Rand(stream)
	rng.Shuffle(len(all), func(a, b int) { all[a], all[b] = all[b], all[a] })
	return all[:n], false
}

// c17Replay: VERIF_REPLAY names a witness written by this unit: re-execute its
// schedule, then every interleaving of its configuration.
func c17Replay(r *vrep.Report) bool {
	path := vrep.ReplayPath()
	if path == "" {
		return false
	}
	b, err := os.ReadFile(path)
	if err != nil {
		return false
	}
	var w struct {
		Unit   string `json:"unit"`
		Detail struct {
			Config   *c17Cfg `json:"config"`
			Schedule []int   `json:"schedule"`
		} `json:"detail"`
	}
	if json.Unmarshal(b, &w) != nil || w.Unit != "c17-interleave" || w.Detail.Config == nil {
		return false
	}
	cfg := w.Detail.Config
	sc := &c17Script{}
	for _, a := range w.Detail.Schedule {
		sc.actors = append(sc.actors, int8(a))
	}
	var schedule []int8
	e := c17RunOne(cfg, sc, &schedule)
	r.Eval(e.judged)
	r.Count("replayed_schedules", 1)
	if e.bad {
		r.Violate(e.badSig, e.badMsg+" :: "+cfg.String(), c17Detail(cfg, e, schedule))
		return true
	}
	walks := 0
	if cfg.SlotMode {
		walks = 20000
	}
	c17RunJobs(r, []c17Job{{cfg: cfg, walks: walks, seed: vrep.Seed(), cap: 5000000}}, "replay")
	return true
}

func TestVerifC17Interleavings(t *testing.T) {
	r := vrep.New("C17", "c17-interleave",
		"white-box driver over the real Latches: callers (genLock+acquire, SetCommitTS+UnLock) and the scheduler loop (FIFO release, wake-up re-acquire) as steps of one goroutine; "+
			"pool of 4 keys on tables of 1/2/4 slots (collisions), <=3 distinct keys per transaction given unsorted, ts base 0 and a realistic TSO, optional 5 committed filler keys per slot (recycle active, filler commit ts above every start ts); "+
			"method granularity: ALL interleavings (DFS) of 1-2 transactions x all key-set multisets x all classes of sign(commit_i-start_j) incl. ties and roll-backs, 3 transactions over a seeded sample (quick) / all (thorough) of the same space, 4 transactions seeded sample (thorough; quick: small sample); "+
			"slot granularity (acquireSlot/releaseSlot as steps): seeded random schedules; "+
			"oracle per Lock return: exclusivity, stale <=> a requested key was released earlier by a non-stale holder with commit ts > start ts (per key); per state: no enabled step while a Lock has not returned = deadlock; at the end probes per key at released ts-1 / ts and over all keys; "+
			"evaluations = Lock returns + terminal states + probes judged; distinct = distinct (configuration, outcome) with at least one blocked or stale request, outcome = results of every acquire / wake-up and release order")
	defer r.Finish(t)
	r.Assume("C17 white-box: the driver replays LatchesScheduler.run/wakeup (release, then acquire of each woken lock, Done unless acquireLocked) and, at slot granularity, the loops of acquire/release; the real scheduler goroutine is exercised by c17-stress")
	if c17Replay(r) {
		return
	}
	r.Assume("C17: keys of one transaction are distinct (a duplicate key makes acquire wait for itself; the statement and KVTxn's mutation keys are duplicate-free)")

	// group 1: 1 and 2 transactions, everything
	var jobs []c17Job
	for n := 1; n <= 2; n++ {
		for _, cfg := range c17AllConfigs(n, true) {
			jobs = append(jobs, c17Job{cfg: cfg, cap: 1 << 40, idx: len(jobs)})
		}
	}
	c17RunJobs(r, jobs, "m12")
	exhaustive := true

	// group 2: 3 transactions
	all3 := c17AllConfigs(3, true)
	r.Count("m3_configs_in_space", len(all3))
	pick3, full := c17Sampled(all3, vrep.Pick(30000, 1<<30), "c17-m3")
	exhaustive = exhaustive && full
	jobs = jobs[:0]
	for i, cfg := range pick3 {
		jobs = append(jobs, c17Job{cfg: cfg, cap: 1 << 40, idx: i})
	}
	c17RunJobs(r, jobs, "m3")

	// group 3: 4 transactions, random configurations, DFS with a cap
	rng := vrep.Rand("c17-m4")
	jobs = jobs[:0]
	for i := 0; i < vrep.Pick(60, 3000); i++ {
		jobs = append(jobs, c17Job{cfg: c17RandomConfig(rng, 4, false), cap: int64(vrep.Pick(150000, 1500000)), idx: i})
	}
	c17RunJobs(r, jobs, "m4")

	// group 4: slot granularity, random schedules
	rng = vrep.Rand("c17-slot")
	jobs = jobs[:0]
	for i := 0; i < vrep.Pick(6000, 100000); i++ {
		n := 2 + rng.Intn(3)
		jobs = append(jobs, c17Job{cfg: c17RandomConfig(rng, n, true), walks: vrep.Pick(150, 400), seed: rng.Int63(), idx: i})
	}
	c17RunJobs(r, jobs, "slot")

	r.SetExhaustive(false) // only parts of the space are complete; see the counters
	if exhaustive {
		r.Count("m3_space_complete", 1)
	}
	r.Floor("executions", 100000)
	r.Floor("blocked_lock_requests", 10000)
	r.Floor("stale_lock_requests", 10000)
	r.Floor("slot_executions_with_blocking_or_stale", 1000)
}
