//go:build verif

package mocktikv

// C12 — commands, and the two drivers that execute them against the real
// mock store: (i) MVCCStore methods, (ii) tikvrpc requests through
// RPCClient.SendRequest / kvHandler with a one-region cluster.

import (
	"context"
	"fmt"
	"sort"
	"strings"
	"time"

	"github.com/pingcap/kvproto/pkg/kvrpcpb"
	"github.com/pkg/errors"
	"github.com/tikv/client-go/v2/internal/mockstore/deadlock"
	"github.com/tikv/client-go/v2/tikvrpc"
)

type opKind int

const (
	opPrewrite opKind = iota
	opPLock
	opPRollback
	opCommit
	opRollback
	opCleanup
	opCheckTxn
	opHeartbeat
	opResolve
	opBatchResolve
	opScanLock
	opGC
	opGet
	opBatchGet
	opScan
)

var opNames = [...]string{"Prewrite", "PessimisticLock", "PessimisticRollback", "Commit", "BatchRollback", "Cleanup", "CheckTxnStatus",
	"TxnHeartBeat", "ResolveLock", "ResolveLock(batch)", "ScanLock", "GC", "Get", "BatchGet", "Scan"}

type cmd struct {
	op   opKind
	txn  int // index into world.txns (-1: none)
	keys []string
	// prewrite
	mops []kvrpcpb.Op
	acts []kvrpcpb.PrewriteRequest_PessimisticAction
	vals []string
	fts  uint64 // for_update_ts (prewrite of a pessimistic txn, pessimistic lock / rollback)
	minc uint64
	ttl  uint64 // lock ttl / advise ttl
	// pessimistic lock
	retVals, chkExist, onlyIfExists bool
	// commit / resolve
	cts uint64
	// cleanup / check txn status
	cur, caller          uint64
	rbIfNotExist, resPes bool
	// batch resolve: start ts -> commit ts
	infos map[uint64]uint64
	// gc / scan lock / reads
	sp         uint64
	ts         uint64
	start, end string
	limit      int
	rc, rev    bool
	// region-scoped commands (ResolveLock, GC, ScanLock, PessimisticRollback without keys): the index of the
	// region the request is sent to (RPC levels; the runner fills rstart/rend with its raw range)
	region       int
	rstart, rend string
	// filled by the generator for rendering
	sts     uint64
	primary string
}

// regionScoped: the command acts on a range (a region at the RPC levels), not on listed keys.
func (c *cmd) regionScoped() bool {
	switch c.op {
	case opResolve, opBatchResolve, opGC, opScanLock:
		return true
	case opPRollback:
		return len(c.keys) == 0
	}
	return false
}

// effRange: the raw range a region-scoped command acts on.
func (c *cmd) effRange() (string, string) { return intersect(c.rstart, c.rend, c.start, c.end) }

func (c *cmd) rangeString() string {
	s, e := c.effRange()
	return fmt.Sprintf("range=[%q,%q)", s, e)
}

func (c *cmd) variant() string {
	switch c.op {
	case opPrewrite:
		v := "optimistic"
		if c.fts > 0 {
			v = "pessimistic"
			if len(c.acts) > 0 && c.acts[0] == kvrpcpb.PrewriteRequest_DO_PESSIMISTIC_CHECK {
				v += "/do-check"
			} else {
				v += "/skip-check"
			}
		}
		for _, o := range c.mops {
			if o == kvrpcpb.Op_Insert {
				return v + "/with-Insert"
			}
		}
		return v
	case opResolve:
		if c.cts > 0 {
			return "commit"
		}
		return "rollback"
	case opCheckTxn:
		return fmt.Sprintf("rollbackIfNotExist=%v/resolvingPessimistic=%v", c.rbIfNotExist, c.resPes)
	case opCleanup:
		if c.cur == 0 {
			return "current=0"
		}
		return "current>0"
	case opScan:
		if c.rev {
			return "reverse"
		}
	case opPRollback:
		if len(c.keys) == 0 {
			return "no-keys"
		}
	case opScanLock:
		if c.start != "" || c.end != "" || c.limit > 0 {
			return "start/end/limit"
		}
	}
	return ""
}

func (c *cmd) String() string {
	var b strings.Builder
	b.WriteString(opNames[c.op])
	b.WriteByte('(')
	if c.txn >= 0 {
		fmt.Fprintf(&b, "T%d@%d ", c.txn+1, c.sts)
	}
	switch c.op {
	case opPrewrite:
		for i, k := range c.keys {
			act := ""
			if len(c.acts) > 0 {
				act = "/" + c.acts[i].String()
			}
			fmt.Fprintf(&b, "%s:%s%s ", k, c.mops[i], act)
		}
		fmt.Fprintf(&b, "primary=%s ttl=%d forUpdateTS=%d minCommitTS=%d", c.primary, c.ttl, c.fts, c.minc)
	case opPLock:
		fmt.Fprintf(&b, "%v primary=%s forUpdateTS=%d ttl=%d minCommitTS=%d returnValues=%v checkExistence=%v lockOnlyIfExists=%v", c.keys, c.primary, c.fts, c.ttl, c.minc, c.retVals, c.chkExist, c.onlyIfExists)
	case opPRollback:
		if len(c.keys) == 0 {
			fmt.Fprintf(&b, "no keys, %s forUpdateTS=%d", c.rangeString(), c.fts)
		} else {
			fmt.Fprintf(&b, "%v forUpdateTS=%d", c.keys, c.fts)
		}
	case opCommit:
		fmt.Fprintf(&b, "%v commitTS=%d", c.keys, c.cts)
	case opRollback:
		fmt.Fprintf(&b, "%v", c.keys)
	case opCleanup:
		fmt.Fprintf(&b, "%s currentTS=%d", c.keys[0], c.cur)
	case opCheckTxn:
		fmt.Fprintf(&b, "primary=%s callerStartTS=%d currentTS=%d rollbackIfNotExist=%v resolvingPessimisticLock=%v", c.keys[0], c.caller, c.cur, c.rbIfNotExist, c.resPes)
	case opHeartbeat:
		fmt.Fprintf(&b, "primary=%s adviseTTL=%d", c.keys[0], c.ttl)
	case opResolve:
		fmt.Fprintf(&b, "commitTS=%d %s", c.cts, c.rangeString())
	case opBatchResolve:
		var ks []uint64
		for k := range c.infos {
			ks = append(ks, k)
		}
		sort.Slice(ks, func(i, j int) bool { return ks[i] < ks[j] })
		for _, k := range ks {
			fmt.Fprintf(&b, "%d->%d ", k, c.infos[k])
		}
		b.WriteString(c.rangeString())
	case opScanLock:
		fmt.Fprintf(&b, "maxTS=%d start=%q end=%q limit=%d region range=[%q,%q)", c.ts, c.start, c.end, c.limit, c.rstart, c.rend)
	case opGC:
		fmt.Fprintf(&b, "safePoint=%d %s", c.sp, c.rangeString())
	case opGet:
		fmt.Fprintf(&b, "%s ts=%d rc=%v", c.keys[0], c.ts, c.rc)
	case opBatchGet:
		fmt.Fprintf(&b, "%v ts=%d rc=%v", c.keys, c.ts, c.rc)
	case opScan:
		fmt.Fprintf(&b, "[%q,%q) limit=%d ts=%d rc=%v reverse=%v", c.start, c.end, c.limit, c.ts, c.rc, c.rev)
	}
	b.WriteByte(')')
	return b.String()
}

// result is the normalised answer of the store.
type result struct {
	errs         []cls    // prewrite(store level): per mutation; otherwise the reported errors in order
	lockTS       []uint64 // per entry of errs: start ts of the reported lock
	perMutation  bool
	commitTS     uint64 // check-txn-status / cleanup(already committed)
	ttl          uint64
	action       kvrpcpb.Action
	vals         []string // pessimistic lock
	notFound     []bool
	hasVals      bool
	hasNotFounds bool
	pairs        []rpair
	locks        []lockInfo
	lockDetails  bool // locks carry type / ttl / for_update_ts / min_commit_ts / txn_size
}

func (r *result) firstErr() (cls, uint64) {
	for i, c := range r.errs {
		if c != cNil {
			return c, r.lockTS[i]
		}
	}
	return cNil, 0
}

func classifyErr(err error) (cls, uint64, uint64) {
	if err == nil {
		return cNil, 0, 0
	}
	switch e := errors.Cause(err).(type) {
	case *ErrLocked:
		return cLocked, e.StartTS, 0
	case *ErrDeadlock:
		return cLocked, e.LockTS, 0
	case *ErrConflict:
		return cConflict, 0, 0
	case ErrAlreadyCommitted:
		return cCommitted, 0, uint64(e)
	case *ErrAlreadyRollbacked:
		return cRolledBack, 0, 0
	case *ErrKeyAlreadyExist:
		return cExists, 0, 0
	case *ErrTxnNotFound:
		return cTxnNotFound, 0, 0
	case ErrRetryable:
		return cLockNotFound, 0, 0
	case *ErrCommitTSExpired:
		return cExpired, 0, 0
	case ErrAbort:
		return cAbort, 0, 0
	}
	return cOther, 0, 0
}

func classifyKeyErr(e *kvrpcpb.KeyError) (cls, uint64) {
	switch {
	case e == nil:
		return cNil, 0
	case e.Locked != nil:
		return cLocked, e.Locked.LockVersion
	case e.Deadlock != nil:
		return cLocked, e.Deadlock.LockTs
	case e.Conflict != nil:
		return cConflict, 0
	case e.AlreadyExist != nil:
		return cExists, 0
	case e.TxnNotFound != nil:
		return cTxnNotFound, 0
	case e.CommitTsExpired != nil:
		return cExpired, 0
	case e.Retryable != "":
		return cLockNotFound, 0
	case e.Abort != "":
		return cAbort, 0
	}
	return cOther, 0
}

// foldRPC: the wire format has one "abort" slot for everything else.
func foldRPC(c cls) cls {
	switch c {
	case cCommitted, cRolledBack, cOther:
		return cAbort
	}
	return c
}

func (r *result) addErr(err error) {
	c, l, cts := classifyErr(err)
	r.errs = append(r.errs, c)
	r.lockTS = append(r.lockTS, l)
	if c == cCommitted {
		r.commitTS = cts
	}
}

func (r *result) addKeyErr(e *kvrpcpb.KeyError) {
	c, l := classifyKeyErr(e)
	r.errs = append(r.errs, c)
	r.lockTS = append(r.lockTS, l)
}

func bkeys(ks []string) [][]byte {
	out := make([][]byte, len(ks))
	for i, k := range ks {
		out[i] = []byte(k)
	}
	return out
}

func (c *cmd) prewriteReq() *kvrpcpb.PrewriteRequest {
	req := &kvrpcpb.PrewriteRequest{PrimaryLock: []byte(c.primary), StartVersion: c.sts, LockTtl: c.ttl, ForUpdateTs: c.fts,
		MinCommitTs: c.minc, TxnSize: uint64(len(c.keys)), Context: &kvrpcpb.Context{}}
	for i, k := range c.keys {
		m := &kvrpcpb.Mutation{Op: c.mops[i], Key: []byte(k)}
		if c.mops[i] == kvrpcpb.Op_Put || c.mops[i] == kvrpcpb.Op_Insert {
			m.Value = []byte(c.vals[i])
		}
		req.Mutations = append(req.Mutations, m)
	}
	if len(c.acts) > 0 {
		req.PessimisticActions = append(req.PessimisticActions, c.acts...)
	}
	return req
}

func (c *cmd) plockReq() *kvrpcpb.PessimisticLockRequest {
	req := &kvrpcpb.PessimisticLockRequest{PrimaryLock: []byte(c.primary), StartVersion: c.sts, LockTtl: c.ttl, ForUpdateTs: c.fts,
		MinCommitTs: c.minc, WaitTimeout: LockNoWait, ReturnValues: c.retVals, CheckExistence: c.chkExist, LockOnlyIfExists: c.onlyIfExists,
		Context: &kvrpcpb.Context{}}
	for _, k := range c.keys {
		req.Mutations = append(req.Mutations, &kvrpcpb.Mutation{Op: kvrpcpb.Op_PessimisticLock, Key: []byte(k)})
	}
	return req
}

func (r *result) fromPLockResp(c *cmd, resp *kvrpcpb.PessimisticLockResponse) {
	for _, e := range resp.Errors {
		r.addKeyErr(e)
	}
	if len(resp.Errors) == 0 {
		if c.retVals {
			r.hasVals, r.hasNotFounds = true, true
			for _, v := range resp.Values {
				r.vals = append(r.vals, string(v))
			}
			r.notFound = append(r.notFound, resp.NotFounds...)
		} else if c.chkExist {
			r.hasNotFounds = true
			r.notFound = append(r.notFound, resp.NotFounds...)
		}
	}
}

func pairsFromStore(ps []Pair) []rpair {
	var out []rpair
	for _, p := range ps {
		if p.Err != nil {
			c, l, _ := classifyErr(p.Err)
			out = append(out, rpair{key: string(p.Key), c: c, lockTS: l})
		} else {
			out = append(out, rpair{key: string(p.Key), val: string(p.Value)})
		}
	}
	return out
}

func pairsFromPB(ps []*kvrpcpb.KvPair) []rpair {
	var out []rpair
	for _, p := range ps {
		if p.Error != nil {
			c, l := classifyKeyErr(p.Error)
			k := string(p.Key)
			if p.Error.Locked != nil {
				k = string(p.Error.Locked.Key)
			}
			out = append(out, rpair{key: k, c: c, lockTS: l})
		} else {
			out = append(out, rpair{key: string(p.Key), val: string(p.Value)})
		}
	}
	return out
}

func dumpFromInfo(key string, info *kvrpcpb.MvccInfo) dKey {
	d := dKey{Key: key}
	if info == nil {
		return d
	}
	if l := info.Lock; l != nil {
		d.Lock = &dLock{Op: l.Type.String(), TS: l.StartTs, Primary: string(l.Primary), Val: string(l.ShortValue)}
	}
	for _, w := range info.Writes {
		t := "?" + w.Type.String()
		switch w.Type {
		case kvrpcpb.Op_Put:
			t = "put"
		case kvrpcpb.Op_Del:
			t = "del"
		case kvrpcpb.Op_Rollback:
			t = "rollback"
		case kvrpcpb.Op_Lock:
			t = "lock"
		}
		d.Writes = append(d.Writes, dWrite{Typ: t, STS: w.StartTs, CTS: w.CommitTs, Val: string(w.ShortValue)})
	}
	return d
}

type driver interface {
	level() string
	// nregions: 0 = no regions (ranges are free), else the number of regions; rrange: raw range of region i;
	// regionOf: index of the region holding key
	nregions() int
	rrange(i int) (string, string)
	regionOf(key string) int
	fold(cls) cls
	exec(c *cmd) result
	dumpKey(key string) dKey
	store() *MVCCLevelDB
	reset()
	close()
}

// rawLock reads the stored lock record (white box) for the fields that only show through later commands.
func rawLock(st *MVCCLevelDB, key string) *mvccLock {
	st.mu.RLock()
	defer st.mu.RUnlock()
	v, err := st.getDB("").Get(mvccEncode([]byte(key), lockVer), nil)
	if err != nil {
		return nil
	}
	var l mvccLock
	if l.UnmarshalBinary(v) != nil {
		return nil
	}
	return &l
}

func resetStore(st *MVCCLevelDB) {
	if err := st.DeleteRange(nil, nil); err != nil {
		panic(err)
	}
	st.deadlockDetector = deadlock.NewDetector()
}

// ---------------------------------------------------------------- store level

type storeDriver struct {
	st     *MVCCLevelDB
	resets int
}

func newStoreDriver() *storeDriver { return &storeDriver{st: MustNewMVCCStore().(*MVCCLevelDB)} }

// resetEvery: DeleteRange leaves tombstones in the memtable; a really fresh store every so many resets keeps it small.
const resetEvery = 24

func (d *storeDriver) level() string               { return "store" }
func (d *storeDriver) nregions() int               { return 0 }
func (d *storeDriver) rrange(int) (string, string) { return "", "" }
func (d *storeDriver) regionOf(string) int         { return 0 }
func (d *storeDriver) fold(c cls) cls              { return c }
func (d *storeDriver) store() *MVCCLevelDB         { return d.st }
func (d *storeDriver) reset() {
	d.resets++
	if d.resets%resetEvery == 0 {
		d.st.Close()
		d.st = MustNewMVCCStore().(*MVCCLevelDB)
		return
	}
	resetStore(d.st)
}
func (d *storeDriver) close() { d.st.Close() }
func (d *storeDriver) dumpKey(key string) dKey {
	return dumpFromInfo(key, d.st.MvccGetByKey([]byte(key)))
}

func iso(rc bool) kvrpcpb.IsolationLevel {
	if rc {
		return kvrpcpb.IsolationLevel_RC
	}
	return kvrpcpb.IsolationLevel_SI
}

func (d *storeDriver) exec(c *cmd) (r result) {
	var st MVCCStore = d.st
	switch c.op {
	case opPrewrite:
		r.perMutation = true
		for _, e := range st.Prewrite(c.prewriteReq()) {
			r.addErr(e)
		}
	case opPLock:
		r.fromPLockResp(c, st.PessimisticLock(c.plockReq()))
	case opPRollback:
		ps, pe := c.effRange()
		var ks [][]byte
		if len(c.keys) > 0 {
			ks = bkeys(c.keys)
		}
		for _, e := range st.PessimisticRollback([]byte(ps), []byte(pe), ks, c.sts, c.fts) {
			r.addErr(e)
		}
	case opCommit:
		r.addErr(st.Commit(bkeys(c.keys), c.sts, c.cts))
	case opRollback:
		r.addErr(st.Rollback(bkeys(c.keys), c.sts))
	case opCleanup:
		r.addErr(st.Cleanup([]byte(c.keys[0]), c.sts, c.cur))
	case opCheckTxn:
		ttl, cts, act, err := st.CheckTxnStatus([]byte(c.keys[0]), c.sts, c.caller, c.cur, c.rbIfNotExist, c.resPes)
		r.addErr(err)
		if err == nil {
			r.ttl, r.commitTS, r.action = ttl, cts, act
		}
	case opHeartbeat:
		ttl, err := st.TxnHeartBeat([]byte(c.keys[0]), c.sts, c.ttl)
		r.addErr(err)
		r.ttl = ttl
	case opResolve:
		rs, re := c.effRange()
		r.addErr(st.ResolveLock([]byte(rs), []byte(re), c.sts, c.cts))
	case opBatchResolve:
		rs, re := c.effRange()
		r.addErr(st.BatchResolveLock([]byte(rs), []byte(re), c.infos))
	case opScanLock:
		locks, err := st.ScanLock([]byte(c.start), []byte(c.end), c.ts)
		r.addErr(err)
		for _, l := range locks {
			r.locks = append(r.locks, lockInfo{key: string(l.Key), ts: l.LockVersion, primary: string(l.PrimaryLock)})
		}
		if c.limit > 0 && len(r.locks) > c.limit {
			r.locks = r.locks[:c.limit] // the MVCCStore method has no limit parameter
		}
	case opGC:
		gs, ge := c.effRange()
		r.addErr(st.GC([]byte(gs), []byte(ge), c.sp))
	case opGet:
		v, err := st.Get([]byte(c.keys[0]), c.ts, iso(c.rc), nil)
		if err != nil {
			cl, l, _ := classifyErr(err)
			r.pairs = []rpair{{key: c.keys[0], c: cl, lockTS: l}}
		} else if v != nil {
			r.pairs = []rpair{{key: c.keys[0], val: string(v)}}
		}
	case opBatchGet:
		r.pairs = pairsFromStore(st.BatchGet(bkeys(c.keys), c.ts, iso(c.rc), nil))
	case opScan:
		if c.rev {
			r.pairs = pairsFromStore(st.ReverseScan([]byte(c.start), []byte(c.end), c.limit, c.ts, iso(c.rc), nil))
		} else {
			r.pairs = pairsFromStore(st.Scan([]byte(c.start), []byte(c.end), c.limit, c.ts, iso(c.rc), nil))
		}
	}
	return r
}

// ---------------------------------------------------------------- RPC level

type rinfo struct {
	ctx        kvrpcpb.Context
	start, end string // raw range
}

// rpcDriver sends tikvrpc requests through RPCClient.SendRequest.  With split keys the cluster has several regions
// whose borders sit ON keys of the key pool (level "rpc-mr"): every request goes to the region of its keys, region
// scoped requests to the region named by the command, scans walk the regions like a client does.
type rpcDriver struct {
	resets  int
	splits  []string
	st      *MVCCLevelDB
	cluster *Cluster
	client  *RPCClient
	addr    string
	regions []rinfo
}

func newRPCDriver(splits ...string) *rpcDriver {
	st := MustNewMVCCStore().(*MVCCLevelDB)
	cluster := NewCluster(st)
	var sk [][]byte
	for _, k := range splits {
		sk = append(sk, []byte(k))
	}
	storeID, regionIDs, _ := BootstrapWithMultiRegions(cluster, sk...)
	d := &rpcDriver{st: st, splits: splits, cluster: cluster, client: NewRPCClient(cluster, st, nil), addr: fmt.Sprintf("store%d", storeID)}
	for _, id := range regionIDs {
		region, leader := cluster.GetRegion(id)
		ri := rinfo{ctx: kvrpcpb.Context{RegionId: id, RegionEpoch: region.RegionEpoch}, start: string(MvccKey(region.StartKey).Raw()), end: string(MvccKey(region.EndKey).Raw())}
		for _, p := range region.Peers {
			if p.Id == leader {
				ri.ctx.Peer = p
			}
		}
		d.regions = append(d.regions, ri)
	}
	sort.Slice(d.regions, func(i, j int) bool { return d.regions[i].start < d.regions[j].start })
	return d
}

func (d *rpcDriver) level() string {
	if len(d.regions) > 1 {
		return "rpc-mr"
	}
	return "rpc"
}
func (d *rpcDriver) fold(c cls) cls      { return foldRPC(c) }
func (d *rpcDriver) store() *MVCCLevelDB { return d.st }
func (d *rpcDriver) close()              { d.st.Close() }
func (d *rpcDriver) nregions() int       { return len(d.regions) }
func (d *rpcDriver) rrange(i int) (string, string) {
	return d.regions[i].start, d.regions[i].end
}
func (d *rpcDriver) regionOf(key string) int {
	for i, r := range d.regions {
		if inRange(key, r.start, r.end) {
			return i
		}
	}
	panic("c12: key in no region: " + key)
}
func (d *rpcDriver) reset() {
	d.resets++
	if d.resets%resetEvery == 0 {
		d.st.Close()
		*d = *newRPCDriver(d.splits...)
		return
	}
	resetStore(d.st)
}

func (d *rpcDriver) send(region int, typ tikvrpc.CmdType, req interface{}, rc bool) interface{} {
	ctx := d.regions[region].ctx
	if rc {
		ctx.IsolationLevel = kvrpcpb.IsolationLevel_RC
	}
	resp, err := d.client.SendRequest(context.Background(), d.addr, tikvrpc.NewRequest(typ, req, ctx), time.Minute)
	if err != nil {
		panic(fmt.Sprintf("c12: SendRequest(%v) transport error: %v", typ, err))
	}
	if re, _ := resp.GetRegionError(); re != nil {
		panic(fmt.Sprintf("c12: SendRequest(%v) region error: %v", typ, re))
	}
	return resp.Resp
}

func (d *rpcDriver) dumpKey(key string) dKey {
	resp := d.send(d.regionOf(key), tikvrpc.CmdMvccGetByKey, &kvrpcpb.MvccGetByKeyRequest{Key: []byte(key)}, false).(*kvrpcpb.MvccGetByKeyResponse)
	return dumpFromInfo(key, resp.Info)
}

// keyRegion: the region of the command's keys (the runner splits commands whose keys span regions).
func (d *rpcDriver) keyRegion(c *cmd) int {
	rg := d.regionOf(c.keys[0])
	for _, k := range c.keys[1:] {
		if d.regionOf(k) != rg {
			panic("c12: command spans regions: " + c.String())
		}
	}
	return rg
}

func (d *rpcDriver) exec(c *cmd) (r result) {
	switch c.op {
	case opPrewrite:
		resp := d.send(d.keyRegion(c), tikvrpc.CmdPrewrite, c.prewriteReq(), false).(*kvrpcpb.PrewriteResponse)
		for _, e := range resp.Errors {
			r.addKeyErr(e)
		}
	case opPLock:
		r.fromPLockResp(c, d.send(d.keyRegion(c), tikvrpc.CmdPessimisticLock, c.plockReq(), false).(*kvrpcpb.PessimisticLockResponse))
	case opPRollback:
		rg := c.region
		req := &kvrpcpb.PessimisticRollbackRequest{StartVersion: c.sts, ForUpdateTs: c.fts}
		if len(c.keys) > 0 {
			rg = d.keyRegion(c)
			req.Keys = bkeys(c.keys)
		}
		resp := d.send(rg, tikvrpc.CmdPessimisticRollback, req, false).(*kvrpcpb.PessimisticRollbackResponse)
		for _, e := range resp.Errors {
			r.addKeyErr(e)
		}
	case opCommit:
		resp := d.send(d.keyRegion(c), tikvrpc.CmdCommit, &kvrpcpb.CommitRequest{StartVersion: c.sts, Keys: bkeys(c.keys), CommitVersion: c.cts}, false).(*kvrpcpb.CommitResponse)
		r.addKeyErr(resp.Error)
	case opRollback:
		resp := d.send(d.keyRegion(c), tikvrpc.CmdBatchRollback, &kvrpcpb.BatchRollbackRequest{StartVersion: c.sts, Keys: bkeys(c.keys)}, false).(*kvrpcpb.BatchRollbackResponse)
		r.addKeyErr(resp.Error)
	case opCleanup:
		resp := d.send(d.keyRegion(c), tikvrpc.CmdCleanup, &kvrpcpb.CleanupRequest{Key: []byte(c.keys[0]), StartVersion: c.sts, CurrentTs: c.cur}, false).(*kvrpcpb.CleanupResponse)
		if resp.Error == nil && resp.CommitVersion != 0 {
			r.errs, r.lockTS, r.commitTS = []cls{cCommitted}, []uint64{0}, resp.CommitVersion
		} else {
			r.addKeyErr(resp.Error)
		}
	case opCheckTxn:
		resp := d.send(d.keyRegion(c), tikvrpc.CmdCheckTxnStatus, &kvrpcpb.CheckTxnStatusRequest{PrimaryKey: []byte(c.keys[0]), LockTs: c.sts, CallerStartTs: c.caller,
			CurrentTs: c.cur, RollbackIfNotExist: c.rbIfNotExist, ResolvingPessimisticLock: c.resPes}, false).(*kvrpcpb.CheckTxnStatusResponse)
		r.addKeyErr(resp.Error)
		if resp.Error == nil {
			r.ttl, r.commitTS, r.action = resp.LockTtl, resp.CommitVersion, resp.Action
		}
	case opHeartbeat:
		resp := d.send(d.keyRegion(c), tikvrpc.CmdTxnHeartBeat, &kvrpcpb.TxnHeartBeatRequest{PrimaryLock: []byte(c.keys[0]), StartVersion: c.sts, AdviseLockTtl: c.ttl}, false).(*kvrpcpb.TxnHeartBeatResponse)
		r.addKeyErr(resp.Error)
		r.ttl = resp.LockTtl
	case opResolve:
		// no keys: the whole region
		resp := d.send(c.region, tikvrpc.CmdResolveLock, &kvrpcpb.ResolveLockRequest{StartVersion: c.sts, CommitVersion: c.cts}, false).(*kvrpcpb.ResolveLockResponse)
		r.addKeyErr(resp.Error)
	case opBatchResolve:
		req := &kvrpcpb.ResolveLockRequest{}
		var ks []uint64
		for k := range c.infos {
			ks = append(ks, k)
		}
		sort.Slice(ks, func(i, j int) bool { return ks[i] < ks[j] })
		for _, k := range ks {
			req.TxnInfos = append(req.TxnInfos, &kvrpcpb.TxnInfo{Txn: k, Status: c.infos[k]})
		}
		resp := d.send(c.region, tikvrpc.CmdResolveLock, req, false).(*kvrpcpb.ResolveLockResponse)
		r.addKeyErr(resp.Error)
	case opScanLock:
		resp := d.send(c.region, tikvrpc.CmdScanLock, &kvrpcpb.ScanLockRequest{MaxVersion: c.ts, StartKey: []byte(c.start), EndKey: []byte(c.end), Limit: uint32(c.limit)}, false).(*kvrpcpb.ScanLockResponse)
		r.addKeyErr(resp.Error)
		r.lockDetails = true
		for _, l := range resp.Locks {
			r.locks = append(r.locks, lockInfo{key: string(l.Key), ts: l.LockVersion, primary: string(l.PrimaryLock), op: l.LockType, ttl: l.LockTtl,
				fts: l.LockForUpdateTs, minc: l.MinCommitTs, txnSize: l.TxnSize})
		}
	case opGC:
		resp := d.send(c.region, tikvrpc.CmdGC, &kvrpcpb.GCRequest{SafePoint: c.sp}, false).(*kvrpcpb.GCResponse)
		r.addKeyErr(resp.Error)
	case opGet:
		resp := d.send(d.keyRegion(c), tikvrpc.CmdGet, &kvrpcpb.GetRequest{Key: []byte(c.keys[0]), Version: c.ts}, c.rc).(*kvrpcpb.GetResponse)
		if resp.Error != nil {
			cl, l := classifyKeyErr(resp.Error)
			r.pairs = []rpair{{key: c.keys[0], c: cl, lockTS: l}}
		} else if resp.Value != nil {
			r.pairs = []rpair{{key: c.keys[0], val: string(resp.Value)}}
		}
	case opBatchGet:
		// one request per run of consecutive keys of the same region (the answer keeps the request order)
		for i := 0; i < len(c.keys); {
			rg := d.regionOf(c.keys[i])
			j := i
			for j < len(c.keys) && d.regionOf(c.keys[j]) == rg {
				j++
			}
			resp := d.send(rg, tikvrpc.CmdBatchGet, &kvrpcpb.BatchGetRequest{Keys: bkeys(c.keys[i:j]), Version: c.ts}, c.rc).(*kvrpcpb.BatchGetResponse)
			r.pairs = append(r.pairs, pairsFromPB(resp.Pairs)...)
			i = j
		}
	case opScan:
		// like a client: region by region, the lower bound clamped into the region (the handler clamps the upper one)
		order := make([]int, len(d.regions))
		for i := range order {
			order[i] = i
			if c.rev {
				order[i] = len(d.regions) - 1 - i
			}
		}
		remaining := c.limit
		for _, rg := range order {
			ri := d.regions[rg]
			if remaining <= 0 {
				break
			}
			if s, e := intersect(ri.start, ri.end, c.start, c.end); e != "" && s >= e {
				continue
			}
			lower := c.start
			if ri.start > lower {
				lower = ri.start
			}
			req := &kvrpcpb.ScanRequest{Version: c.ts, Limit: uint32(remaining), Reverse: c.rev}
			if c.rev {
				// TiKV uses [end_key, start_key) for a reverse scan
				req.StartKey, req.EndKey = []byte(c.end), []byte(lower)
			} else {
				req.StartKey, req.EndKey = []byte(lower), []byte(c.end)
			}
			resp := d.send(rg, tikvrpc.CmdScan, req, c.rc).(*kvrpcpb.ScanResponse)
			ps := pairsFromPB(resp.Pairs)
			r.pairs = append(r.pairs, ps...)
			remaining -= len(ps)
		}
	}
	return r
}
