//go:build verif

package mocktikv

// C12 — reference Percolator/MVCC model.
//
// Per key: an optional lock and a list of write records (descending commit ts;
// a rollback marker is a record with commitTS == startTS).  The functions
// below spell TiKV's semantics for each command, restricted to what the
// property statement fixes.  Where TiKV and the statement leave the answer
// open (or where TiKV and the mock legitimately disagree outside the
// statement) a command has several acceptable *alternatives*; the harness
// follows the alternative the mock took.

import (
	"fmt"
	"sort"
	"strings"

	"github.com/pingcap/kvproto/pkg/kvrpcpb"
)

type cls int

const (
	cNil          cls = iota
	cLocked           // key is locked (deadlock counts as a flavour of it)
	cConflict         // write conflict
	cCommitted        // already committed
	cRolledBack       // already rolled back
	cExists           // key already exists
	cTxnNotFound      // check-txn-status: txn not found
	cLockNotFound     // commit: lock not found (retryable)
	cExpired          // commit ts expired
	cAbort            // abort (pessimistic lock not found, …); the RPC layer folds committed/rolled-back/other into it
	cOther            // any other error
	cAnyErr           // expectation only: any non-nil error
)

var clsNames = [...]string{"nil", "locked", "write-conflict", "already-committed", "already-rolled-back", "key-exists",
	"txn-not-found", "lock-not-found", "commit-ts-expired", "abort", "other-error", "any-error"}

func (c cls) String() string { return clsNames[c] }

type wtype int

const (
	wPut wtype = iota
	wDelete
	wRollback
	wLock
)

var wtypeNames = [...]string{"put", "del", "rollback", "lock"}

type mLock struct {
	ts      uint64
	primary string
	op      kvrpcpb.Op
	val     string
	ttl     uint64
	fts     uint64
	minc    uint64
	txnSize uint64
}

type mWrite struct {
	typ wtype
	sts uint64
	cts uint64
	val string
}

type mKey struct {
	lock   *mLock
	writes []mWrite // descending cts
}

type txnKey struct {
	sts uint64
	key string
}

type model struct {
	keys  []string // sorted
	k     map[string]*mKey
	ended map[txnKey]bool // txn committed or rolled back on key (sticky, survives GC)
}

func newModel(keys []string) *model {
	m := &model{keys: append([]string(nil), keys...), k: map[string]*mKey{}, ended: map[txnKey]bool{}}
	sort.Strings(m.keys)
	for _, k := range m.keys {
		m.k[k] = &mKey{}
	}
	return m
}

func (m *model) clone() *model {
	n := &model{keys: m.keys, k: map[string]*mKey{}, ended: map[txnKey]bool{}}
	for k, v := range m.k {
		nk := &mKey{writes: append([]mWrite(nil), v.writes...)}
		if v.lock != nil {
			l := *v.lock
			nk.lock = &l
		}
		n.k[k] = nk
	}
	for k, v := range m.ended {
		n.ended[k] = v
	}
	return n
}

func (k *mKey) addWrite(w mWrite) {
	i := sort.Search(len(k.writes), func(i int) bool { return k.writes[i].cts <= w.cts })
	if i < len(k.writes) && k.writes[i].cts == w.cts {
		k.writes[i] = w // same version slot (only possible when the driver breaks ts distinctness)
		return
	}
	k.writes = append(k.writes, mWrite{})
	copy(k.writes[i+1:], k.writes[i:])
	k.writes[i] = w
}

func (k *mKey) newest() *mWrite {
	if len(k.writes) == 0 {
		return nil
	}
	return &k.writes[0]
}

func (k *mKey) ownRecord(sts uint64) *mWrite {
	for i := range k.writes {
		if k.writes[i].sts == sts {
			return &k.writes[i]
		}
	}
	return nil
}

// readAt: newest put/delete with commit ts <= ts.
func (k *mKey) readAt(ts uint64) (string, bool) {
	for _, w := range k.writes {
		if w.cts <= ts && (w.typ == wPut || w.typ == wDelete) {
			if w.typ == wPut {
				return w.val, true
			}
			return "", false
		}
	}
	return "", false
}

func physical(ts uint64) uint64 { return ts >> 18 }

// inRange: key in the raw range [start, end) ("" = unbounded).
func inRange(key, start, end string) bool {
	return key >= start && (end == "" || key < end)
}

// intersect of two raw ranges.
func intersect(s1, e1, s2, e2 string) (string, string) {
	s, e := s1, e1
	if s2 > s {
		s = s2
	}
	if e == "" || (e2 != "" && e2 < e) {
		e = e2
	}
	return s, e
}

func (l *mLock) min() uint64 { return l.minc }

func (l *mLock) expired(cur uint64) bool { return physical(l.ts)+l.ttl < physical(cur) }

// blocksRead: does the lock block an SI read at ts.
func (l *mLock) blocksRead(ts uint64) bool {
	return l.ts <= ts && l.op != kvrpcpb.Op_Lock && l.op != kvrpcpb.Op_PessimisticLock
}

// alt is one acceptable outcome of a per-key step.
type alt struct {
	c      cls
	lockTS uint64 // for cLocked: start ts of the lock that must be reported
	apply  func() // state change if this alternative is taken and the whole command succeeds
	val    string // pessimistic lock: value
	exists bool
	noVal  bool // value/existence not fixed for this alternative
}

func (a alt) matches(c cls) bool {
	if a.c == cAnyErr {
		return c != cNil
	}
	return a.c == c
}

func altsString(as []alt) string {
	var s []string
	for _, a := range as {
		if a.c == cLocked {
			s = append(s, fmt.Sprintf("locked(by %d)", a.lockTS))
		} else {
			s = append(s, a.c.String())
		}
	}
	return strings.Join(s, "|")
}

// altsSig: the classes only (stable part of a violation signature).
func altsSig(as []alt) string {
	var s []string
	for _, a := range as {
		s = append(s, a.c.String())
	}
	return strings.Join(s, "|")
}

func (m *model) rollbackMarker(key string, sts uint64) {
	k := m.k[key]
	if k.ownRecord(sts) == nil {
		k.addWrite(mWrite{typ: wRollback, sts: sts, cts: sts})
	}
	m.ended[txnKey{sts, key}] = true
}

func (m *model) rollbackLock(key string, sts uint64) {
	m.k[key].lock = nil
	m.rollbackMarker(key, sts)
}

func (m *model) commitLock(key string, cts uint64) {
	k := m.k[key]
	l := k.lock
	w := mWrite{sts: l.ts, cts: cts, val: l.val}
	switch l.op {
	case kvrpcpb.Op_Put:
		w.typ = wPut
	case kvrpcpb.Op_Del:
		w.typ = wDelete
		w.val = ""
	default: // Op_Lock, and a leftover pessimistic lock: "changes no data"
		w.typ = wLock
		w.val = ""
	}
	k.addWrite(w)
	k.lock = nil
	m.ended[txnKey{l.ts, key}] = true
}

// ---------------------------------------------------------------- prewrite

type prewriteArgs struct {
	sts     uint64
	primary string
	ttl     uint64
	fts     uint64 // request for_update_ts (0 = optimistic transaction)
	minc    uint64
	txnSize uint64
}

func (m *model) prewriteKey(key string, a prewriteArgs, op kvrpcpb.Op, val string, action kvrpcpb.PrewriteRequest_PessimisticAction) []alt {
	k := m.k[key]
	l := k.lock
	ended := m.ended[txnKey{a.sts, key}]
	lockOp := op
	if lockOp == kvrpcpb.Op_Insert {
		lockOp = kvrpcpb.Op_Put
	}
	if lockOp != kvrpcpb.Op_Put {
		val = ""
	}
	write := func(ttl, minc uint64) func() {
		return func() {
			nl := &mLock{ts: a.sts, primary: a.primary, op: lockOp, val: val, ttl: ttl, txnSize: a.txnSize}
			if key == a.primary {
				nl.minc = minc
			}
			k.lock = nl
		}
	}
	if l != nil {
		if l.ts != a.sts {
			as := []alt{{c: cLocked, lockTS: l.ts}}
			if op == kvrpcpb.Op_Insert && a.fts == 0 {
				// two simultaneous errors: TiKV reports the lock, the existence check may come first
				if _, ex := k.readAt(a.sts); ex && !l.blocksRead(a.sts) {
					as = append(as, alt{c: cExists})
				}
			}
			return as
		}
		if l.op != kvrpcpb.Op_PessimisticLock {
			return []alt{{c: cNil}} // duplicate prewrite: same answer, nothing changes
		}
		// the txn's own pessimistic lock: overwritten, write conflicts are NOT re-checked
		ttl, minc := a.ttl, a.minc
		if l.ttl > ttl {
			ttl = l.ttl
		}
		if l.minc > minc {
			minc = l.minc
		}
		return []alt{{c: cNil, apply: write(ttl, minc)}}
	}
	n := k.newest()
	if action == kvrpcpb.PrewriteRequest_DO_PESSIMISTIC_CHECK {
		if ended {
			return []alt{{c: cAnyErr}}
		}
		as := []alt{{c: cAbort}} // pessimistic lock not found
		if n == nil || n.cts < a.sts {
			// TiKV may amend a lost pipelined pessimistic lock when nothing was written after start_ts
			as = append(as, alt{c: cNil, apply: write(a.ttl, a.minc)})
		}
		return as
	}
	existsAlt := func(as []alt) []alt {
		if op == kvrpcpb.Op_Insert && a.fts == 0 {
			if _, ex := k.readAt(a.sts); ex {
				as = append(as, alt{c: cExists})
			}
		}
		return as
	}
	if n != nil && n.cts > a.sts {
		if ended {
			return []alt{{c: cAnyErr}}
		}
		if a.fts > 0 {
			if n.cts <= a.fts {
				// TiKV checks a pessimistic txn's unlocked keys against for_update_ts, the mock against start_ts
				return []alt{{c: cConflict}, {c: cNil, apply: write(a.ttl, a.minc)}}
			}
			return []alt{{c: cAnyErr}}
		}
		return existsAlt([]alt{{c: cConflict}})
	}
	if r := k.ownRecord(a.sts); r != nil || ended {
		return []alt{{c: cAnyErr}} // late prewrite after the txn's own rollback (or commit): rejected
	}
	if op == kvrpcpb.Op_Insert && a.fts == 0 {
		if _, ex := k.readAt(a.sts); ex {
			return []alt{{c: cExists}}
		}
	}
	as := []alt{{c: cNil, apply: write(a.ttl, a.minc)}}
	if op == kvrpcpb.Op_Insert && a.fts > 0 {
		// an unlocked Insert of a pessimistic txn: the mock skips the existence check, TiKV may do it
		if _, ex := k.readAt(^uint64(0)); ex {
			as = append(as, alt{c: cExists})
		}
	}
	return as
}

// ---------------------------------------------------------------- pessimistic lock

type plockArgs struct {
	sts          uint64
	primary      string
	ttl          uint64
	fts          uint64
	minc         uint64
	onlyIfExists bool
}

func (m *model) plockKey(key string, a plockArgs) []alt {
	k := m.k[key]
	l := k.lock
	if l != nil && l.ts != a.sts {
		return []alt{{c: cLocked, lockTS: l.ts}}
	}
	if l != nil && l.op != kvrpcpb.Op_PessimisticLock {
		// a pessimistic lock request over the txn's own prewrite lock is refused
		return []alt{{c: cAnyErr}}
	}
	n := k.newest()
	conflict := n != nil && n.cts > a.fts
	val, ex := k.readAt(a.fts)
	if l != nil {
		upd := func() {
			if a.fts > l.fts {
				l.fts = a.fts
				if a.ttl > l.ttl {
					l.ttl = a.ttl
				}
				if a.minc > l.minc {
					l.minc = a.minc
				}
			}
		}
		if conflict {
			// TiKV answers OK for a key the txn already holds; the mock re-checks the conflict "for idempotency"
			return []alt{{c: cConflict}, {c: cNil, apply: upd, noVal: true}}
		}
		return []alt{{c: cNil, apply: upd, val: val, exists: ex}}
	}
	if conflict {
		return []alt{{c: cConflict}}
	}
	if a.onlyIfExists && !ex {
		return []alt{{c: cNil, val: "", exists: false}}
	}
	return []alt{{c: cNil, val: val, exists: ex, apply: func() {
		k.lock = &mLock{ts: a.sts, primary: a.primary, op: kvrpcpb.Op_PessimisticLock, ttl: a.ttl, fts: a.fts, minc: a.minc}
	}}}
}

// pessimisticRollbackRange: a request without keys rolls back the txn's pessimistic locks of the range.
func (m *model) pessimisticRollbackRange(start, end string, sts, fts uint64) {
	var keys []string
	for _, key := range m.keys {
		if inRange(key, start, end) {
			keys = append(keys, key)
		}
	}
	m.pessimisticRollback(keys, sts, fts)
}

func (m *model) pessimisticRollback(keys []string, sts, fts uint64) {
	for _, key := range keys {
		k := m.k[key]
		if l := k.lock; l != nil && l.op == kvrpcpb.Op_PessimisticLock && l.ts == sts && l.fts <= fts {
			k.lock = nil
		}
	}
}

// ---------------------------------------------------------------- commit / rollback / cleanup

func (m *model) commitKey(key string, sts, cts uint64) alt {
	k := m.k[key]
	if l := k.lock; l != nil && l.ts == sts {
		if cts < l.minc {
			return alt{c: cExpired}
		}
		return alt{c: cNil, apply: func() { m.commitLock(key, cts) }}
	}
	if r := k.ownRecord(sts); r != nil && r.typ != wRollback {
		return alt{c: cNil}
	}
	return alt{c: cLockNotFound}
}

func (m *model) rollbackKey(key string, sts uint64) alt {
	k := m.k[key]
	if l := k.lock; l != nil && l.ts == sts {
		return alt{c: cNil, apply: func() { m.rollbackLock(key, sts) }}
	}
	if r := k.ownRecord(sts); r != nil {
		if r.typ != wRollback {
			return alt{c: cCommitted}
		}
		return alt{c: cNil}
	}
	return alt{c: cNil, apply: func() { m.rollbackMarker(key, sts) }}
}

func (m *model) cleanupKey(key string, sts, cur uint64) alt {
	k := m.k[key]
	if l := k.lock; l != nil && l.ts == sts {
		if cur == 0 || l.expired(cur) {
			return alt{c: cNil, apply: func() { m.rollbackLock(key, sts) }}
		}
		return alt{c: cLocked, lockTS: l.ts}
	}
	return m.rollbackKey(key, sts)
}

// ---------------------------------------------------------------- check txn status / heartbeat

type ctsResult struct {
	c        cls
	ttl      uint64
	commitTS uint64
	action   kvrpcpb.Action
	apply    func()
}

func (m *model) checkTxnStatus(key string, lockTS, caller, cur uint64, rollbackIfNotExist, resolvingPess bool) ctsResult {
	k := m.k[key]
	if l := k.lock; l != nil && l.ts == lockTS {
		if l.expired(cur) {
			if resolvingPess && l.op == kvrpcpb.Op_PessimisticLock {
				return ctsResult{action: kvrpcpb.Action_TTLExpirePessimisticRollback, apply: func() { k.lock = nil }}
			}
			return ctsResult{action: kvrpcpb.Action_TTLExpireRollback, apply: func() { m.rollbackLock(key, lockTS) }}
		}
		r := ctsResult{ttl: l.ttl}
		if caller == ^uint64(0) {
			r.action = kvrpcpb.Action_MinCommitTSPushed
		} else if l.minc > 0 {
			r.action = kvrpcpb.Action_MinCommitTSPushed
			if l.minc < caller+1 {
				nm := caller + 1
				if nm < cur {
					nm = cur
				}
				r.apply = func() { l.minc = nm }
			}
		}
		return r
	}
	if r := k.ownRecord(lockTS); r != nil {
		if r.typ != wRollback {
			return ctsResult{commitTS: r.cts}
		}
		return ctsResult{}
	}
	if rollbackIfNotExist {
		if resolvingPess {
			return ctsResult{action: kvrpcpb.Action_LockNotExistDoNothing}
		}
		return ctsResult{action: kvrpcpb.Action_LockNotExistRollback, apply: func() { m.rollbackMarker(key, lockTS) }}
	}
	return ctsResult{c: cTxnNotFound}
}

func (m *model) heartbeat(key string, sts, advise uint64) (cls, uint64, func()) {
	k := m.k[key]
	if l := k.lock; l != nil && l.ts == sts {
		if advise > l.ttl {
			return cNil, advise, func() { l.ttl = advise }
		}
		return cNil, l.ttl, nil
	}
	return cAnyErr, 0, nil
}

// ---------------------------------------------------------------- resolve / scan lock

// resolve: infos maps start ts -> commit ts (0 = roll back).
func (m *model) resolve(infos map[uint64]uint64, start, end string) {
	for _, key := range m.keys {
		if !inRange(key, start, end) {
			continue
		}
		k := m.k[key]
		if l := k.lock; l != nil {
			if cts, ok := infos[l.ts]; ok {
				if cts > 0 {
					m.commitLock(key, cts)
				} else {
					m.rollbackLock(key, l.ts)
				}
			}
		}
	}
}

// resolveDefined: resolving-with-commit below a lock's min_commit_ts is outside the statement.
func (m *model) resolveDefined(infos map[uint64]uint64, start, end string) bool {
	for _, key := range m.keys {
		if l := m.k[key].lock; l != nil && inRange(key, start, end) {
			if cts, ok := infos[l.ts]; ok && cts > 0 && (cts < l.minc || cts <= l.ts) {
				return false
			}
		}
	}
	return true
}

type lockInfo struct {
	key     string
	ts      uint64
	primary string
	// details (RPC answer): what a lock resolver needs
	op      kvrpcpb.Op
	ttl     uint64
	fts     uint64
	minc    uint64
	txnSize uint64
}

// sameLock: key / start ts / primary always; with details: type, ttl, txn size always, for_update_ts for
// pessimistic locks, min_commit_ts on the primary (what TiKV and the mock both keep there).
func sameLock(want, got lockInfo, details bool) bool {
	if want.key != got.key || want.ts != got.ts || want.primary != got.primary {
		return false
	}
	if !details {
		return true
	}
	if want.op != got.op || want.ttl != got.ttl {
		return false
	}
	if want.op == kvrpcpb.Op_PessimisticLock {
		if want.fts != got.fts {
			return false
		}
	} else if want.txnSize != got.txnSize {
		return false
	}
	if want.key == want.primary && want.minc != got.minc {
		return false
	}
	return true
}

func sameLocks(want, got []lockInfo, details bool) bool {
	if len(want) != len(got) {
		return false
	}
	for i := range want {
		if !sameLock(want[i], got[i], details) {
			return false
		}
	}
	return true
}

func (m *model) scanLock(start, end string, maxTS uint64) []lockInfo {
	var out []lockInfo
	for _, key := range m.keys {
		if !inRange(key, start, end) {
			continue
		}
		if l := m.k[key].lock; l != nil && l.ts <= maxTS {
			out = append(out, lockInfo{key: key, ts: l.ts, primary: l.primary, op: l.op, ttl: l.ttl, fts: l.fts, minc: l.minc, txnSize: l.txnSize})
		}
	}
	return out
}

// ---------------------------------------------------------------- reads

type rpair struct {
	key    string
	val    string
	c      cls
	lockTS uint64
}

func (p rpair) String() string {
	if p.c == cLocked {
		return fmt.Sprintf("%s:locked(by %d)", p.key, p.lockTS)
	}
	if p.c != cNil {
		return fmt.Sprintf("%s:%v", p.key, p.c)
	}
	return fmt.Sprintf("%s=%q", p.key, p.val)
}

// get returns (pair, exists): pair.c is cLocked if an SI read is blocked.
func (m *model) get(key string, ts uint64, rc bool) (rpair, bool) {
	k := m.k[key]
	if !rc && k.lock != nil && k.lock.blocksRead(ts) {
		return rpair{key: key, c: cLocked, lockTS: k.lock.ts}, true
	}
	v, ex := k.readAt(ts)
	return rpair{key: key, val: v}, ex
}

// scan = the per-key gets of the range, in order; blocked keys are reported, absent keys skipped.
func (m *model) scan(start, end string, limit int, ts uint64, rc, reverse bool) []rpair {
	var out []rpair
	keys := m.keys
	if reverse {
		keys = append([]string(nil), keys...)
		sort.Sort(sort.Reverse(sort.StringSlice(keys)))
	}
	for _, key := range keys {
		if len(out) >= limit {
			break
		}
		if key < start || (end != "" && key >= end) {
			continue
		}
		if p, ex := m.get(key, ts, rc); ex {
			out = append(out, p)
		}
	}
	return out
}

func (m *model) batchGet(keys []string, ts uint64, rc bool) []rpair {
	var out []rpair
	for _, key := range keys {
		if p, ex := m.get(key, ts, rc); ex {
			out = append(out, p)
		}
	}
	return out
}

// ---------------------------------------------------------------- dump

type dLock struct {
	Op      string `json:"op"`
	TS      uint64 `json:"ts"`
	Primary string `json:"primary"`
	Val     string `json:"val"`
}

type dWrite struct {
	Typ string `json:"typ"`
	STS uint64 `json:"sts"`
	CTS uint64 `json:"cts"`
	Val string `json:"val"`
}

type dKey struct {
	Key    string   `json:"key"`
	Lock   *dLock   `json:"lock,omitempty"`
	Writes []dWrite `json:"writes,omitempty"`
}

func (d dKey) String() string {
	var b strings.Builder
	b.WriteString(d.Key + "{")
	if d.Lock != nil {
		fmt.Fprintf(&b, "L(%s ts=%d pri=%s val=%q)", d.Lock.Op, d.Lock.TS, d.Lock.Primary, d.Lock.Val)
	}
	for _, w := range d.Writes {
		fmt.Fprintf(&b, " W(%s s=%d c=%d %q)", w.Typ, w.STS, w.CTS, w.Val)
	}
	b.WriteString("}")
	return b.String()
}

func dumpString(d []dKey) string {
	var s []string
	for _, k := range d {
		s = append(s, k.String())
	}
	return strings.Join(s, " ")
}

func (m *model) dump() []dKey {
	var out []dKey
	for _, key := range m.keys {
		k := m.k[key]
		d := dKey{Key: key}
		if l := k.lock; l != nil {
			d.Lock = &dLock{Op: l.op.String(), TS: l.ts, Primary: l.primary, Val: l.val}
		}
		for _, w := range k.writes {
			d.Writes = append(d.Writes, dWrite{Typ: wtypeNames[w.typ], STS: w.sts, CTS: w.cts, Val: w.val})
		}
		out = append(out, d)
	}
	return out
}

// fingerprint of the model state including the lock fields that only show through later commands.
func (m *model) fingerprint() string {
	var b strings.Builder
	for _, key := range m.keys {
		k := m.k[key]
		b.WriteString(key)
		if l := k.lock; l != nil {
			fmt.Fprintf(&b, "L%d,%s,%d,%q,%d,%d,%d", l.ts, l.primary, l.op, l.val, l.ttl, l.fts, l.minc)
		}
		for _, w := range k.writes {
			fmt.Fprintf(&b, "W%d,%d,%d,%q", w.typ, w.sts, w.cts, w.val)
		}
		b.WriteByte(';')
	}
	return b.String()
}
