//go:build verif

package mocktikv

// C12 — the in-process mock TiKV agrees with a reference Percolator/MVCC model.
//
// Runtime monitor: the real MVCCLevelDB is driven in lock-step with the
// reference model of c12_model_test.go by generated command sequences
// (exhaustive to a small depth, seeded random to depth ~40) at the MVCCStore
// method level and through the RPC handlers.  After every command the error
// class / returned values and the per-key record dump (MvccGetByKey, stored
// lock fields, reads at every timestamp, scans, ScanLock) are compared, and the
// algebraic clauses of the statement are evaluated directly on the mock's
// answers.

import (
	"fmt"
	"math/rand"
	"reflect"
	"sort"
	"strings"
	"sync"
	"testing"

	"github.com/pingcap/kvproto/pkg/kvrpcpb"
	"github.com/pingcap/log"
	"github.com/tikv/client-go/v2/verifh/vrep"
)

func init() {
	// the mock logs (with stack traces) on expected paths (empty reverse scan, rollback record met, ...): silence it
	if lg, props, err := log.InitLogger(&log.Config{Level: "fatal"}); err == nil {
		log.ReplaceGlobals(lg, props)
	}
}

// ---------------------------------------------------------------- world

type txnDesc struct {
	idx      int
	sts      uint64
	cts      uint64
	cts2     uint64 // a second, "wrong-looking" commit ts
	pess     bool
	fts      []uint64 // for-update timestamps, ascending
	primary  string
	ttl      uint64
	minc     uint64 // min_commit_ts sent with prewrites (0 or sts+1)
	ops      map[string]kvrpcpb.Op
	multiKey bool
}

type world struct {
	keys   []string
	txns   []*txnDesc
	extras []uint64
	allTS  []uint64
	desc   string
}

func mkTS(rank int) uint64 { return uint64(3*(rank+1))<<18 | uint64(rank%5) }

// buildWorld assigns timestamps in the order of tokens ("s1","c1","d1" (2nd commit ts),"f1","g1" (2nd for-update ts), "x" extra).
func buildWorld(keys []string, order []string, pess []bool, primaries []string, ttls []uint64) *world {
	w := &world{keys: keys, desc: strings.Join(order, "<")}
	for i := range pess {
		w.txns = append(w.txns, &txnDesc{idx: i, pess: pess[i], primary: primaries[i], ttl: ttls[i], ops: map[string]kvrpcpb.Op{}})
	}
	for rank, tok := range order {
		ts := mkTS(rank)
		w.allTS = append(w.allTS, ts)
		if tok == "x" {
			w.extras = append(w.extras, ts)
			continue
		}
		t := w.txns[int(tok[1]-'1')]
		switch tok[0] {
		case 's':
			t.sts = ts
		case 'c':
			t.cts = ts
		case 'd':
			t.cts2 = ts
		case 'f', 'g':
			t.fts = append(t.fts, ts)
		}
	}
	for _, t := range w.txns {
		if t.cts2 == 0 {
			t.cts2 = t.cts
		}
		for _, k := range keys {
			t.ops[k] = kvrpcpb.Op_Put
		}
		w.desc += fmt.Sprintf(" T%d{start=%d commit=%d/%d forUpdate=%v pess=%v primary=%s ttl=%d}", t.idx+1, t.sts, t.cts, t.cts2, t.fts, t.pess, t.primary, t.ttl)
	}
	return w
}

// withExtras puts an extra timestamp into every gap.
func withExtras(tokens []string) []string {
	out := []string{"x"}
	for _, t := range tokens {
		out = append(out, t, "x")
	}
	return out
}

// randomWorld: 4 keys, 4 transactions, random relative order of all timestamps
// (subject to start < commit, start < for-update ts of the same txn).
func randomWorld(rng *rand.Rand) *world {
	keys := []string{"a", "b", "c", "d"}
	n := 4
	var toks []string
	pess := make([]bool, n)
	prim := make([]string, n)
	ttls := make([]uint64, n)
	for i := 0; i < n; i++ {
		pess[i] = rng.Intn(2) == 0
		prim[i] = keys[rng.Intn(len(keys))]
		ttls[i] = []uint64{0, 6, 24, 100000}[rng.Intn(4)] // multiples of the 3 ms timestamp grid: expiry boundaries are hit
		id := string(rune('1' + i))
		mine := []string{"c" + id, "d" + id}
		if pess[i] {
			mine = append(mine, "f"+id, "g"+id)
		}
		toks = append(toks, "s"+id)
		toks = append(toks, mine...)
	}
	for i := 0; i < 6; i++ {
		toks = append(toks, "x")
	}
	rng.Shuffle(len(toks), func(i, j int) { toks[i], toks[j] = toks[j], toks[i] })
	// repair the per-txn constraints: s first; c before d; f before g
	for i := 0; i < n; i++ {
		id := byte('1' + i)
		var pos []int
		for p, t := range toks {
			if t != "x" && t[1] == id {
				pos = append(pos, p)
			}
		}
		var rest []string
		for _, p := range pos {
			if toks[p][0] != 's' {
				rest = append(rest, toks[p])
			}
		}
		fix := func(a, b byte) {
			ia, ib := -1, -1
			for q, t := range rest {
				if t[0] == a {
					ia = q
				}
				if t[0] == b {
					ib = q
				}
			}
			if ia >= 0 && ib >= 0 && ia > ib {
				rest[ia], rest[ib] = rest[ib], rest[ia]
			}
		}
		fix('c', 'd')
		fix('f', 'g')
		toks[pos[0]] = "s" + string(id)
		for q, p := range pos[1:] {
			toks[p] = rest[q]
		}
	}
	w := buildWorld(keys, toks, pess, prim, ttls)
	for _, t := range w.txns {
		if rng.Intn(2) == 0 {
			t.minc = t.sts + 1
		}
		t.multiKey = true
		for _, k := range keys {
			t.ops[k] = []kvrpcpb.Op{kvrpcpb.Op_Put, kvrpcpb.Op_Put, kvrpcpb.Op_Del, kvrpcpb.Op_Lock, kvrpcpb.Op_Insert}[rng.Intn(5)]
		}
	}
	return w
}

// ---------------------------------------------------------------- runner

type runner struct {
	r        *vrep.Report
	w        *world
	d        driver
	m        *model
	retired  map[int]bool
	trace    []string
	failed   bool
	last     []dKey // last observed dump
	ncmd     int
	counters map[string]int
	evals    int
	states   map[string]struct{}
	lastOK   bool   // the last command returned no error
	lastRes  result // its normalised answer
}

func newRunner(r *vrep.Report, w *world, d driver) *runner {
	return &runner{r: r, w: w, d: d, m: newModel(w.keys), retired: map[int]bool{}, counters: map[string]int{}}
}

func (x *runner) flush() {
	for k, v := range x.counters {
		x.r.Count(k, v)
	}
	x.counters = map[string]int{}
	x.r.Eval(x.evals)
	x.evals = 0
	for fp := range x.states {
		x.r.Distinct(fp)
	}
	x.states = nil
}

func (x *runner) violate(c *cmd, kind, msg string) {
	x.failed = true
	sig := x.d.level() + ":" + opNames[c.op]
	if v := c.variant(); v != "" {
		sig += "[" + v + "]"
	}
	sig += ":" + kind
	if strings.HasPrefix(kind, "read:") || strings.HasPrefix(kind, "lock-table:") {
		sig = x.d.level() + ":" + kind // a read probe: the answer is wrong whatever command came before
	}
	tr := append([]string(nil), x.trace...)
	x.r.Violate(sig, fmt.Sprintf("%s level, after %d commands, %s: %s", x.d.level(), len(tr), c, msg),
		map[string]any{"level": x.d.level(), "seed": vrep.Seed(), "world": x.w.desc, "commands": tr, "failing": c.String(),
			"model_state": dumpString(x.m.dump()), "store_state": dumpString(x.observe())})
}

func (x *runner) observe() []dKey {
	out := make([]dKey, 0, len(x.w.keys))
	for _, k := range x.m.keys {
		out = append(out, x.d.dumpKey(k))
	}
	return out
}

// defined: the preconditions of the statement, and the cases it leaves to neither side.
func (x *runner) defined(c *cmd) bool {
	x.prepare(c)
	if c.txn >= 0 && x.retired[c.txn] {
		return false
	}
	switch c.op {
	case opPLock:
		for _, k := range c.keys {
			if x.m.ended[txnKey{c.sts, k}] {
				return false // no lock request after the txn was committed / rolled back on the key
			}
			if l := x.m.k[k].lock; l != nil && l.ts == c.sts && l.op == kvrpcpb.Op_PessimisticLock {
				if c.onlyIfExists {
					return false
				}
				if c.fts > l.fts && (l.ttl != c.ttl || l.minc != c.minc) {
					return false // TiKV keeps the max of ttl / min_commit_ts, the mock the request's: not fixed by the statement
				}
			}
		}
	case opPrewrite:
		for _, k := range c.keys {
			if l := x.m.k[k].lock; l != nil && l.ts == c.sts && l.op == kvrpcpb.Op_PessimisticLock && c.fts == 0 {
				return false // optimistic prewrite over own pessimistic lock: lock type mismatch in TiKV, outside the statement
			}
		}
	case opResolve:
		rs, re := c.effRange()
		if !x.m.resolveDefined(map[uint64]uint64{c.sts: c.cts}, rs, re) {
			return false
		}
	case opBatchResolve:
		for s := range c.infos {
			for _, t := range x.w.txns {
				if t.sts == s && x.retired[t.idx] {
					return false
				}
			}
		}
		rs, re := c.effRange()
		if !x.m.resolveDefined(c.infos, rs, re) {
			return false
		}
	}
	return true
}

func (x *runner) pick(c *cmd, as []alt, got cls, gotLock uint64, fold func(cls) cls) (int, bool) {
	for i, a := range as {
		if a.c == cAnyErr {
			if got != cNil {
				return i, true
			}
			continue
		}
		if fold(a.c) == fold(got) {
			if a.c == cLocked && a.lockTS != gotLock {
				x.violate(c, "reported-lock", fmt.Sprintf("reports the lock of txn %d, the blocking lock belongs to txn %d", gotLock, a.lockTS))
				return -1, false
			}
			return i, true
		}
	}
	x.violate(c, fmt.Sprintf("class:want=%s,got=%s", altsSig(as), got), fmt.Sprintf("returned %s, the reference model allows %s", got, altsString(as)))
	return -1, false
}

func hasNil(as []alt) int {
	for i, a := range as {
		if a.c == cNil {
			return i
		}
	}
	return -1
}

// prepare: a region-scoped command is bound to a region of the driver (its raw range becomes the command's range;
// only a ScanLock request can carry a narrower start/end of its own).
func (x *runner) prepare(c *cmd) {
	if !c.regionScoped() {
		return
	}
	if n := x.d.nregions(); n > 0 {
		c.region %= n
		c.rstart, c.rend = x.d.rrange(c.region)
		if c.op != opScanLock {
			c.start, c.end = "", ""
		}
	} else {
		c.rstart, c.rend = "", ""
	}
}

// split: a key-carrying command whose keys lie in several regions becomes one command per region (what a
// client does); each part is a command of its own for the model as well.
func (x *runner) split(c *cmd) []*cmd {
	if x.d.nregions() < 2 || len(c.keys) < 2 {
		return nil
	}
	switch c.op {
	case opPrewrite, opPLock, opPRollback, opCommit, opRollback:
	default:
		return nil
	}
	var order []int
	parts := map[int]*cmd{}
	for i, k := range c.keys {
		rg := x.d.regionOf(k)
		p := parts[rg]
		if p == nil {
			cp := *c
			cp.keys, cp.mops, cp.acts, cp.vals = nil, nil, nil, nil
			p = &cp
			parts[rg] = p
			order = append(order, rg)
		}
		p.keys = append(p.keys, k)
		if c.op == opPrewrite {
			p.mops = append(p.mops, c.mops[i])
			p.vals = append(p.vals, c.vals[i])
			if len(c.acts) > 0 {
				p.acts = append(p.acts, c.acts[i])
			}
		}
	}
	if len(order) < 2 {
		return nil
	}
	var out []*cmd
	for _, rg := range order {
		p := parts[rg]
		if c.op == opPLock && c.minc != 0 && !(len(p.keys) == 1 && p.keys[0] == c.primary) {
			p.minc = 0
		}
		out = append(out, p)
	}
	return out
}

// run: step (+ the repetition clause) for a command, region by region if its keys span regions.
func (x *runner) run(c *cmd, light, probe, repeat bool) bool {
	parts := x.split(c)
	if parts == nil {
		parts = []*cmd{c}
	}
	for i, p := range parts {
		last := i == len(parts)-1
		if len(parts) > 1 && !x.defined(p) {
			continue // e.g. the txn already ended on this region's keys
		}
		if !x.step(p, light, probe && last) {
			return false
		}
		if repeat && mutating(p.op) && x.lastOK {
			if !x.repeatCheck(p) {
				return false
			}
		}
	}
	return true
}

// step executes one command on the store and the model and compares. light: no dump / probes.
func (x *runner) step(c *cmd, light, probe bool) bool {
	x.prepare(c)
	if x.failed || !x.defined(c) {
		return false
	}
	x.trace = append(x.trace, c.String())
	x.ncmd++
	x.counters["cmd_"+opNames[c.op]]++
	preModel := (*model)(nil)
	if c.op == opGC {
		preModel = x.m.clone()
	}
	preLocks := map[string]uint64{}
	for _, k := range x.m.keys {
		if l := x.m.k[k].lock; l != nil {
			preLocks[k] = l.ts
		}
	}
	res := x.d.exec(c)
	x.evals++
	for _, e := range res.errs {
		if e != cNil {
			x.counters["err_"+e.String()]++
		}
	}
	fe, _ := res.firstErr()
	x.lastOK, x.lastRes = fe == cNil, res
	fold := x.d.fold
	var rolledBack []txnKey // (txn,key) pairs this command must have left a rollback marker for
	switch c.op {
	case opPrewrite:
		a := prewriteArgs{sts: c.sts, primary: c.primary, ttl: c.ttl, fts: c.fts, minc: c.minc, txnSize: uint64(len(c.keys))}
		alts := make([][]alt, len(c.keys))
		for i, k := range c.keys {
			act := kvrpcpb.PrewriteRequest_SKIP_PESSIMISTIC_CHECK
			if len(c.acts) > 0 {
				act = c.acts[i]
			}
			alts[i] = x.m.prewriteKey(k, a, c.mops[i], c.vals[i], act)
		}
		if res.perMutation {
			if len(res.errs) != len(c.keys) {
				x.violate(c, "shape", fmt.Sprintf("%d results for %d mutations", len(res.errs), len(c.keys)))
				return false
			}
			allOK := true
			chosen := make([]int, len(c.keys))
			for i := range c.keys {
				j, ok := x.pick(c, alts[i], res.errs[i], res.lockTS[i], fold)
				if !ok {
					return false
				}
				chosen[i] = j
				if alts[i][j].c != cNil {
					allOK = false
				}
			}
			if allOK {
				for i, j := range chosen {
					if f := alts[i][j].apply; f != nil {
						f()
					}
				}
				x.counters["prewrite_ok"]++
			}
		} else if len(res.errs) == 0 {
			for i := range c.keys {
				if hasNil(alts[i]) < 0 {
					x.violate(c, fmt.Sprintf("class:want=%s,got=nil", altsSig(alts[i])), fmt.Sprintf("succeeded; for key %s the reference model allows only %s", c.keys[i], altsString(alts[i])))
					return false
				}
			}
			for i := range c.keys {
				if f := alts[i][hasNil(alts[i])].apply; f != nil {
					f()
				}
			}
			x.counters["prewrite_ok"]++
		} else {
			for ei, e := range res.errs {
				found := false
				for i := range c.keys {
					for _, al := range alts[i] {
						if al.c != cNil && (al.c == cAnyErr || fold(al.c) == fold(e)) && (al.c != cLocked || al.lockTS == res.lockTS[ei]) {
							found = true
						}
					}
				}
				if !found {
					var all []string
					for i := range c.keys {
						all = append(all, c.keys[i]+":"+altsString(alts[i]))
					}
					x.violate(c, fmt.Sprintf("class:got=%s", e), fmt.Sprintf("reported %s (lock of %d); the reference model allows %v", e, res.lockTS[ei], all))
					return false
				}
			}
		}
	case opPLock:
		a := plockArgs{sts: c.sts, primary: c.primary, ttl: c.ttl, fts: c.fts, minc: c.minc, onlyIfExists: c.onlyIfExists}
		alts := make([][]alt, len(c.keys))
		for i, k := range c.keys {
			alts[i] = x.m.plockKey(k, a)
		}
		if len(res.errs) == 0 {
			for i := range c.keys {
				if hasNil(alts[i]) < 0 {
					x.violate(c, fmt.Sprintf("class:want=%s,got=nil", altsSig(alts[i])), fmt.Sprintf("succeeded; for key %s the reference model allows only %s", c.keys[i], altsString(alts[i])))
					return false
				}
			}
			for i, k := range c.keys {
				al := alts[i][hasNil(alts[i])]
				if !al.noVal {
					if res.hasVals && (i >= len(res.vals) || res.vals[i] != al.val) {
						x.violate(c, "value", fmt.Sprintf("returned values %q, the reference model has %q for key %s", res.vals, al.val, k))
						return false
					}
					if res.hasNotFounds && (i >= len(res.notFound) || res.notFound[i] != !al.exists) {
						x.violate(c, "existence", fmt.Sprintf("returned notFounds %v, the reference model has exists=%v for key %s", res.notFound, al.exists, k))
						return false
					}
				}
				if al.apply != nil {
					al.apply()
				}
			}
			x.counters["plock_ok"]++
		} else {
			e, el := res.errs[0], res.lockTS[0]
			matched := false
			for i := range c.keys {
				for _, al := range alts[i] {
					if al.c != cNil && (al.c == cAnyErr || foldRPC(al.c) == foldRPC(e)) {
						if al.c == cLocked && al.lockTS != el {
							x.violate(c, "reported-lock", fmt.Sprintf("reports the lock of txn %d, the blocking lock belongs to txn %d", el, al.lockTS))
							return false
						}
						matched = true
					}
				}
				if matched {
					break
				}
				if hasNil(alts[i]) < 0 {
					break
				}
			}
			if !matched {
				var all []string
				for i := range c.keys {
					all = append(all, c.keys[i]+":"+altsString(alts[i]))
				}
				x.violate(c, fmt.Sprintf("class:got=%s", e), fmt.Sprintf("first error %s; the reference model allows %v", e, all))
				return false
			}
		}
	case opPRollback:
		if e, _ := res.firstErr(); e != cNil {
			x.violate(c, "class:want=nil,got="+e.String(), "pessimistic rollback returned an error")
			return false
		}
		if len(c.keys) == 0 {
			rs, re := c.effRange()
			x.m.pessimisticRollbackRange(rs, re, c.sts, c.fts)
			x.counters["prollback_no_keys"]++
		} else {
			x.m.pessimisticRollback(c.keys, c.sts, c.fts)
		}
	case opCommit, opRollback, opCleanup:
		var applies []func()
		want := alt{c: cNil}
		var cands []txnKey
		for _, k := range c.keys {
			var al alt
			switch c.op {
			case opCommit:
				al = x.m.commitKey(k, c.sts, c.cts)
			case opRollback:
				al = x.m.rollbackKey(k, c.sts)
			default:
				al = x.m.cleanupKey(k, c.sts, c.cur)
			}
			if al.c != cNil {
				want = al
				break
			}
			applies = append(applies, al.apply)
			cands = append(cands, txnKey{c.sts, k})
		}
		got, gl := res.firstErr()
		if _, ok := x.pick(c, []alt{want}, got, gl, fold); !ok {
			return false
		}
		if want.c == cCommitted && res.commitTS != 0 {
			if r := x.m.k[c.keys[len(applies)]].ownRecord(c.sts); r != nil && r.cts != res.commitTS {
				x.violate(c, "commit-ts", fmt.Sprintf("reports commit ts %d, the txn committed at %d", res.commitTS, r.cts))
				return false
			}
		}
		if want.c == cNil {
			for _, f := range applies {
				if f != nil {
					f()
				}
			}
			if c.op != opCommit {
				rolledBack = cands
			}
		}
	case opCheckTxn:
		want := x.m.checkTxnStatus(c.keys[0], c.sts, c.caller, c.cur, c.rbIfNotExist, c.resPes)
		got, gl := res.firstErr()
		if _, ok := x.pick(c, []alt{{c: want.c}}, got, gl, fold); !ok {
			return false
		}
		if want.c == cNil {
			if res.ttl != want.ttl || res.commitTS != want.commitTS {
				x.violate(c, "status", fmt.Sprintf("returned (ttl=%d, commitTS=%d), the reference model has (ttl=%d, commitTS=%d)", res.ttl, res.commitTS, want.ttl, want.commitTS))
				return false
			}
			if res.action != want.action {
				x.violate(c, "action", fmt.Sprintf("returned action %v, the reference model has %v", res.action, want.action))
				return false
			}
			if want.apply != nil {
				want.apply()
			}
			if want.action == kvrpcpb.Action_TTLExpireRollback || want.action == kvrpcpb.Action_LockNotExistRollback {
				rolledBack = []txnKey{{c.sts, c.keys[0]}}
			}
			x.counters["status_"+want.action.String()]++
		}
	case opHeartbeat:
		wc, ttl, apply := x.m.heartbeat(c.keys[0], c.sts, c.ttl)
		got, gl := res.firstErr()
		if _, ok := x.pick(c, []alt{{c: wc}}, got, gl, fold); !ok {
			return false
		}
		if wc == cNil {
			if res.ttl != ttl {
				x.violate(c, "ttl", fmt.Sprintf("returned ttl %d, the reference model has %d", res.ttl, ttl))
				return false
			}
			if apply != nil {
				apply()
			}
		}
	case opResolve, opBatchResolve:
		infos := c.infos
		if c.op == opResolve {
			infos = map[uint64]uint64{c.sts: c.cts}
		}
		if e, _ := res.firstErr(); e != cNil {
			x.violate(c, "class:want=nil,got="+e.String(), "resolve lock returned an error")
			return false
		}
		rs, re := c.effRange()
		for k, ts := range preLocks {
			if cts, ok := infos[ts]; ok && cts == 0 && inRange(k, rs, re) {
				rolledBack = append(rolledBack, txnKey{ts, k})
			}
		}
		x.m.resolve(infos, rs, re)
	case opScanLock:
		if e, _ := res.firstErr(); e != cNil {
			x.violate(c, "class:want=nil,got="+e.String(), "scan lock returned an error")
			return false
		}
		if !x.checkScanLock(c, c, res, x.m, "locks") {
			return false
		}
	case opGC:
		blocked := false
		gs, ge := c.effRange()
		for _, k := range x.m.keys {
			if l := x.m.k[k].lock; l != nil && l.ts <= c.sp && inRange(k, gs, ge) {
				blocked = true
			}
		}
		got, _ := res.firstErr()
		if blocked {
			if got == cNil {
				x.violate(c, "class:want=any-error,got=nil", "GC ran over a lock at or below the safe point")
				return false
			}
			x.counters["gc_refused"]++
		} else {
			if got != cNil {
				x.violate(c, "class:want=nil,got="+got.String(), "GC refused although no lock is at or below the safe point")
				return false
			}
			if !x.afterGC(c, preModel) {
				return false
			}
			x.counters["gc_ok"]++
		}
	case opGet, opBatchGet, opScan:
		var want []rpair
		switch c.op {
		case opGet:
			if p, ex := x.m.get(c.keys[0], c.ts, c.rc); ex {
				want = []rpair{p}
			}
		case opBatchGet:
			want = x.m.batchGet(c.keys, c.ts, c.rc)
		default:
			want = x.m.scan(c.start, c.end, c.limit, c.ts, c.rc, c.rev)
		}
		if !pairsEqual(want, res.pairs, fold) {
			x.violate(c, "read", fmt.Sprintf("returned %v, the reference model has %v", res.pairs, want))
			return false
		}
	}
	if light {
		return !x.failed
	}
	// the per-key record dump, through the store's own read paths
	d := x.observe()
	x.last = d
	if !x.compareDump(c, d) {
		return false
	}
	// a rollback by any route leaves a marker
	for _, tk := range rolledBack {
		found := false
		for _, dk := range d {
			if dk.Key == tk.key {
				for _, w := range dk.Writes {
					if w.STS == tk.sts && w.Typ == "rollback" {
						found = true
					}
				}
			}
		}
		x.evals++
		if !found {
			x.violate(c, "no-rollback-marker", fmt.Sprintf("rolled back txn %d on key %s but left no rollback marker", tk.sts, tk.key))
			return false
		}
		x.counters["rollback_markers_checked"]++
	}
	if x.states == nil {
		x.states = map[string]struct{}{}
	}
	x.states[x.d.level()+"|"+x.m.fingerprint()] = struct{}{}
	if probe {
		if !x.probeReads(c, 0, x.m) {
			return false
		}
	}
	return !x.failed
}

func pairsEqual(want, got []rpair, fold func(cls) cls) bool {
	if len(want) != len(got) {
		return false
	}
	for i := range want {
		w, g := want[i], got[i]
		if w.key != g.key || fold(w.c) != fold(g.c) || w.val != g.val || w.lockTS != g.lockTS {
			return false
		}
	}
	return true
}

func (x *runner) compareDump(c *cmd, d []dKey) bool {
	want := x.m.dump()
	for i, wk := range want {
		gk := d[i]
		x.evals++
		if !reflect.DeepEqual(wk.Lock, gk.Lock) {
			x.violate(c, "dump:lock", fmt.Sprintf("key %s: store has %v, the reference model %v", wk.Key, gk, wk))
			return false
		}
		if !reflect.DeepEqual(wk.Writes, gk.Writes) && (len(wk.Writes) > 0 || len(gk.Writes) > 0) {
			kind := "dump:write-differs"
			have := map[dWrite]bool{}
			for _, w := range gk.Writes {
				have[w] = true
			}
			wantSet := map[dWrite]bool{}
			for _, w := range wk.Writes {
				wantSet[w] = true
				if !have[w] {
					kind = "dump:missing-write(" + w.Typ + ")"
				}
			}
			if kind == "dump:write-differs" {
				for _, w := range gk.Writes {
					if !wantSet[w] {
						kind = "dump:extra-write(" + w.Typ + ")"
					}
				}
			} else {
				for _, w := range gk.Writes {
					if !wantSet[w] {
						kind += "+extra-write(" + w.Typ + ")"
						break
					}
				}
			}
			x.violate(c, kind, fmt.Sprintf("key %s: store has %v, the reference model %v", wk.Key, gk, wk))
			return false
		}
		// stored lock fields that show only through later commands (ttl: Cleanup/CheckTxnStatus on any key;
		// min_commit_ts: on the primary; for_update_ts: pessimistic locks)
		if l := x.m.k[wk.Key].lock; l != nil {
			rl := rawLock(x.d.store(), wk.Key)
			if rl == nil {
				x.violate(c, "dump:lock", fmt.Sprintf("key %s: lock record unreadable", wk.Key))
				return false
			}
			bad := rl.ttl != l.ttl
			if wk.Key == l.primary && rl.minCommitTS != l.minc {
				bad = true
			}
			if l.op == kvrpcpb.Op_PessimisticLock && rl.forUpdateTS != l.fts {
				bad = true
			}
			if bad {
				x.violate(c, "lock-fields", fmt.Sprintf("key %s: stored lock (ttl=%d minCommitTS=%d forUpdateTS=%d), the reference model (ttl=%d minCommitTS=%d forUpdateTS=%d)",
					wk.Key, rl.ttl, rl.minCommitTS, rl.forUpdateTS, l.ttl, l.minc, l.fts))
				return false
			}
		}
		// on one key a transaction is never both committed and rolled back (nor recorded twice),
		// and holds no lock after it ended there
		seen := map[uint64]string{}
		for _, w := range gk.Writes {
			if prev, dup := seen[w.STS]; dup {
				x.violate(c, "two-records-one-txn", fmt.Sprintf("key %s: txn %d has two records (%s and %s): %v", wk.Key, w.STS, prev, w.Typ, gk))
				return false
			}
			seen[w.STS] = w.Typ
		}
		if gk.Lock != nil {
			if typ, ok := seen[gk.Lock.TS]; ok {
				x.violate(c, "lock-after-end", fmt.Sprintf("key %s: txn %d holds a lock although it has a %s record there: %v", wk.Key, gk.Lock.TS, typ, gk))
				return false
			}
		}
	}
	// the full lock table as the ScanLock RPC of every region reports it (the records above agree with the model, so
	// a difference here is ScanLock's)
	if x.d.nregions() > 0 && !x.lockTable(c, ^uint64(0), x.m, "lock-table") {
		return false
	}
	return true
}

// afterGC: GC preserves the locks, everything above the safe point and every read at or above it;
// below it may only remove.  The model is then re-synchronised with what the store kept.
func (x *runner) afterGC(c *cmd, pre *model) bool {
	d := x.observe()
	for i, key := range x.m.keys {
		wk := pre.dump()[i]
		gk := d[i]
		x.evals++
		if !reflect.DeepEqual(wk.Lock, gk.Lock) {
			x.violate(c, "gc:lock-changed", fmt.Sprintf("key %s: before %v after %v", key, wk, gk))
			return false
		}
		if gs, ge := c.effRange(); !inRange(key, gs, ge) {
			if !reflect.DeepEqual(wk.Writes, gk.Writes) && (len(wk.Writes) > 0 || len(gk.Writes) > 0) {
				x.violate(c, "gc:outside-range-changed", fmt.Sprintf("key %s is outside the range of the GC request: before %v after %v", key, wk, gk))
				return false
			}
			continue
		}
		split := func(ws []dWrite) (above, below []dWrite) {
			for _, w := range ws {
				if w.CTS > c.sp {
					above = append(above, w)
				} else {
					below = append(below, w)
				}
			}
			return
		}
		wa, wb := split(wk.Writes)
		ga, gb := split(gk.Writes)
		if !reflect.DeepEqual(wa, ga) && (len(wa) > 0 || len(ga) > 0) {
			x.violate(c, "gc:above-safepoint-changed", fmt.Sprintf("key %s: records above safe point %d before %v after %v", key, c.sp, wa, ga))
			return false
		}
		j := 0
		for _, g := range gb {
			for j < len(wb) && wb[j] != g {
				j++
			}
			if j == len(wb) {
				x.violate(c, "gc:invented-record", fmt.Sprintf("key %s: record %v after GC was not there before (%v)", key, g, wb))
				return false
			}
			j++
		}
		if len(gb) < len(wb) {
			x.counters["gc_removed_records"] += len(wb) - len(gb)
		}
	}
	// every read at or above the safe point is preserved (pre-GC model is the reference)
	if !x.probeReads(c, c.sp, pre) {
		return false
	}
	// re-synchronise the write records at or below the safe point
	for i, key := range x.m.keys {
		k := x.m.k[key]
		k.writes = k.writes[:0]
		for _, w := range d[i].Writes {
			var t wtype
			switch w.Typ {
			case "put":
				t = wPut
			case "del":
				t = wDelete
			case "rollback":
				t = wRollback
			default:
				t = wLock
			}
			k.writes = append(k.writes, mWrite{typ: t, sts: w.STS, cts: w.CTS, val: w.Val})
		}
	}
	for _, t := range x.w.txns {
		if t.sts <= c.sp {
			x.retired[t.idx] = true
		}
	}
	return true
}

// probeReads: at every timestamp >= minTS: Get of every key (SI, and RC), Scan, ReverseScan, BatchGet,
// against the reference ref, plus the clauses "scan = per-key gets", "reverse scan = mirror", "batch get = gets"
// evaluated on the store's own answers.
func (x *runner) probeReads(c *cmd, minTS uint64, ref *model) bool {
	fold := x.d.fold
	for ti, ts := range x.w.allTS {
		if ts < minTS {
			continue
		}
		for _, rc := range []bool{false, true} {
			if rc && ti%3 != 1 {
				continue
			}
			var gets []rpair
			for _, k := range ref.keys {
				g := &cmd{op: opGet, txn: -1, keys: []string{k}, ts: ts, rc: rc}
				res := x.d.exec(g)
				x.evals++
				var want []rpair
				if p, ex := ref.get(k, ts, rc); ex {
					want = []rpair{p}
				}
				if !pairsEqual(want, res.pairs, fold) {
					kind := "read:get"
					if c.op == opGC {
						kind = "gc:read-not-preserved"
					}
					x.violate(c, kind, fmt.Sprintf("afterwards Get(%s, ts=%d, rc=%v) returns %v, the reference model has %v", k, ts, rc, res.pairs, want))
					return false
				}
				gets = append(gets, res.pairs...)
				if len(res.pairs) > 0 && res.pairs[0].c == cLocked {
					x.counters["reads_blocked_by_lock"]++
				}
			}
			sc := x.d.exec(&cmd{op: opScan, txn: -1, limit: 100, ts: ts, rc: rc})
			x.evals++
			if !pairsEqual(gets, sc.pairs, func(c cls) cls { return c }) {
				x.violate(c, "read:scan-vs-gets", fmt.Sprintf("afterwards Scan(ts=%d, rc=%v) returns %v, the per-key gets are %v", ts, rc, sc.pairs, gets))
				return false
			}
			rv := x.d.exec(&cmd{op: opScan, txn: -1, limit: 100, ts: ts, rc: rc, rev: true})
			x.evals++
			mirror := make([]rpair, len(gets))
			for i, p := range gets {
				mirror[len(gets)-1-i] = p
			}
			if !pairsEqual(mirror, rv.pairs, func(c cls) cls { return c }) {
				x.violate(c, "read:reverse-scan-vs-mirror", fmt.Sprintf("afterwards ReverseScan(ts=%d, rc=%v) returns %v, the mirror image of the scan is %v", ts, rc, rv.pairs, mirror))
				return false
			}
			bg := x.d.exec(&cmd{op: opBatchGet, txn: -1, keys: ref.keys, ts: ts, rc: rc})
			x.evals++
			if !pairsEqual(gets, bg.pairs, func(c cls) cls { return c }) {
				x.violate(c, "read:batchget-vs-gets", fmt.Sprintf("afterwards BatchGet(ts=%d, rc=%v) returns %v, the per-key gets are %v", ts, rc, bg.pairs, gets))
				return false
			}
			// sub-ranges and limits against the model
			if !rc && (ti == len(x.w.allTS)-1 || ti == len(x.w.allTS)/2) && len(ref.keys) >= 2 {
				ks := ref.keys
				for _, q := range []*cmd{
					{op: opScan, start: ks[1], end: "", limit: 100},
					{op: opScan, start: "", end: ks[len(ks)-1], limit: 100},
					{op: opScan, start: ks[0], end: "", limit: 1},
					{op: opScan, start: "", end: "", limit: 2, rev: true},
					{op: opScan, start: ks[1], end: "", limit: 100, rev: true},
					{op: opScan, start: "", end: ks[len(ks)-1], limit: 1, rev: true},
					{op: opScan, start: ks[0] + "\x00", end: ks[len(ks)-1] + "\x00", limit: 3},
				} {
					q.txn, q.ts = -1, ts
					res := x.d.exec(q)
					x.evals++
					want := ref.scan(q.start, q.end, q.limit, ts, false, q.rev)
					if !pairsEqual(want, res.pairs, fold) {
						x.violate(c, "read:scan-range", fmt.Sprintf("afterwards %s returns %v, the reference model has %v", q, res.pairs, want))
						return false
					}
				}
				if !x.lockTable(c, ts, ref, "read:scan-lock") {
					return false
				}
			}
		}
	}
	return true
}

// checkScanLock: the locks of the (region's) range at or below max_version, in key order, with their details.
// The limit is not fixed by the statement: the full list of the range or its first `limit` entries are accepted.
func (x *runner) checkScanLock(after, q *cmd, res result, ref *model, kind string) bool {
	rs, re := q.effRange()
	want := ref.scanLock(rs, re, q.ts)
	x.evals++
	ok := sameLocks(want, res.locks, res.lockDetails)
	if !ok && q.limit > 0 && len(want) > q.limit {
		ok = sameLocks(want[:q.limit], res.locks, res.lockDetails)
	}
	if !ok {
		what := "locks"
		if len(res.locks) > 0 && len(res.locks) <= len(want) && (len(res.locks) == len(want) || len(res.locks) == q.limit) {
			same := true
			for i := range res.locks {
				if !sameLock(want[i], res.locks[i], false) {
					same = false
				}
			}
			if same {
				what = "lock-details" // the right locks, wrong type / ttl / for_update_ts / min_commit_ts / txn_size
			}
		}
		msg := fmt.Sprintf("returns %+v, the reference model has %+v", res.locks, want)
		if after != q {
			msg = "afterwards " + q.String() + " " + msg
		}
		x.violate(after, kind+":"+what, msg)
		return false
	}
	if res.lockDetails && len(res.locks) > 0 {
		x.counters["scanlock_details_checked"] += len(res.locks)
	}
	return true
}

// lockTable: the full lock table through ScanLock (every region at the RPC levels).
func (x *runner) lockTable(after *cmd, ts uint64, ref *model, kind string) bool {
	n := x.d.nregions()
	if n == 0 {
		n = 1
	}
	for rg := 0; rg < n; rg++ {
		q := &cmd{op: opScanLock, txn: -1, ts: ts, region: rg}
		x.prepare(q)
		if !x.checkScanLock(after, q, x.d.exec(q), ref, kind) {
			return false
		}
	}
	return true
}

// repeatCheck: a command that succeeded is repeated: same answer, nothing changes.
func (x *runner) repeatCheck(c *cmd) bool {
	if x.failed {
		return false
	}
	if c.op == opCheckTxn && x.lastRes.action == kvrpcpb.Action_TTLExpirePessimisticRollback {
		// the pessimistic rollback of an expired pessimistic primary leaves, by design, no status behind:
		// the next check finds neither lock nor record
		return true
	}
	before := x.last
	r1 := x.d.exec(c)
	x.evals++
	x.trace = append(x.trace, c.String()+" [repeat, not applied to the model]")
	if e, _ := r1.firstErr(); e != cNil {
		x.violate(c, "repeat:answer", fmt.Sprintf("succeeded, but the immediate repetition returns %s", e))
		return false
	}
	if r1.ttl != x.lastRes.ttl || r1.commitTS != x.lastRes.commitTS || !reflect.DeepEqual(r1.vals, x.lastRes.vals) || !reflect.DeepEqual(r1.notFound, x.lastRes.notFound) {
		x.violate(c, "repeat:answer", fmt.Sprintf("the immediate repetition answers (ttl=%d commitTS=%d values=%q notFound=%v), the first time (ttl=%d commitTS=%d values=%q notFound=%v)",
			r1.ttl, r1.commitTS, r1.vals, r1.notFound, x.lastRes.ttl, x.lastRes.commitTS, x.lastRes.vals, x.lastRes.notFound))
		return false
	}
	after := x.observe()
	if !reflect.DeepEqual(before, after) {
		x.violate(c, "repeat:state", fmt.Sprintf("the repetition of a command whose effect is in place changed the store: before %s after %s", dumpString(before), dumpString(after)))
		return false
	}
	x.counters["repeats_checked"]++
	return true
}

// ---------------------------------------------------------------- command construction

func (w *world) prewrite(t *txnDesc, keys []string, action int, fts uint64) *cmd {
	c := &cmd{op: opPrewrite, txn: t.idx, sts: t.sts, primary: t.primary, keys: keys, ttl: t.ttl, minc: t.minc, fts: fts}
	for _, k := range keys {
		c.mops = append(c.mops, t.ops[k])
		c.vals = append(c.vals, fmt.Sprintf("v%d%s", t.idx+1, k))
		if fts > 0 {
			a := kvrpcpb.PrewriteRequest_SKIP_PESSIMISTIC_CHECK
			if action == 1 {
				a = kvrpcpb.PrewriteRequest_DO_PESSIMISTIC_CHECK
			}
			c.acts = append(c.acts, a)
		}
	}
	return c
}

func (w *world) plock(t *txnDesc, keys []string, fts uint64) *cmd {
	c := &cmd{op: opPLock, txn: t.idx, sts: t.sts, primary: t.primary, keys: keys, ttl: t.ttl, fts: fts}
	if len(keys) == 1 && keys[0] == t.primary && t.minc != 0 {
		c.minc = fts + 1
	}
	return c
}

func (w *world) txnCmd(op opKind, t *txnDesc, keys []string) *cmd {
	return &cmd{op: op, txn: t.idx, sts: t.sts, primary: t.primary, keys: keys}
}

// exhaustive alphabet over two keys and the world's transactions.
// regs: the regions (indices) region-scoped commands are sent to — one copy of the command per region.
func (w *world) alphabet(large bool, regs []int) []*cmd {
	var out []*cmd
	perRegion := func(c *cmd) {
		for _, rg := range regs {
			cp := *c
			cp.region = rg
			out = append(out, &cp)
		}
	}
	lo, hi := w.extras[0], w.extras[len(w.extras)-1]
	mid := w.extras[len(w.extras)/2]
	for _, t := range w.txns {
		for _, k := range w.keys {
			if t.pess {
				out = append(out, w.plock(t, []string{k}, t.fts[0]))
				out = append(out, w.prewrite(t, []string{k}, 1, t.fts[0]))
				if large {
					out = append(out, w.prewrite(t, []string{k}, 0, t.fts[0]))
					pr := w.txnCmd(opPRollback, t, []string{k})
					pr.fts = t.fts[0]
					out = append(out, pr)
				}
			} else {
				out = append(out, w.prewrite(t, []string{k}, 0, 0))
			}
			cm := w.txnCmd(opCommit, t, []string{k})
			cm.cts = t.cts
			out = append(out, cm)
			out = append(out, w.txnCmd(opRollback, t, []string{k}))
			if k == t.primary || large {
				cl := w.txnCmd(opCleanup, t, []string{k})
				out = append(out, cl)
			}
			if large {
				cl := w.txnCmd(opCleanup, t, []string{k})
				cl.cur = hi
				out = append(out, cl)
			}
		}
		if t.pess {
			// without keys: the txn's pessimistic locks of the whole region
			pr := w.txnCmd(opPRollback, t, nil)
			pr.fts = t.fts[0]
			perRegion(pr)
		}
		other := w.txns[(t.idx+1)%len(w.txns)]
		c1 := w.txnCmd(opCheckTxn, t, []string{t.primary})
		c1.caller, c1.cur, c1.rbIfNotExist = other.sts, hi, true
		c2 := w.txnCmd(opCheckTxn, t, []string{t.primary})
		c2.caller, c2.cur = mid, lo
		out = append(out, c1, c2)
		if large {
			c3 := w.txnCmd(opCheckTxn, t, []string{t.primary})
			c3.caller, c3.cur, c3.rbIfNotExist, c3.resPes = hi, hi, true, true
			c4 := w.txnCmd(opCheckTxn, t, []string{t.primary})
			c4.caller, c4.cur, c4.rbIfNotExist = hi, lo, true
			hb := w.txnCmd(opHeartbeat, t, []string{t.primary})
			hb.ttl = 60
			out = append(out, c3, c4, hb)
		}
		rc := w.txnCmd(opResolve, t, nil)
		rc.cts = t.cts
		perRegion(rc)
		perRegion(w.txnCmd(opResolve, t, nil))
	}
	if len(w.txns) >= 2 {
		perRegion(&cmd{op: opBatchResolve, txn: -1, infos: map[uint64]uint64{w.txns[0].sts: w.txns[0].cts, w.txns[1].sts: 0}})
	}
	perRegion(&cmd{op: opGC, txn: -1, sp: mid})
	perRegion(&cmd{op: opGC, txn: -1, sp: hi})
	// a safe point exactly at a start ts: "refuses over a lock AT or below the safe point"
	last := w.txns[0]
	for _, t := range w.txns {
		if t.sts > last.sts {
			last = t
		}
	}
	perRegion(&cmd{op: opGC, txn: -1, sp: last.sts})
	return out
}

// keyRegions: the regions of the driver that hold keys of the world ([0] without regions).
func (w *world) keyRegions(d driver) []int {
	if d.nregions() == 0 {
		return []int{0}
	}
	seen := map[int]bool{}
	var out []int
	for _, k := range w.keys {
		if rg := d.regionOf(k); !seen[rg] {
			seen[rg] = true
			out = append(out, rg)
		}
	}
	return out
}

// random command for the random walks.
func (w *world) randomCmd(rng *rand.Rand, m *model) *cmd {
	t := w.txns[rng.Intn(len(w.txns))]
	anyTS := func() uint64 { return w.allTS[rng.Intn(len(w.allTS))] }
	extra := func() uint64 { return w.extras[rng.Intn(len(w.extras))] }
	// region-scoped commands: a region (RPC levels) or a raw range between keys (store level)
	scoped := func(c *cmd) *cmd {
		c.region = rng.Intn(12)
		if rng.Intn(2) == 0 {
			c.start = w.keys[rng.Intn(len(w.keys))]
		}
		if rng.Intn(2) == 0 {
			c.end = w.keys[rng.Intn(len(w.keys))]
			if rng.Intn(2) == 0 {
				c.end += "\x00"
			}
		}
		if c.end != "" && c.end <= c.start {
			c.start = ""
		}
		return c
	}
	someKeys := func() []string {
		n := 1
		if t.multiKey && rng.Intn(3) == 0 {
			n = 2 + rng.Intn(2)
		}
		p := rng.Perm(len(w.keys))
		var ks []string
		for _, i := range p[:n] {
			ks = append(ks, w.keys[i])
		}
		if rng.Intn(2) == 0 {
			sort.Strings(ks)
		}
		return ks
	}
	switch x := rng.Intn(100); {
	case x < 18:
		if t.pess {
			c := w.prewrite(t, someKeys(), rng.Intn(3)%2, t.fts[rng.Intn(len(t.fts))])
			for i := range c.acts {
				if rng.Intn(4) == 0 {
					c.acts[i] = kvrpcpb.PrewriteRequest_SKIP_PESSIMISTIC_CHECK
				}
			}
			return c
		}
		return w.prewrite(t, someKeys(), 0, 0)
	case x < 30:
		if !t.pess {
			return w.prewrite(t, someKeys(), 0, 0)
		}
		c := w.plock(t, someKeys(), t.fts[rng.Intn(len(t.fts))])
		switch rng.Intn(4) {
		case 0:
			c.retVals = true
		case 1:
			c.chkExist = true
		case 2:
			c.retVals, c.onlyIfExists = true, true
		}
		return c
	case x < 34:
		if !t.pess {
			return w.txnCmd(opRollback, t, someKeys())
		}
		c := w.txnCmd(opPRollback, t, someKeys())
		c.fts = t.fts[rng.Intn(len(t.fts))]
		if rng.Intn(2) == 0 {
			c.keys = nil // the txn's pessimistic locks of a whole region / range
			scoped(c)
		}
		return c
	case x < 50:
		c := w.txnCmd(opCommit, t, someKeys())
		c.cts = t.cts
		if rng.Intn(6) == 0 {
			c.cts = t.cts2
		}
		return c
	case x < 58:
		return w.txnCmd(opRollback, t, someKeys())
	case x < 64:
		c := w.txnCmd(opCleanup, t, someKeys()[:1])
		if rng.Intn(2) == 0 {
			c.cur = extra()
		}
		return c
	case x < 76:
		c := w.txnCmd(opCheckTxn, t, []string{t.primary})
		c.cur = extra()
		if rng.Intn(2) == 0 {
			for c.caller = extra(); c.caller == c.cur; c.caller = extra() {
			}
		} else {
			c.caller = w.txns[rng.Intn(len(w.txns))].sts
		}
		if l := m.k[t.primary].lock; l != nil && l.ts == t.sts && l.min() > 0 && l.min() != c.cur && rng.Intn(4) == 0 {
			c.caller = l.min() // boundary: a reader exactly at the lock's min_commit_ts must push it
		}
		c.rbIfNotExist = rng.Intn(2) == 0
		c.resPes = rng.Intn(4) == 0
		return c
	case x < 79:
		c := w.txnCmd(opHeartbeat, t, []string{t.primary})
		c.ttl = []uint64{3, 9, 42, 200000}[rng.Intn(4)]
		return c
	case x < 86:
		c := w.txnCmd(opResolve, t, nil)
		switch rng.Intn(4) {
		case 0:
			c.cts = t.cts
		case 1:
			c.cts = t.cts2
		}
		return scoped(c)
	case x < 90:
		c := &cmd{op: opBatchResolve, txn: -1, infos: map[uint64]uint64{}}
		for _, u := range w.txns {
			switch rng.Intn(3) {
			case 0:
				c.infos[u.sts] = 0
			case 1:
				c.infos[u.sts] = u.cts
			}
		}
		if len(c.infos) == 0 {
			c.infos[t.sts] = 0
		}
		return scoped(c)
	case x < 93:
		if rng.Intn(3) == 0 {
			return scoped(&cmd{op: opGC, txn: -1, sp: anyTS()}) // also exactly at a start / commit ts
		}
		return scoped(&cmd{op: opGC, txn: -1, sp: extra()})
	case x < 95:
		c := scoped(&cmd{op: opScanLock, txn: -1, ts: anyTS()})
		if rng.Intn(2) == 0 {
			c.limit = 1 + rng.Intn(3)
		}
		return c
	case x < 97:
		return &cmd{op: opGet, txn: -1, keys: someKeys()[:1], ts: anyTS(), rc: rng.Intn(4) == 0}
	case x < 98:
		return &cmd{op: opBatchGet, txn: -1, keys: someKeys(), ts: anyTS(), rc: rng.Intn(4) == 0}
	default:
		c := &cmd{op: opScan, txn: -1, ts: anyTS(), limit: 1 + rng.Intn(4), rev: rng.Intn(2) == 0, rc: rng.Intn(4) == 0}
		if rng.Intn(2) == 0 {
			c.start = w.keys[rng.Intn(len(w.keys))]
		}
		if rng.Intn(2) == 0 {
			c.end = w.keys[rng.Intn(len(w.keys))] + "\x00"
		}
		return c
	}
}

func mutating(op opKind) bool { return op < opScanLock || op == opGC }

// latePrewrites: at the end of a sequence every (txn,key) the txn ended on gets a prewrite: it must be rejected.
func (x *runner) latePrewrites() {
	for _, t := range x.w.txns {
		if x.retired[t.idx] {
			continue
		}
		for _, k := range x.w.keys {
			if x.failed {
				return
			}
			if !x.m.ended[txnKey{t.sts, k}] || x.m.k[k].ownRecord(t.sts) == nil {
				continue
			}
			var c *cmd
			if t.pess {
				c = x.w.prewrite(t, []string{k}, 0, t.fts[len(t.fts)-1])
			} else {
				c = x.w.prewrite(t, []string{k}, 0, 0)
			}
			if x.run(c, false, false, false) {
				x.counters["late_prewrites_rejected"]++
			}
		}
	}
}

// ---------------------------------------------------------------- tests

// levels: MVCCStore methods; RPC with one region; RPC with >= 3 regions whose borders are keys of the pool.
func c12Levels(splits ...string) []func() driver {
	return []func() driver{func() driver { return newStoreDriver() }, func() driver { return newRPCDriver() },
		func() driver { return newRPCDriver(splits...) }}
}

const c12Rule = "reference Percolator model vs MVCCLevelDB, at the MVCCStore method level (store) and through RPCClient.SendRequest/kvHandler with one region (rpc) and with 3 regions whose borders are keys of the pool (rpc-mr: key requests go to the key's region, ResolveLock / ResolveLock(TxnInfos) / GC / ScanLock(start,end,limit) / PessimisticRollback-without-keys to one region, scans walk the regions); " +
	"evaluations = commands executed + per-key dump comparisons + read probes; distinct = distinct reference-model states (all locks incl. ttl/forUpdateTS/minCommitTS and all write records of all keys) reached, per level"

func c12Floors(r *vrep.Report) {
	for _, f := range []string{"err_locked", "err_write-conflict", "prewrite_ok", "plock_ok", "rollback_markers_checked", "reads_blocked_by_lock",
		"gc_ok", "gc_refused", "late_prewrites_rejected", "repeats_checked", "status_TTLExpireRollback", "status_LockNotExistRollback", "status_MinCommitTSPushed",
		"prollback_no_keys", "scanlock_details_checked"} {
		r.Floor(f, 1)
	}
}

func c12Guard(r *vrep.Report, what string, f func()) {
	defer func() {
		if p := recover(); p != nil {
			r.Violate("panic:"+what, fmt.Sprintf("%s panicked: %v", what, p), nil)
		}
	}()
	f()
}

// exhaustive layouts: T1 optimistic (primary a), T2 pessimistic (primary b).
func c12Layouts() [][]string {
	all := [][]string{
		{"s1", "s2", "f2", "c1", "c2"},
		{"s2", "s1", "c1", "f2", "c2"},
		{"s1", "c1", "s2", "f2", "c2"},
		{"s2", "f2", "s1", "c2", "c1"},
		{"s2", "s1", "f2", "c2", "c1"},
		{"s1", "s2", "c1", "f2", "c2"},
		{"s2", "f2", "c2", "s1", "c1"},
		{"s1", "s2", "f2", "c2", "c1"},
		{"s2", "s1", "f2", "c1", "c2"},
		{"s2", "f2", "s1", "c1", "c2"},
	}
	return all[:vrep.Pick(4, 10)]
}

func TestVerifC12Exhaustive(t *testing.T) {
	r := vrep.New("C12", "c12-exhaustive", "every command sequence up to the depth over 2 keys, an optimistic and a pessimistic txn, several relative orders of their timestamps; "+c12Rule)
	defer r.Finish(t)
	c12Floors(r)
	type job struct {
		mk     func() driver
		layout []string
		first  int
		large  bool
		depth  int
	}
	var jobs []job
	// quick: depth 3; 4 timestamp orders at the store level, 2 at each RPC level.
	// thorough: all 10 orders at depth 3, depth 4 for the first 2 (store) / 1 (RPC levels), and depth 3 over the
	// large alphabet for the first 3 / 2.
	for lv, mk := range c12Levels("a", "b") {
		probe := mk()
		for li, lay := range c12Layouts() {
			if !vrep.Thorough() && lv > 0 && li >= 2 {
				continue
			}
			w := c12ExhWorld(lay)
			regs := w.keyRegions(probe)
			depth := 3
			if vrep.Thorough() && (li < 1 || (lv == 0 && li < 2)) {
				depth = 4
			}
			for i := range w.alphabet(false, regs) {
				jobs = append(jobs, job{mk, lay, i, false, depth})
			}
			if vrep.Thorough() && (li < 2 || (lv == 0 && li < 3)) {
				for i := range w.alphabet(true, regs) {
					jobs = append(jobs, job{mk, lay, i, true, 3})
				}
			}
		}
		probe.close()
	}
	// longest jobs first
	sort.SliceStable(jobs, func(i, j int) bool { return jobs[i].depth > jobs[j].depth })
	var wg sync.WaitGroup
	ch := make(chan job)
	for wk := 0; wk < 16; wk++ {
		wg.Add(1)
		go func() {
			defer wg.Done()
			drivers := map[string]driver{}
			defer func() {
				for _, d := range drivers {
					d.close()
				}
			}()
			for j := range ch {
				c12Guard(r, "exhaustive", func() {
					probe := j.mk()
					lvl := probe.level()
					if d, ok := drivers[lvl]; ok {
						probe.close()
						probe = d
					} else {
						drivers[lvl] = probe
					}
					w := c12ExhWorld(j.layout)
					probed := map[string]struct{}{} // per job, so that what is probed does not depend on scheduling
					c12DFS(r, w, probe, w.alphabet(j.large, w.keyRegions(probe)), []int{j.first}, j.depth, probed)
				})
			}
		}()
	}
	for _, j := range jobs {
		ch <- j
	}
	close(ch)
	wg.Wait()
	r.Sample(map[string]any{"alphabet_quick_one_region": cmdStrings(c12ExhWorld(c12Layouts()[0]).alphabet(false, []int{0})), "world": c12ExhWorld(c12Layouts()[0]).desc,
		"rpc-mr": "regions (-inf,a) [a,b) [b,+inf): region-scoped commands once per region holding a key"})
}

func cmdStrings(cs []*cmd) []string {
	var out []string
	for _, c := range cs {
		out = append(out, c.String())
	}
	return out
}

func c12ExhWorld(layout []string) *world {
	w := buildWorld([]string{"a", "b"}, withExtras(layout), []bool{false, true}, []string{"a", "b"}, []uint64{7, 7})
	for _, t := range w.txns {
		t.minc = t.sts + 1
	}
	return w
}

// c12DFS runs the sequence `path` (indices into alphabet) and, if every command in it is defined and
// agrees, extends it.  Prefix commands are replayed light; the last command gets the full comparison.
//
// The read probes (Get/Scan/ReverseScan/BatchGet/ScanLock at every timestamp) are a function of the stored
// records, which the dump comparison has just shown to be those of the model; they are therefore run the first
// time a job (level, timestamp order, first command) reaches a model state, and for every 8th sequence otherwise.
func c12DFS(r *vrep.Report, w *world, d driver, alphabet []*cmd, path []int, depth int, probed map[string]struct{}) {
	d.reset()
	x := newRunner(r, w, d)
	ok := true
	for i, ci := range path {
		last := i == len(path)-1
		if !x.step(alphabet[ci], !last, false) {
			ok = false
			break
		}
		if last {
			key := d.level() + "|" + w.desc + "|" + x.m.fingerprint()
			h := 0
			for _, p := range path {
				h = h*31 + p + 1
			}
			if _, seen := probed[key]; !seen || h%8 == 0 {
				probed[key] = struct{}{}
				x.counters["states_probed"]++
				if !x.probeReads(alphabet[ci], 0, x.m) {
					ok = false
				}
			}
		}
	}
	if ok {
		x.counters["sequences"]++
		x.counters["commands"] += len(path)
		if len(path) == depth {
			c := alphabet[path[len(path)-1]]
			if mutating(c.op) && x.lastOK {
				x.repeatCheck(c)
			}
			if !x.failed {
				x.latePrewrites()
			}
		}
	} else if !x.failed {
		x.counters["sequences_pruned_undefined"]++
	}
	x.flush()
	if !ok || len(path) >= depth {
		return
	}
	for i := range alphabet {
		c12DFS(r, w, d, alphabet, append(append([]int(nil), path...), i), depth, probed)
	}
}

func TestVerifC12Random(t *testing.T) {
	r := vrep.New("C12", "c12-random", "seeded random command sequences of depth 40 over 4 keys and 4 txns (optimistic/pessimistic mix, random relative order of all start/commit/for-update/current timestamps, multi-key requests, Put/Del/Lock/Insert); "+c12Rule)
	defer r.Finish(t)
	c12Floors(r)
	n := vrep.Pick(700, 4000) // per level
	depth := 40
	type job struct {
		mk  func() driver
		idx int
	}
	var wg sync.WaitGroup
	ch := make(chan job)
	var smu sync.Mutex
	for wk := 0; wk < 16; wk++ {
		wg.Add(1)
		go func() {
			defer wg.Done()
			for j := range ch {
				c12Guard(r, "random", func() {
					d := j.mk()
					defer d.close()
					rng := vrep.Rand(fmt.Sprintf("c12-random-%s-%d", d.level(), j.idx))
					w := randomWorld(rng)
					x := newRunner(r, w, d)
					for i := 0; i < depth && !x.failed; i++ {
						var c *cmd
						for try := 0; try < 20; try++ {
							c = w.randomCmd(rng, x.m)
							if x.defined(c) {
								break
							}
							c = nil
						}
						if c == nil {
							break
						}
						if !x.run(c, false, rng.Intn(3) == 0 || i == depth-1, rng.Intn(3) == 0) {
							break
						}
					}
					if !x.failed {
						x.latePrewrites()
						x.counters["sequences"]++
					}
					x.counters["commands"] += x.ncmd
					x.flush()
					smu.Lock()
					if r.SampleN() < 3 && !x.failed {
						tr := x.trace
						if len(tr) > 12 {
							tr = tr[:12]
						}
						r.Sample(map[string]any{"level": d.level(), "world": w.desc, "first_commands": tr, "final_state": dumpString(x.m.dump())})
					}
					smu.Unlock()
				})
			}
		}()
	}
	for _, mk := range c12Levels("b", "d") {
		for i := 0; i < n; i++ {
			ch <- job{mk, i}
		}
	}
	close(ch)
	wg.Wait()
}
