//go:build verif

package retry

// C20 interpreter + reference accounting (black-box core, see c20_core.go).

import (
	"context"
	"errors"
	"fmt"
	"runtime"
	"sync"
	"sync/atomic"
	"time"

	"github.com/tikv/client-go/v2/kv"
	"github.com/tikv/client-go/v2/verifh/vrep"
)

// c20Ref is the reference accounting of one handle, built from the statement.
type c20Ref struct {
	total     int            // sleep since the last reset (all kinds)
	excl      int            // of which by kinds excluded from the budget
	kindSleep map[string]int // per-kind sleep over the whole lineage
	kindTimes map[string]int // per-kind back-off count over the whole lineage
	since     map[string]int // per-kind sleep since the last reset
	lo, hi    int            // effective budget bracket (hi<=0: none)
}

func (f c20Ref) clone() c20Ref {
	f.kindSleep = c20CopyMap(f.kindSleep)
	f.kindTimes = c20CopyMap(f.kindTimes)
	f.since = c20CopyMap(f.since)
	return f
}

type c20Handle struct {
	bo  *Backoffer
	ref c20Ref
}

type c20Step struct {
	Op    string `json:"op"`
	Sleep int    `json:"sleep"`
	Total int    `json:"total"`
	Err   string `json:"err,omitempty"`
}

// c20Stats is what one run observed (for counters / non-triviality).
type c20Stats struct {
	sleeps, zeroSleeps, cut, exhaust, exhaustMerged, exhaustFork, exhaustExcl, cancelHit, killHit int
	forks, clones, merges, resets, kindChecks, skipped                                            int
	setctxs                                                                                       int
	endedBy                                                                                       map[string]int // cancel hits by how / where the context ended
	unsettled                                                                                     bool
	violated                                                                                      bool
	trace                                                                                         []c20Step
}

type c20Run struct {
	r      *vrep.Report
	p      *c20Prog
	kinds  map[string]*c20Kind
	wb     bool
	shape  *c20Shape
	hs     []*c20Handle
	ctxs   []context.Context // per ctx node
	cancel []func()          // per ctx node: ends it the way its mode says
	killed *uint32
	weight int
	st     c20Stats
	opIdx  int
}

func (x *c20Run) violate(sig, format string, a ...any) {
	x.st.violated = true
	tr := x.st.trace
	if len(tr) > 60 {
		tr = tr[len(tr)-60:]
	}
	x.r.Violate(sig, fmt.Sprintf(format, a...)+fmt.Sprintf(" [op #%d of %s]", x.opIdx, x.p.shapeString()),
		map[string]any{"program": x.p, "failed_at_op": x.opIdx, "trace_tail": tr, "whitebox": x.wb})
}

func (x *c20Run) where(h int) string {
	n := x.shape.nodes[h]
	w := n.role
	if n.merged {
		w += "+merged"
	}
	if n.everReset {
		w += "+reset"
	}
	return w
}

func (x *c20Run) limitOf(k *c20Kind) int {
	if c20WB != nil {
		if l, ok := c20WB.excludedLimit(k.Name); ok {
			return l
		}
	}
	return 0
}

// c20Execute runs one program against the real code and judges every step.
func c20Execute(r *vrep.Report, p *c20Prog, kinds map[string]*c20Kind, wb bool) (st c20Stats) {
	x := &c20Run{r: r, p: p, kinds: kinds, wb: wb, shape: c20NewShape(p.RootCtx)}
	defer func() {
		for _, c := range x.cancel {
			c()
		}
		if pv := recover(); pv != nil {
			x.violate("panic", "code under test panicked: %v", pv)
		}
		st = x.st
	}()
	// white-box: lowered cap of the excluded kinds for this program
	if wb && c20WB != nil && p.ExclLimit > 0 {
		for _, k := range kinds {
			if k.Excluded {
				old, _ := c20WB.excludedLimit(k.Name)
				name := k.Name
				c20WB.setExcludedLimit(name, p.ExclLimit)
				defer c20WB.setExcludedLimit(name, old)
			}
		}
	}
	x.st.endedBy = map[string]int{}
	ctx, cancel := c20MakeCtx(context.Background(), x.shape.ctxMode[0])
	x.ctxs = append(x.ctxs, ctx)
	x.cancel = append(x.cancel, cancel)
	var root *Backoffer
	var lo, hi int
	switch p.Ctor {
	case "vars":
		vars := kv.NewVariables(nil)
		vars.BackOffWeight = p.Weight
		vars.BackoffLockFast = p.LockFast
		if p.Killable {
			x.killed = new(uint32)
			vars.Killed = x.killed
		}
		x.weight = p.Weight
		root = NewBackofferWithVars(ctx, p.Budget, vars)
		lo, hi = c20Budget(p.Budget, p.Weight, true)
	case "nilvars":
		x.weight = kv.DefaultVars.BackOffWeight
		root = NewBackofferWithVars(ctx, p.Budget, nil)
		lo, hi = c20Budget(p.Budget, x.weight, true)
	default: // deprecated constructor: no variables, hence no weight is given
		x.weight = kv.DefaultVars.BackOffWeight
		root = NewBackoffer(ctx, p.Budget)
		lo, hi = c20Budget(p.Budget, x.weight, false)
	}
	x.hs = []*c20Handle{{bo: root, ref: c20Ref{kindSleep: map[string]int{}, kindTimes: map[string]int{}, since: map[string]int{}, lo: lo, hi: hi}}}
	if root.GetTotalSleep() != 0 {
		x.violate("new:total-not-zero", "fresh back-offer reports total sleep %d", root.GetTotalSleep())
		return
	}
	for i, o := range p.Ops {
		x.opIdx = i
		if !x.shape.valid(o) {
			x.st.skipped++
			continue
		}
		switch o.Op {
		case "bo", "bom", "bof":
			for n := 0; n < c20Rep(o) && !x.st.violated; n++ {
				x.backoff(o)
			}
		case "fork", "clone":
			x.forkClone(o)
		case "merge":
			x.merge(o)
		case "reset", "resetmax":
			x.reset(o)
		case "cancel":
			x.cancel[x.shape.ctxUp(o.H, o.Up)]()
			x.shape.apply(o)
			x.settle()
		case "setctx":
			nctx, end := c20MakeCtx(x.hs[o.H].bo.GetCtx(), o.Mode)
			x.hs[o.H].bo.SetCtx(nctx)
			x.ctxs = append(x.ctxs, nctx)
			x.cancel = append(x.cancel, end)
			x.shape.apply(o)
			x.st.setctxs++
			x.settle()
		case "kill":
			if x.killed != nil {
				atomic.StoreUint32(x.killed, 1+uint32(i%3))
			}
		case "unkill":
			if x.killed != nil {
				atomic.StoreUint32(x.killed, 0)
			}
		}
		if x.st.violated || x.st.unsettled {
			return
		}
		x.othersUnchanged(o)
		if x.st.violated {
			return
		}
	}
	return
}

// othersUnchanged: an operation on one handle must not move the accounting of
// any other live handle ("never loses or double-counts": a clone or fork has
// its own copy).  The target itself was already judged against its reference.
func (x *c20Run) othersUnchanged(o c20Op) {
	for _, h := range x.shape.liveHandles() {
		hd := x.hs[h]
		x.r.Eval(1)
		if t := hd.bo.GetTotalSleep(); t != hd.ref.total {
			x.violate("alias:other-handle-total-changed:"+o.Op, "after %s handle h%d (%s) reports total sleep %d, reference %d", o, h, x.where(h), t, hd.ref.total)
			return
		}
		if !c20MapsEqual(hd.bo.GetBackoffSleepMS(), hd.ref.kindSleep) || !c20MapsEqual(hd.bo.GetBackoffTimes(), hd.ref.kindTimes) {
			x.violate("alias:other-handle-perkind-changed:"+o.Op, "after %s handle h%d (%s) reports per-kind sleep %v times %v, reference %v %v", o, h, x.where(h),
				hd.bo.GetBackoffSleepMS(), hd.bo.GetBackoffTimes(), hd.ref.kindSleep, hd.ref.kindTimes)
			return
		}
	}
}

func (x *c20Run) backoff(o c20Op) {
	hd := x.hs[o.H]
	k := x.kinds[o.K]
	ref := &hd.ref
	cancelled := x.shape.cancelled(o.H)
	killed := x.killed != nil && atomic.LoadUint32(x.killed) != 0
	raw := fmt.Errorf("c20 raw error of op %d", x.opIdx)
	pcm := -1
	var e error
	switch o.Op {
	case "bo":
		e = hd.bo.Backoff(k.cfg, raw)
	case "bom":
		pcm = o.PCM
		e = hd.bo.BackoffWithCfgAndMaxSleep(k.cfg, o.PCM, raw)
	case "bof":
		pcm = o.PCM
		e = hd.bo.BackoffWithMaxSleepTxnLockFast(o.PCM, raw)
	}
	x.shape.apply(o)
	x.r.Eval(1)
	total := hd.bo.GetTotalSleep()
	ks, kt := hd.bo.GetBackoffSleepMS(), hd.bo.GetBackoffTimes()
	d := total - ref.total
	dk := ks[k.Name] - ref.kindSleep[k.Name]
	dt := kt[k.Name] - ref.kindTimes[k.Name]
	step := c20Step{Op: o.String(), Sleep: d, Total: total}
	if e != nil {
		step.Err = e.Error()
		if len(step.Err) > 80 {
			step.Err = step.Err[:80]
		}
	}
	x.st.trace = append(x.st.trace, step)
	where := x.where(o.H)

	// (A) the per-kind statistics and the total move together
	otherMoved := false
	for name, v := range ks {
		if name != k.Name && v != ref.kindSleep[name] {
			otherMoved = true
		}
	}
	for name, v := range kt {
		if name != k.Name && v != ref.kindTimes[name] {
			otherMoved = true
		}
	}
	if d < 0 || dk != d || dt < 0 || dt > 1 || (d > 0 && dt != 1) || otherMoved {
		x.violate("acct:perkind-vs-total:"+o.Op, "%s on h%d (%s): total moved by %d, per-kind sleep of %s by %d, its count by %d, other kinds moved=%v", o, o.H, where, d, k.Name, dk, dt, otherMoved)
		return
	}

	// (B) cancelled context: stops at once, no sleep recorded
	if cancelled {
		x.st.cancelHit++
		mode, own := x.shape.endedBy(o.H)
		how := mode + "/ancestor"
		if own {
			how = mode + "/own"
		}
		x.st.endedBy[mode]++
		x.st.endedBy[how[len(mode)+1:]]++
		x.st.endedBy["on-"+x.shape.nodes[o.H].role]++
		if e == nil {
			x.violate("cancel:no-error:"+o.Op, "%s on h%d (%s) returned nil although its context had ended before the call (ended by: %s, ctx.Err()=%v)", o, o.H, where, how, hd.bo.GetCtx().Err())
		} else if d != 0 {
			x.violate("cancel:sleep-recorded:"+o.Op, "%s on h%d (%s) recorded %d ms of sleep although its context had ended before the call (ended by: %s)", o, o.H, where, d, how)
		}
		x.sync(ref, k, total, d, ks, kt)
		return
	}

	// (C) each individual sleep: per-call maximum, cap, exponential envelope
	if dt == 1 {
		if d > 0 {
			x.st.sleeps++
		} else {
			x.st.zeroSleeps++
		}
		if pcm >= 0 && d > pcm {
			x.violate("sleep:exceeds-percall-max:"+o.Op, "%s on h%d slept %d ms, per-call maximum %d", o, o.H, d, pcm)
			return
		}
		if pcm >= 0 && d == pcm {
			x.st.cut++
		}
		if k.Cap > 0 && d > k.Cap {
			x.violate("sleep:exceeds-cap", "%s on h%d slept %d ms, cap of the kind is %d", o, o.H, d, k.Cap)
			return
		}
		if k.Cap > 0 && k.Jitter != 0 && k.Jitter != DecorrJitter {
			base := k.Base
			if k.LockFast {
				base = x.hs[0].bo.GetVars().BackoffLockFast
			}
			if env := c20Envelope(base, k.Cap, ref.kindTimes[k.Name]); d > env {
				x.violate("sleep:exceeds-expo-envelope", "%s on h%d slept %d ms as back-off #%d of its kind: more than min(cap %d, base %d * 2^%d) = %d", o, o.H, d, ref.kindTimes[k.Name], k.Cap, base, ref.kindTimes[k.Name], env)
				return
			}
		}
	}

	// (D) a sleep may only start while the budget is not used up: total <= budget + one step
	nonExclBefore := ref.total - ref.excl
	limit := x.limitOf(k)
	if d > 0 && ref.hi > 0 {
		if !k.Excluded && nonExclBefore > ref.hi {
			x.violate("budget:over-budget-sleep", "%s on h%d (%s) slept %d ms although %d ms (kinds counted in the budget) were already slept, budget %d", o, o.H, where, d, nonExclBefore, ref.hi)
			return
		}
		if k.Excluded && limit > 0 {
			bound := limit
			if ref.hi > bound {
				bound = ref.hi
			}
			if ref.excl > bound {
				x.violate("budget:excluded-over-cap", "%s on h%d (%s) slept %d ms although the excluded kinds already slept %d ms, cap %d, budget %d", o, o.H, where, d, ref.excl, limit, ref.hi)
				return
			}
		}
	}

	// (E) what the call answered
	switch {
	case killed:
		x.st.killHit++
		if e == nil {
			x.violate("kill:no-error:"+o.Op, "%s on h%d (%s) returned nil although the query is killed", o, o.H, where)
			return
		}
	case e != nil && ref.hi > 0:
		// not cancelled, not killed: the back-offer claims its budget is exhausted
		x.st.exhaust++
		n := x.shape.nodes[o.H]
		if n.merged {
			x.st.exhaustMerged++
		}
		if n.role == "fork" {
			x.st.exhaustFork++
		}
		budgetGone := nonExclBefore >= ref.lo
		exclGone := false
		if k.Excluded && limit > 0 {
			m := limit
			if ref.lo < m {
				m = ref.lo
			}
			exclGone = ref.excl >= m
		}
		if !budgetGone && !exclGone {
			x.violate("exhaust:premature:"+x.shape.nodes[o.H].role, "%s on h%d (%s) failed with %q after only %d ms of budgeted sleep (excluded %d), budget %d: sleep was counted that never happened on this lineage", o, o.H, where, step.Err, nonExclBefore, ref.excl, ref.lo)
			return
		}
		if !budgetGone {
			x.st.exhaustExcl++
		} else {
			x.kindCheck(o, k, e, ref, where)
			if x.st.violated {
				return
			}
		}
	}
	x.sync(ref, k, total, d, ks, kt)
}

// kindCheck: when the *budget* is exhausted (the only case this is called for; exhaustion of the excluded
// kinds' own cap is not judged), the error reports the kind that consumed the most of it, i.e. the largest
// among the kinds counted in the budget: a kind excluded from the budget consumed none of it and cannot be
// "the kind that consumed the most time when the budget is exhausted" (seed C20-8 reported server-busy for
// a time-out made of region-miss back-offs; until then both readings were accepted).  After a Reset both
// readings (whole lineage / since the reset) are accepted; ties accept every maximal kind; a kind whose
// error the harness does not know accepts everything; if no budgeted kind has slept nothing is demanded.
func (x *c20Run) kindCheck(o c20Op, k *c20Kind, e error, ref *c20Ref, where string) {
	accept := map[string]bool{}
	for _, withExcluded := range []bool{false} {
		for _, m := range []map[string]int{ref.kindSleep, ref.since} {
			best := 0
			for name, v := range m {
				if kk := x.kinds[name]; kk != nil && (withExcluded || !kk.Excluded) && v > best {
					best = v
				}
			}
			if best == 0 {
				continue
			}
			for name, v := range m {
				if kk := x.kinds[name]; kk != nil && (withExcluded || !kk.Excluded) && v == best {
					accept[name] = true
				}
			}
		}
	}
	if len(accept) == 0 {
		return
	}
	x.st.kindChecks++
	var names []string
	for name := range accept {
		kk := x.kinds[name]
		if kk.err == nil || errors.Is(e, kk.err) {
			return
		}
		names = append(names, name)
	}
	sig := "exhaust:wrong-kind"
	if x.shape.nodes[o.H].merged {
		sig += ":after-merge"
	}
	x.violate(sig, "%s on h%d (%s): budget %d exhausted (%d ms slept), the kind that slept longest is %v (per-kind %v) but the error returned is %q", o, o.H, where, ref.lo, ref.total-ref.excl, names, ref.kindSleep, e.Error())
}

func (x *c20Run) sync(ref *c20Ref, k *c20Kind, total, d int, ks, kt map[string]int) {
	ref.total = total
	if k.Excluded {
		ref.excl += d
	}
	ref.kindSleep[k.Name] = ks[k.Name]
	ref.kindTimes[k.Name] = kt[k.Name]
	ref.since[k.Name] += d
}

func (x *c20Run) forkClone(o c20Op) {
	src := x.hs[o.H]
	var nb *Backoffer
	if o.Op == "fork" {
		var c context.CancelFunc
		nb, c = src.bo.Fork()
		x.ctxs = append(x.ctxs, nb.GetCtx())
		x.cancel = append(x.cancel, func() { c() })
		x.st.forks++
	} else {
		nb = src.bo.Clone()
		x.st.clones++
	}
	x.shape.apply(o)
	x.settle()
	x.r.Eval(1)
	nh := &c20Handle{bo: nb, ref: src.ref.clone()}
	x.hs = append(x.hs, nh)
	where := x.where(o.H)
	if nb.GetTotalSleep() != src.ref.total {
		x.violate(o.Op+":total-differs", "%s of h%d (%s) starts with total sleep %d, the parent has %d", o.Op, o.H, where, nb.GetTotalSleep(), src.ref.total)
		return
	}
	if !c20MapsEqual(nb.GetBackoffSleepMS(), src.ref.kindSleep) || !c20MapsEqual(nb.GetBackoffTimes(), src.ref.kindTimes) {
		x.violate(o.Op+":perkind-differs", "%s of h%d (%s) starts with per-kind %v/%v, the parent has %v/%v", o.Op, o.H, where, nb.GetBackoffSleepMS(), nb.GetBackoffTimes(), src.ref.kindSleep, src.ref.kindTimes)
		return
	}
	if x.wb && c20WB != nil {
		ex, mx := c20WB.peek(nb)
		_, pmx := c20WB.peek(src.bo)
		if ex != src.ref.excl {
			x.violate(o.Op+":excluded-differs", "%s of h%d (%s) starts with excluded sleep %d, the parent's accounting has %d", o.Op, o.H, where, ex, src.ref.excl)
			return
		}
		if mx != pmx {
			x.violate(o.Op+":budget-differs", "%s of h%d (%s) has budget %d, the parent %d", o.Op, o.H, where, mx, pmx)
			return
		}
	}
}

func (x *c20Run) merge(o c20Op) {
	a, f := x.hs[o.A], x.hs[o.H]
	a.bo.UpdateUsingForked(f.bo)
	x.shape.apply(o)
	x.st.merges++
	x.r.Eval(1)
	lo, hi := a.ref.lo, a.ref.hi
	where := x.where(o.A)
	if t := a.bo.GetTotalSleep(); t != f.ref.total {
		x.violate("merge:total-differs", "after %s h%d (%s) reports total sleep %d, the fork had %d (ancestor before: %d)", o, o.A, where, t, f.ref.total, a.ref.total)
		return
	}
	if !c20MapsEqual(a.bo.GetBackoffSleepMS(), f.ref.kindSleep) || !c20MapsEqual(a.bo.GetBackoffTimes(), f.ref.kindTimes) {
		x.violate("merge:perkind-differs", "after %s h%d (%s) reports per-kind %v/%v, the fork had %v/%v", o, o.A, where, a.bo.GetBackoffSleepMS(), a.bo.GetBackoffTimes(), f.ref.kindSleep, f.ref.kindTimes)
		return
	}
	if x.wb && c20WB != nil {
		ex, mx := c20WB.peek(a.bo)
		if ex != f.ref.excl {
			x.violate("merge:excluded-differs", "after %s h%d (%s) has excluded sleep %d, the fork's accounting has %d", o, o.A, where, ex, f.ref.excl)
			return
		}
		if mx < lo || mx > hi {
			x.violate("merge:budget-changed", "after %s h%d (%s) has budget %d, expected within [%d,%d]", o, o.A, where, mx, lo, hi)
			return
		}
	}
	a.ref = f.ref.clone()
	a.ref.lo, a.ref.hi = lo, hi
}

func (x *c20Run) reset(o c20Op) {
	hd := x.hs[o.H]
	if o.Op == "reset" {
		hd.bo.Reset()
	} else {
		hd.bo.ResetMaxSleep(o.M)
		hd.ref.lo, hd.ref.hi = c20Budget(o.M, x.weight, true)
	}
	x.shape.apply(o)
	x.st.resets++
	x.r.Eval(1)
	if t := hd.bo.GetTotalSleep(); t != 0 {
		x.violate("reset:total-not-zero", "after %s h%d reports total sleep %d", o, o.H, t)
		return
	}
	if x.wb && c20WB != nil {
		if ex, _ := c20WB.peek(hd.bo); ex != 0 {
			x.violate("reset:excluded-not-zero", "after %s h%d has excluded sleep %d", o, o.H, ex)
			return
		}
	}
	hd.ref.total, hd.ref.excl = 0, 0
	hd.ref.since = map[string]int{}
	// Reset keeps the per-kind statistics by design; the statement does not say, so take what is there
	hd.ref.kindSleep = c20CopyMap(hd.bo.GetBackoffSleepMS())
	hd.ref.kindTimes = c20CopyMap(hd.bo.GetBackoffTimes())
}

// ---------------------------------------------------------------- contexts

// c20MakeCtx derives a context from parent and returns the function that ends
// it the way `mode` says.
func c20MakeCtx(parent context.Context, mode string) (context.Context, func()) {
	switch mode {
	case "cause":
		c, cancel := context.WithCancelCause(parent)
		return c, func() { cancel(errors.New("c20 cancel cause")) }
	case "deadline":
		c := &c20EndCtx{parent: parent, done: make(chan struct{})}
		go func() {
			select {
			case <-parent.Done():
				c.finish(parent.Err())
			case <-c.done:
			}
		}()
		return c, func() { c.finish(context.DeadlineExceeded) }
	case "expired":
		c, cancel := context.WithDeadline(parent, time.Unix(1, 0))
		return c, func() { cancel() }
	}
	c, cancel := context.WithCancel(parent)
	return c, func() { cancel() }
}

// c20EndCtx is a context that ends when the driver says so, the way a deadline
// ends one: Done() is closed and Err() is context.DeadlineExceeded.  (A real
// timer context cannot be made to expire at an exact step of a program.)
type c20EndCtx struct {
	parent context.Context
	done   chan struct{}
	mu     sync.Mutex
	err    error
}

func (c *c20EndCtx) finish(err error) {
	c.mu.Lock()
	if c.err == nil {
		c.err = err
		close(c.done)
	}
	c.mu.Unlock()
}
func (c *c20EndCtx) Deadline() (time.Time, bool) { return c.parent.Deadline() }
func (c *c20EndCtx) Done() <-chan struct{}       { return c.done }
func (c *c20EndCtx) Value(k any) any             { return c.parent.Value(k) }
func (c *c20EndCtx) Err() error {
	c.mu.Lock()
	defer c.mu.Unlock()
	return c.err
}

// settle waits until every context that the driver's bookkeeping says has ended
// (itself or through an ancestor) really reports it: the standard library
// propagates the end of a non-standard parent from another goroutine.  A
// synchronisation barrier, not an oracle; if it does not settle the program is
// abandoned as inconclusive.
func (x *c20Run) settle() {
	for n := range x.ctxs {
		ended := false
		for c := n; c >= 0; c = x.shape.ctxParent[c] {
			if x.shape.ctxCancelled[c] {
				ended = true
			}
		}
		if !ended {
			continue
		}
		for i := 0; x.ctxs[n].Err() == nil; i++ {
			runtime.Gosched()
			if i > 100000 {
				time.Sleep(time.Millisecond)
			}
			if i > 110000 {
				x.st.unsettled = true
				x.r.Inconc("context node %d of %s did not report its end within 10 s", n, x.p.shapeString())
				return
			}
		}
	}
}
