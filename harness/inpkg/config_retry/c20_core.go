//go:build verif

package retry

// C20 — back-off never exceeds its budget and forked back-offers account
// consistently.  Runtime monitor, black-box core: only the exported API of
// config/retry is used here (NewBackoffer*, Backoff*, Clone, Fork,
// UpdateUsingForked, Reset, ResetMaxSleep, GetTotalSleep, GetBackoffSleepMS,
// GetBackoffTimes, NewConfig, NewBackoffFnCfg).  The white-box extension
// (c20_wb.go) installs c20WB and adds the predefined kinds of config.go, the
// excluded-kind cap and peeks at excludedSleep/maxSleep.
//
// A *program* is a list of operations over a growing set of back-offer handles
// (h0 = root).  The real code executes it with sleeping virtualised by the
// existing failpoint tikvclient/fastBackoffBySkipSleep; after every operation
// the reference accounting (written from the property statement, fed with the
// observed sleep of every step because most kinds are jittered) judges what the
// exported getters and the returned error show.

import (
	"errors"
	"fmt"
	"math"
	"sort"
	"strings"
)

// ---------------------------------------------------------------- kinds

type c20Kind struct {
	Name     string
	cfg      *Config
	Base     int   // exponential base (ms); for LockFast kinds taken from vars.BackoffLockFast
	Cap      int   // exponential cap (ms); 0 = unknown to the harness
	Jitter   int   // NoJitter..DecorrJitter; 0 = unknown
	err      error // what exhaustion has to report for this kind; nil = unknown
	LockFast bool
	Excluded bool // excluded from the budget (bounded by its own cap)
}

// c20Hooks is filled by the white-box extension.
type c20Hooks struct {
	kinds            func() []*c20Kind
	excludedLimit    func(name string) (int, bool)
	setExcludedLimit func(name string, v int)
	peek             func(b *Backoffer) (excluded, maxSleep int)
}

var c20WB *c20Hooks

var (
	c20ErrA = errors.New("c20 kind vNoJit exhausted")
	c20ErrB = errors.New("c20 kind vEqJit exhausted")
	c20ErrC = errors.New("c20 kind vFull exhausted")
	c20ErrD = errors.New("c20 kind vDecorr exhausted")
	c20ErrE = errors.New("c20 kind vBig exhausted")
	c20ErrF = errors.New("c20 kind vTiny exhausted")
)

// custom kinds built through the exported constructors: parameters are known
// without looking inside the package.
var c20CustomKinds = []*c20Kind{
	{Name: "vNoJit", Base: 2, Cap: 50, Jitter: NoJitter, err: c20ErrA},
	{Name: "vEqJit", Base: 10, Cap: 300, Jitter: EqualJitter, err: c20ErrB},
	{Name: "vFull", Base: 4, Cap: 100, Jitter: FullJitter, err: c20ErrC},
	{Name: "vDecorr", Base: 3, Cap: 200, Jitter: DecorrJitter, err: c20ErrD},
	{Name: "vBig", Base: 500, Cap: 5000, Jitter: NoJitter, err: c20ErrE},
	{Name: "vTiny", Base: 3, Cap: 48, Jitter: NoJitter, err: c20ErrF},
}

func init() {
	for _, k := range c20CustomKinds {
		k.cfg = NewConfig(k.Name, nil, NewBackoffFnCfg(k.Base, k.Cap, k.Jitter), k.err)
	}
}

// c20Kinds returns the kind table of a mode.  Black-box: the custom kinds and
// txnLockFast through BackoffWithMaxSleepTxnLockFast (cap and error unknown).
func c20Kinds(wb bool) map[string]*c20Kind {
	m := map[string]*c20Kind{}
	for _, k := range c20CustomKinds {
		m[k.Name] = k
	}
	m[BoTxnLockFast.String()] = &c20Kind{Name: BoTxnLockFast.String(), cfg: BoTxnLockFast, LockFast: true}
	if wb && c20WB != nil {
		for _, k := range c20WB.kinds() {
			m[k.Name] = k
		}
	}
	return m
}

func c20KindNames(m map[string]*c20Kind) []string {
	var out []string
	for n := range m {
		out = append(out, n)
	}
	sort.Strings(out)
	return out
}

// ---------------------------------------------------------------- programs

type c20Op struct {
	Op  string `json:"op"` // bo bom bof fork clone merge reset resetmax setctx cancel kill unkill
	H   int    `json:"h"`
	K   string `json:"k,omitempty"`
	PCM int    `json:"pcm,omitempty"` // per-call maximum (bom, bof)
	N   int    `json:"n,omitempty"`   // repeat count of a back-off op (0 = 1)
	A   int    `json:"a,omitempty"`   // merge: ancestor handle
	M   int    `json:"m,omitempty"`   // resetmax: new budget
	// setctx: SetCtx(a new context derived from the handle's current one) — how that context will end:
	// cancel | cause (WithCancelCause) | deadline (Err()==DeadlineExceeded, ended by the driver) |
	// expired (real WithDeadline in the past: ended before the next call)
	Mode string `json:"mode,omitempty"`
	// cancel: end the context Up levels above the handle's own one (0 = its own)
	Up int `json:"up,omitempty"`
}

func (o c20Op) String() string {
	switch o.Op {
	case "bo":
		return fmt.Sprintf("bo(h%d,%s)x%d", o.H, o.K, c20Rep(o))
	case "bom", "bof":
		return fmt.Sprintf("%s(h%d,%s,max=%d)x%d", o.Op, o.H, o.K, o.PCM, c20Rep(o))
	case "merge":
		return fmt.Sprintf("merge(h%d<-h%d)", o.A, o.H)
	case "resetmax":
		return fmt.Sprintf("resetmax(h%d,%d)", o.H, o.M)
	case "setctx":
		return fmt.Sprintf("setctx(h%d,%s)", o.H, o.Mode)
	case "cancel":
		return fmt.Sprintf("endctx(h%d,up%d)", o.H, o.Up)
	}
	return fmt.Sprintf("%s(h%d)", o.Op, o.H)
}

func c20Rep(o c20Op) int {
	if o.N <= 0 {
		return 1
	}
	return o.N
}

type c20Prog struct {
	Ctor      string  `json:"ctor"`     // vars | nilvars | plain
	RootCtx   string  `json:"root_ctx"` // how the root's context ends (see c20Op.Mode)
	Budget    int     `json:"budget"`
	Weight    int     `json:"weight"`
	LockFast  int     `json:"lock_fast"`
	Killable  bool    `json:"killable"`
	ExclLimit int     `json:"excl_limit,omitempty"` // white-box only: lowered cap of the excluded kinds (0 = default)
	Ops       []c20Op `json:"ops"`
}

func (p *c20Prog) shapeString() string {
	var sb strings.Builder
	fmt.Fprintf(&sb, "%s/b%d/w%d/l%d/x%d/ctx-%s:", p.Ctor, p.Budget, p.Weight, p.LockFast, p.ExclLimit, p.RootCtx)
	for _, o := range p.Ops {
		sb.WriteString(o.String())
		sb.WriteByte(' ')
	}
	return sb.String()
}

// ---------------------------------------------------------------- structural state

// c20Shape is the structure of a program run that does not depend on sleep
// values: who was forked from whom, which handles were merged away, which
// contexts are cancelled.  Generator and interpreter share it, so the generator
// only emits operations the interpreter accepts.
type c20Node struct {
	parent    int // the handle UpdateUsingForked walks to (-1 for the root and its clones)
	parentVer int // version of parent when this lineage left it
	ver       int // bumped by everything that may change the accounting of this handle
	dead      bool
	everReset bool
	ctx       int
	role      string
	merged    bool
}

type c20Shape struct {
	nodes        []c20Node
	ctxParent    []int
	ctxCancelled []bool // ended, by the driver's own bookkeeping
	ctxMode      []string
}

func c20NewShape(rootMode string) *c20Shape {
	if rootMode == "" {
		rootMode = "cancel"
	}
	return &c20Shape{nodes: []c20Node{{parent: -1, role: "root"}}, ctxParent: []int{-1}, ctxCancelled: []bool{rootMode == "expired"}, ctxMode: []string{rootMode}}
}

func (s *c20Shape) copy() *c20Shape {
	return &c20Shape{nodes: append([]c20Node(nil), s.nodes...), ctxParent: append([]int(nil), s.ctxParent...), ctxCancelled: append([]bool(nil), s.ctxCancelled...), ctxMode: append([]string(nil), s.ctxMode...)}
}

// endedBy: how the context of handle h ended ("" = alive): mode of the nearest
// ended context on its chain and whether that is the handle's own context.
func (s *c20Shape) endedBy(h int) (mode string, own bool) {
	for c := s.nodes[h].ctx; c >= 0; c = s.ctxParent[c] {
		if s.ctxCancelled[c] {
			return s.ctxMode[c], c == s.nodes[h].ctx
		}
	}
	return "", false
}

func (s *c20Shape) ctxUp(h, up int) int {
	c := s.nodes[h].ctx
	for ; up > 0 && s.ctxParent[c] >= 0; up-- {
		c = s.ctxParent[c]
	}
	return c
}

func (s *c20Shape) newCtx(parent int, mode string) int {
	s.ctxParent = append(s.ctxParent, parent)
	s.ctxCancelled = append(s.ctxCancelled, mode == "expired")
	s.ctxMode = append(s.ctxMode, mode)
	return len(s.ctxParent) - 1
}

func (s *c20Shape) live(h int) bool { return h >= 0 && h < len(s.nodes) && !s.nodes[h].dead }

func (s *c20Shape) cancelled(h int) bool {
	for c := s.nodes[h].ctx; c >= 0; c = s.ctxParent[c] {
		if s.ctxCancelled[c] {
			return true
		}
	}
	return false
}

// mergeOK: h lies below a (fork chain, clones of forks included), the ancestor
// has not changed since that lineage left it (the only pattern of the code base
// and the only one for which "no loss" is meaningful: a merge *replaces* the
// ancestor's accounting), and nothing on the path was Reset.
func (s *c20Shape) mergeOK(a, h int) bool {
	if a == h || !s.live(a) || !s.live(h) {
		return false
	}
	for x := h; ; {
		n := s.nodes[x]
		if n.everReset || n.parent < 0 {
			return false
		}
		if n.parent == a {
			return s.nodes[a].ver == n.parentVer
		}
		x = n.parent
	}
}

func (s *c20Shape) valid(o c20Op) bool {
	if !s.live(o.H) {
		return false
	}
	if o.Op == "merge" {
		return s.mergeOK(o.A, o.H)
	}
	return true
}

// apply updates the structure; returns the index of a created handle or -1.
func (s *c20Shape) apply(o c20Op) int {
	switch o.Op {
	case "bo", "bom", "bof":
		s.nodes[o.H].ver++
	case "reset", "resetmax":
		s.nodes[o.H].ver++
		s.nodes[o.H].everReset = true
	case "fork":
		p := s.nodes[o.H]
		s.nodes = append(s.nodes, c20Node{parent: o.H, parentVer: p.ver, ctx: s.newCtx(p.ctx, "cancel"), role: "fork", merged: p.merged})
		return len(s.nodes) - 1
	case "clone":
		p := s.nodes[o.H]
		s.nodes = append(s.nodes, c20Node{parent: p.parent, parentVer: p.parentVer, everReset: p.everReset, ctx: p.ctx, role: "clone", merged: p.merged})
		return len(s.nodes) - 1
	case "merge":
		s.nodes[o.A].ver++
		s.nodes[o.A].merged = true
		s.nodes[o.H].dead = true
	case "setctx":
		s.nodes[o.H].ctx = s.newCtx(s.nodes[o.H].ctx, o.Mode)
	case "cancel":
		s.ctxCancelled[s.ctxUp(o.H, o.Up)] = true
	}
	return -1
}

func (s *c20Shape) liveHandles() []int {
	var out []int
	for i := range s.nodes {
		if !s.nodes[i].dead {
			out = append(out, i)
		}
	}
	return out
}

// ---------------------------------------------------------------- budget arithmetic (from the statement)

// c20Budget: the configured budget m weighted by vars.BackOffWeight.  Where the
// statement leaves the effective value open (weight overflow beyond MaxInt32,
// the deprecated constructor that takes no variables) [lo,hi] brackets it:
// sleeping is judged against hi, "exhausted too early" against lo.
// hi <= 0: no budget, nothing demanded.
func c20Budget(m, w int, weighted bool) (lo, hi int) {
	if m <= 0 {
		return 0, 0
	}
	if w < 1 {
		w = 1
	}
	if !weighted || math.MaxInt32/w < m {
		return m, m * w
	}
	return m * w, m * w
}

func c20Envelope(base, cap, n int) int {
	if base < 2 {
		base = 2
	}
	v := base
	for i := 0; i < n && v < cap; i++ {
		v *= 2
	}
	if v > cap {
		v = cap
	}
	return v
}

func c20CopyMap(m map[string]int) map[string]int {
	out := make(map[string]int, len(m))
	for k, v := range m {
		out[k] = v
	}
	return out
}

// maps equal, a missing key counting as 0 (the statement talks about sleep
// time, not about map entries)
func c20MapsEqual(a, b map[string]int) bool {
	for k, v := range a {
		if b[k] != v {
			return false
		}
	}
	for k, v := range b {
		if a[k] != v {
			return false
		}
	}
	return true
}

