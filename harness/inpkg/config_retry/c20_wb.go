//go:build verif

package retry

// C20 white-box extension: everything that touches unexported identifiers of
// config/retry lives here (predefined kinds with their base/cap/jitter/error,
// the table of kinds excluded from the budget and its test-only setter, the
// excludedSleep/maxSleep fields).  If this file stops compiling after a
// refactor the black-box core (unit c20-core) still runs.

import (
	"strings"
	"testing"

	"github.com/tikv/client-go/v2/verifh/vrep"
)

func init() {
	c20WB = &c20Hooks{
		kinds: func() []*c20Kind {
			var out []*c20Kind
			for _, c := range []*Config{BoTiKVRPC, BoTiFlashRPC, BoTxnLock, BoPDRPC, BoRegionMiss, BoRegionScheduling,
				BoTiKVServerBusy, BoTiKVDiskFull, BoRegionRecoveryInProgress, BoTiFlashServerBusy, BoTxnNotFound, BoStaleCmd,
				BoMaxTsNotSynced, BoCommitTSLag, BoMaxRegionNotInitialized, BoIsWitness, BoTxnLockFast} {
				_, excl := isSleepExcluded[c.name]
				out = append(out, &c20Kind{Name: c.name, cfg: c, Base: c.fnCfg.base, Cap: c.fnCfg.cap, Jitter: c.fnCfg.jitter, err: c.err,
					LockFast: strings.EqualFold(c.name, txnLockFastName), Excluded: excl})
			}
			return out
		},
		excludedLimit: func(name string) (int, bool) {
			l, ok := isSleepExcluded[name]
			return l, ok
		},
		setExcludedLimit: setBackoffExcluded,
		peek:             func(b *Backoffer) (int, int) { return b.excludedSleep, b.maxSleep },
	}
}

func TestVerifC20WBRandom(t *testing.T) {
	c20Random(t, "c20-wb-random", true, vrep.Pick(8000, 150000))
}
