//go:build verif

package retry

// C20 program generators (black-box core, see c20_core.go): seeded random
// programs (with a bias towards "the longest sleeper slept in a fork that was
// merged back, then the ancestor runs out of budget") and the exhaustive
// enumeration of all short programs over a small alphabet.

import (
	"math"
	"math/rand"
)

var c20Budgets = []int{1, 2, 3, 5, 8, 20, 50, 100, 300, 1000, 3000, 10000, 40000}

func c20GenRandom(rng *rand.Rand, kinds map[string]*c20Kind, wb bool) *c20Prog {
	names := c20KindNames(kinds)
	p := &c20Prog{}
	switch rng.Intn(10) {
	case 0:
		p.Ctor = "nilvars"
	case 1:
		p.Ctor = "plain"
	default:
		p.Ctor = "vars"
	}
	p.Budget = c20Budgets[rng.Intn(len(c20Budgets))]
	if rng.Intn(50) == 0 {
		p.Budget = 0
	}
	p.Weight = []int{1, 1, 2, 2, 3, 10, math.MaxInt32}[rng.Intn(7)]
	p.LockFast = []int{0, 1, 2, 10, 100, 4000}[rng.Intn(6)]
	p.Killable = p.Ctor == "vars" && rng.Intn(3) == 0
	if wb {
		p.ExclLimit = []int{0, 0, 1, 500, 5000, 30000}[rng.Intn(6)]
		if rng.Intn(40) == 0 {
			p.Budget = 700000 // beyond the default cap of the excluded kinds
		}
	}
	// a few kinds per program, so that the exponential of a kind grows and few kinds compete
	nk := 2 + rng.Intn(3)
	var pk []string
	var excluded []string
	for _, n := range names {
		if kinds[n].Excluded {
			excluded = append(excluded, n)
		}
	}
	for i := 0; i < nk; i++ {
		pk = append(pk, names[rng.Intn(len(names))])
	}
	if len(excluded) > 0 && rng.Intn(3) == 0 {
		pk = append(pk, excluded[rng.Intn(len(excluded))])
	}
	last := pk[0]
	pickKind := func() string {
		if rng.Intn(2) == 0 {
			return last
		}
		last = pk[rng.Intn(len(pk))]
		return last
	}
	p.RootCtx = "cancel"
	if rng.Intn(10) < 3 {
		p.RootCtx = []string{"cause", "deadline", "deadline", "expired"}[rng.Intn(4)]
	}
	s := c20NewShape(p.RootCtx)
	cur := 0
	emit := func(o c20Op) int {
		if !s.valid(o) {
			return -1
		}
		p.Ops = append(p.Ops, o)
		return s.apply(o)
	}
	boOp := func(h int) c20Op {
		o := c20Op{Op: "bo", H: h, K: pickKind()}
		switch v := rng.Intn(100); {
		case v < 25:
			o.Op = "bom"
			o.PCM = []int{0, 1, 2, 5, 50, 1000, -1}[rng.Intn(7)]
		case v < 40:
			o.Op = "bof"
			o.K = BoTxnLockFast.String()
			o.PCM = []int{0, 1, 3, 10, 100, 5000}[rng.Intn(6)]
		}
		switch v := rng.Intn(100); {
		case v < 15:
			o.N = 2 + rng.Intn(7)
		case v < 18:
			o.N = 40
		}
		if kinds[o.K].Excluded && rng.Intn(4) == 0 {
			o.N = 120
		}
		return o
	}
	// biased prefix: root sleeps a little, a fork (or a fork of a fork) sleeps more with
	// another kind, is merged back, then the ancestor goes on until its budget must be gone
	if rng.Intn(10) < 3 {
		if n := rng.Intn(3); n > 0 {
			emit(c20Op{Op: "bo", H: 0, K: pk[0], N: n})
		}
		f := emit(c20Op{Op: "fork", H: 0})
		if rng.Intn(3) == 0 {
			if rng.Intn(2) == 0 {
				emit(c20Op{Op: "bo", H: f, K: pk[len(pk)-1], N: 1 + rng.Intn(3)})
			}
			f = emit(c20Op{Op: "fork", H: f})
		}
		emit(c20Op{Op: "bo", H: f, K: pk[1%len(pk)], N: 1 + rng.Intn(8)})
		if rng.Intn(4) == 0 {
			f = emit(c20Op{Op: "clone", H: f})
		}
		emit(c20Op{Op: "merge", A: 0, H: f})
		emit(c20Op{Op: "bo", H: 0, K: pk[rng.Intn(len(pk))], N: 3 + rng.Intn(28)})
	}
	n := len(p.Ops) + 4 + rng.Intn(36)
	for guard := 0; len(p.Ops) < n && guard < 500; guard++ {
		live := s.liveHandles()
		h := cur
		if !s.live(cur) || rng.Intn(4) == 0 {
			h = live[rng.Intn(len(live))]
		}
		switch v := rng.Intn(100); {
		case v < 55:
			emit(boOp(h))
		case v < 58:
			emit(c20Op{Op: "setctx", H: h, Mode: []string{"cancel", "cause", "deadline", "deadline", "expired"}[rng.Intn(5)]})
		case v < 68:
			if len(s.nodes) < 9 {
				if c := emit(c20Op{Op: "fork", H: h}); c >= 0 {
					cur = c
				}
			}
		case v < 72:
			if len(s.nodes) < 9 {
				c := emit(c20Op{Op: "clone", H: h})
				if c >= 0 && rng.Intn(2) == 0 {
					cur = c
				}
			}
		case v < 86:
			var pairs [][2]int
			for _, a := range live {
				for _, f := range live {
					if s.mergeOK(a, f) {
						pairs = append(pairs, [2]int{a, f})
						if f == cur {
							pairs = append(pairs, [2]int{a, f}, [2]int{a, f})
						}
					}
				}
			}
			if len(pairs) == 0 {
				emit(boOp(h))
				break
			}
			pr := pairs[rng.Intn(len(pairs))]
			emit(c20Op{Op: "merge", A: pr[0], H: pr[1]})
			cur = pr[0]
		case v < 89:
			emit(c20Op{Op: "reset", H: h})
		case v < 91:
			emit(c20Op{Op: "resetmax", H: h, M: c20Budgets[rng.Intn(len(c20Budgets))]})
		case v < 94:
			emit(c20Op{Op: "cancel", H: h, Up: []int{0, 0, 0, 1, 1, 2}[rng.Intn(6)]})
		case v < 96:
			if p.Killable {
				emit(c20Op{Op: "kill", H: 0})
			}
		case v < 98:
			if p.Killable {
				emit(c20Op{Op: "unkill", H: 0})
			}
		default:
			cur = live[rng.Intn(len(live))]
		}
	}
	return p
}

// c20Enumerate calls f with every structurally valid program of exactly
// `length` letters over the alphabet
//
//	a,b  back-off with kind ka / kb on the current handle
//	f,c  fork / clone the current handle and continue on the new one
//	m    merge the current handle into its parent, continue on the parent
//	M    merge the current handle into the root (when the root is not its parent)
//	u    go back to the handle the current one was made from (abandon it)
//	r    Reset the current handle
//
// (every shorter program is a prefix of one of them, and every prefix is judged
// step by step).
//
// The context alphabet ("afcuxXde", used for the second enumeration):
//
//	x,X  end the current handle's own context / the root's context
//	d,e  SetCtx on the current handle: a context that the driver ends with
//	     Err()==DeadlineExceeded (then x ends it) / a real deadline context
//	     that has already expired
func c20Enumerate(length int, alphabet, ka, kb string, proto c20Prog, f func(p *c20Prog)) {
	type st struct {
		s    *c20Shape
		cur  int
		from []int
		ops  []c20Op
	}
	var rec func(x st, depth int)
	rec = func(x st, depth int) {
		if depth == length {
			p := proto
			p.Ops = append([]c20Op(nil), x.ops...)
			f(&p)
			return
		}
		for _, l := range alphabet {
			var o c20Op
			cur := x.cur
			switch l {
			case 'a':
				o = c20Op{Op: "bo", H: cur, K: ka}
			case 'b':
				o = c20Op{Op: "bo", H: cur, K: kb}
			case 'f':
				o = c20Op{Op: "fork", H: cur}
			case 'c':
				o = c20Op{Op: "clone", H: cur}
			case 'm':
				pa := x.s.nodes[cur].parent
				if pa < 0 {
					continue
				}
				o = c20Op{Op: "merge", A: pa, H: cur}
			case 'M':
				if x.s.nodes[cur].parent <= 0 {
					continue
				}
				o = c20Op{Op: "merge", A: 0, H: cur}
			case 'u':
				if x.from[cur] < 0 || !x.s.live(x.from[cur]) || depth == length-1 {
					continue
				}
				rec(st{s: x.s, cur: x.from[cur], from: x.from, ops: x.ops}, depth+1)
				continue
			case 'r':
				o = c20Op{Op: "reset", H: cur}
			case 'x':
				o = c20Op{Op: "cancel", H: cur}
			case 'X':
				o = c20Op{Op: "cancel", H: cur, Up: 99}
			case 'd':
				o = c20Op{Op: "setctx", H: cur, Mode: "deadline"}
			case 'e':
				o = c20Op{Op: "setctx", H: cur, Mode: "expired"}
			}
			if !x.s.valid(o) {
				continue
			}
			ns := x.s.copy()
			created := ns.apply(o)
			nx := st{s: ns, cur: cur, from: x.from, ops: append(append([]c20Op(nil), x.ops...), o)}
			if created >= 0 {
				nx.from = append(append([]int(nil), x.from...), cur)
				nx.cur = created
			}
			if o.Op == "merge" {
				nx.cur = o.A
			}
			rec(nx, depth+1)
		}
	}
	rec(st{s: c20NewShape(proto.RootCtx), cur: 0, from: []int{-1}}, 0)
}
