//go:build verif

package retry

// C20 test drivers (black-box core, see c20_core.go).

import (
	"context"
	"fmt"
	"sync"
	"testing"

	"github.com/pingcap/failpoint"
	"github.com/pingcap/log"
	"github.com/tikv/client-go/v2/kv"
	"github.com/tikv/client-go/v2/util"
	"github.com/tikv/client-go/v2/verifh/vrep"
	"go.uber.org/zap/zapcore"
)

const c20SkipSleepFP = "tikvclient/fastBackoffBySkipSleep"

var c20Once sync.Once

func c20Setup(t *testing.T, virtualSleep bool) {
	c20Once.Do(func() {
		util.EnableFailpoints()
		log.SetLevel(zapcore.FatalLevel) // every exhaustion logs a multi-line warning
	})
	if virtualSleep {
		if err := failpoint.Enable(c20SkipSleepFP, "return"); err != nil {
			t.Fatalf("cannot enable %s: %v", c20SkipSleepFP, err)
		}
	} else {
		failpoint.Disable(c20SkipSleepFP)
	}
}

const c20Rule = "programs of back-off operations (Backoff / BackoffWithCfgAndMaxSleep / BackoffWithMaxSleepTxnLockFast with per-call maxima, kinds of all four jitter forms%s), Clone, Fork, UpdateUsingForked (fork, fork-of-fork and clone-of-fork into an ancestor that did not change since the fork left it), Reset, ResetMaxSleep, context cancellation of any handle, kill/un-kill, over budgets 0..40000(+700000) x weights 1..MaxInt32 x the three constructors; sleeping virtualised by failpoint fastBackoffBySkipSleep; every step judged by a reference accounting fed with the observed sleep: per-kind statistics move with the total; a sleep starts only while budgeted sleep <= budget*weight (=> total <= budget + one step)%s; each sleep <= per-call max, <= cap of the kind, <= min(cap, base*2^(back-offs of that kind so far)); an error without cancel/kill only when the reference budget is used up, and then it is the error of a budgeted kind with the largest accumulated sleep (since creation or since the last Reset; ties and unknown errors accept all); cancelled => error and no sleep recorded; killed => error (a sleep of one regular step during that call is accepted: the statement does not say whether the kill is noticed before or after the step); clone/fork start with the parent's total/per-kind maps; after a merge the ancestor shows the fork's; no operation moves another handle's accounting.  distinct = distinct program shapes (operations, kinds, targets, budget parameters; not the jittered values) among runs that slept and saw an exhaustion, a merge, a cancel hit or a kill hit"

type c20Agg struct {
	programs, nontrivial                                                                          int
	sleeps, zero, cut, exhaust, exhaustMerged, exhaustFork, exhaustExcl, cancelHit, killHit       int
	forks, clones, merges, resets, kindChecks, skipped, violatedPrograms                          int
}

func (a *c20Agg) add(r *vrep.Report, p *c20Prog, st c20Stats) {
	a.programs++
	a.sleeps += st.sleeps
	a.zero += st.zeroSleeps
	a.cut += st.cut
	a.exhaust += st.exhaust
	a.exhaustMerged += st.exhaustMerged
	a.exhaustFork += st.exhaustFork
	a.exhaustExcl += st.exhaustExcl
	a.cancelHit += st.cancelHit
	a.killHit += st.killHit
	a.forks += st.forks
	a.clones += st.clones
	a.merges += st.merges
	a.resets += st.resets
	a.kindChecks += st.kindChecks
	a.skipped += st.skipped
	if st.violated {
		a.violatedPrograms++
	}
	if st.sleeps > 0 && (st.exhaust > 0 || st.merges > 0 || st.cancelHit > 0 || st.killHit > 0) {
		a.nontrivial++
		r.Distinct(p.shapeString())
		if st.exhaustMerged > 0 && st.merges > 0 && r.SampleN() < 3 || st.cancelHit > 0 && st.killHit > 0 && r.SampleN() < 5 {
			tr := st.trace
			if len(tr) > 40 {
				tr = tr[:40]
			}
			r.Sample(map[string]any{"program": p.shapeString(), "trace": tr})
		}
	}
}

func (a *c20Agg) report(r *vrep.Report) {
	r.Count("programs", a.programs)
	r.Count("programs_nontrivial", a.nontrivial)
	r.Count("sleeps", a.sleeps)
	r.Count("zero_sleeps", a.zero)
	r.Count("sleeps_cut_by_percall_max", a.cut)
	r.Count("exhaustions", a.exhaust)
	r.Count("exhaustions_after_merge", a.exhaustMerged)
	r.Count("exhaustions_in_fork", a.exhaustFork)
	r.Count("exhaustions_of_excluded_cap", a.exhaustExcl)
	r.Count("longest_kind_checks", a.kindChecks)
	r.Count("cancel_hits", a.cancelHit)
	r.Count("kill_hits", a.killHit)
	r.Count("forks", a.forks)
	r.Count("clones", a.clones)
	r.Count("merges", a.merges)
	r.Count("resets", a.resets)
	r.Count("ops_skipped_invalid", a.skipped)
	r.Count("programs_stopped_by_violation", a.violatedPrograms)
}

func c20Random(t *testing.T, unit string, wb bool, n int) {
	extra, extra2 := "", ""
	if wb {
		extra = " plus every predefined kind of config.go incl. the kinds excluded from the budget, default and lowered excluded cap"
		extra2 = "; excluded kinds sleep only while their own sleep <= max(cap, budget) (weakest reading: the code keeps them going until both are used up); white-box peeks: excludedSleep / maxSleep of clones, forks and merged ancestors"
	}
	r := vrep.New("C20", unit, fmt.Sprintf(c20Rule, extra, extra2))
	defer r.Finish(t)
	c20Setup(t, true)
	defer failpoint.Disable(c20SkipSleepFP)
	r.Assume("the jitter of the code under test comes from the global math/rand source and is not seeded by the harness: sleep values are judged by bounds, program lists are determined by VERIF_SEED")
	kinds := c20Kinds(wb)
	r.Count("kinds", len(kinds))
	rng := vrep.Rand(unit)
	var agg c20Agg
	for i := 0; i < n; i++ {
		p := c20GenRandom(rng, kinds, wb)
		st := c20Execute(r, p, kinds, wb)
		agg.add(r, p, st)
	}
	agg.report(r)
	r.Floor("exhaustions", 1000)
	r.Floor("exhaustions_after_merge", 200)
	r.Floor("exhaustions_in_fork", 100)
	r.Floor("longest_kind_checks", 500)
	r.Floor("merges", 1000)
	r.Floor("cancel_hits", 100)
	r.Floor("kill_hits", 30)
	r.Floor("sleeps_cut_by_percall_max", 200)
	r.Floor("resets", 100)
	if wb {
		r.Floor("exhaustions_of_excluded_cap", 20)
	}
}

func TestVerifC20CoreRandom(t *testing.T) {
	c20Random(t, "c20-core-random", false, vrep.Pick(8000, 150000))
}

func TestVerifC20CoreExhaustive(t *testing.T) {
	length := vrep.Pick(6, 7)
	r := vrep.New("C20", "c20-core-exhaustive", fmt.Sprintf("every structurally valid program of %d letters over {back-off kind A, back-off kind B, fork, clone, merge into parent, merge into root, abandon (go back to the creator), Reset} with two NoJitter kinds (2..50 ms, 3..48 ms), budgets 3 and 20, weight 1; same oracle as c20-core-random; distinct = distinct non-trivial programs", length))
	defer r.Finish(t)
	c20Setup(t, true)
	defer failpoint.Disable(c20SkipSleepFP)
	kinds := c20Kinds(false)
	var agg c20Agg
	for _, b := range []int{3, 20} {
		c20Enumerate(length, "vNoJit", "vTiny", c20Prog{Ctor: "vars", Budget: b, Weight: 1, LockFast: 2}, func(p *c20Prog) {
			st := c20Execute(r, p, kinds, false)
			agg.add(r, p, st)
		})
	}
	agg.report(r)
	r.SetExhaustive(true)
	r.Floor("exhaustions_after_merge", 100)
	r.Floor("merges", 1000)
}

// ---------------------------------------------------------------- real sleeping, cancellation during the sleep

// c20Ctx hands out a Done channel that gets closed at the closeAt-th call of
// Done(): a cancellation that arrives at an exactly known point of the
// execution, with no timer involved.
type c20Ctx struct {
	context.Context
	mu      sync.Mutex
	calls   int
	closeAt int
	async   bool // close from another goroutine right after the closeAt-th consultation returned
	ch      chan struct{}
	closed  bool
	armed   bool
}

func (c *c20Ctx) Done() <-chan struct{} {
	c.mu.Lock()
	defer c.mu.Unlock()
	c.calls++
	if c.calls >= c.closeAt && !c.closed && !c.armed {
		if c.async {
			c.armed = true
			go func() {
				c.mu.Lock()
				c.closed = true
				close(c.ch)
				c.mu.Unlock()
			}()
		} else {
			c.closed = true
			close(c.ch)
		}
	}
	return c.ch
}

func (c *c20Ctx) Err() error {
	c.mu.Lock()
	defer c.mu.Unlock()
	if c.closed {
		return context.Canceled
	}
	return nil
}

func (c *c20Ctx) isClosed() bool {
	c.mu.Lock()
	defer c.mu.Unlock()
	return c.closed
}

func TestVerifC20CoreRealSleep(t *testing.T) {
	r := vrep.New("C20", "c20-core-realsleep", "real sleeping (failpoint off): a context whose Done channel closes at the k-th consultation (k=1..6: before a back-off call or while it sleeps) or from another goroutine right after consultation 1/3/5 (so the cancellation arrives while the call sleeps however often the code looks at the context), kinds with 300..600 ms steps; oracle: a call that starts after the cancellation returns an error and records nothing; a call during which the cancellation was delivered records no sleep (the sleep is cut by the context), the next call fails; calls before it obey the per-call maximum; decided on recorded milliseconds only, a failing case is repeated three times; distinct = (k, sync/async, kind)")
	defer r.Finish(t)
	c20Setup(t, false)
	r.Assume("real-sleep unit: the context is consulted before or while sleeping, never only after the sleep (anchor: 'cut by per-call maximum and context')")
	slow := NewConfig("vSlow", nil, NewBackoffFnCfg(300, 5000, NoJitter), c20ErrE)
	slowJ := NewConfig("vSlowJ", nil, NewBackoffFnCfg(600, 5000, EqualJitter), c20ErrB)
	one := func(k int, async bool, cfg *Config) (sig, msg string) {
		cctx := &c20Ctx{Context: context.Background(), closeAt: k, async: async, ch: make(chan struct{})}
		bo := NewBackofferWithVars(cctx, 100000, kv.NewVariables(nil))
		target := (k + 1) / 2
		for call := 1; call <= target+1; call++ {
			before := cctx.isClosed()
			t0 := bo.GetTotalSleep()
			pcm := 1 // calls before the target really sleep: 1 ms
			if call >= target {
				pcm = -1
			}
			err := bo.BackoffWithCfgAndMaxSleep(cfg, pcm, fmt.Errorf("raw %d", call))
			d := bo.GetTotalSleep() - t0
			after := cctx.isClosed()
			r.Eval(1)
			switch {
			case before:
				r.Count("calls_after_cancel", 1)
				if err == nil {
					return "cancel:no-error:real", fmt.Sprintf("k=%d call %d started after the cancellation and returned nil", k, call)
				}
				if d != 0 {
					return "cancel:sleep-recorded:real", fmt.Sprintf("k=%d call %d started after the cancellation and recorded %d ms", k, call, d)
				}
				return "", ""
			case after:
				r.Count("cancelled_during_call", 1)
				if d != 0 {
					return "cancel:slept-through:real", fmt.Sprintf("k=%d call %d: the context was cancelled during the call, yet %d ms of sleep were taken and recorded", k, call, d)
				}
			default:
				r.Count("real_sleeps", 1)
				if pcm >= 0 && d > pcm {
					return "sleep:exceeds-percall-max:real", fmt.Sprintf("k=%d call %d slept %d > per-call max %d", k, call, d, pcm)
				}
				if err != nil {
					return "exhaust:premature:real", fmt.Sprintf("k=%d call %d failed with %v after %d ms of 200000", k, call, err, t0)
				}
			}
		}
		return "", ""
	}
	for kk := 1; kk <= 9; kk++ {
		// k = 1..6 synchronous; 7..9: asynchronous close right after consultation #1, #3, #5
		k, async := kk, false
		if kk > 6 {
			k, async = (kk-7)*2+1, true
		}
		for _, cfg := range []*Config{slow, slowJ} {
			fails, sig, msg := 0, "", ""
			for try := 0; try < 3; try++ {
				if s, m := one(k, async, cfg); s != "" {
					fails, sig, msg = fails+1, s, m
				} else {
					break
				}
			}
			switch {
			case fails == 3:
				r.Violate(sig, msg, map[string]any{"k": k, "async": async, "kind": cfg.String()})
			case fails > 0:
				r.Inconc("real-sleep case k=%d kind=%s failed %d of 3 times (%s)", k, cfg, fails, msg)
			}
			r.Distinct(fmt.Sprintf("%d|%v|%s", k, async, cfg))
		}
	}
	r.Floor("cancelled_during_call", 4)
	r.Floor("calls_after_cancel", 6)
}
