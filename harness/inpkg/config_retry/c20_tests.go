//go:build verif

package retry

// C20 test drivers (black-box core, see c20_core.go).

import (
	"context"
	"fmt"
	"sync"
	"testing"
	"time"

	"github.com/pingcap/failpoint"
	"github.com/pingcap/log"
	"github.com/tikv/client-go/v2/kv"
	"github.com/tikv/client-go/v2/util"
	"github.com/tikv/client-go/v2/verifh/vrep"
	"go.uber.org/zap/zapcore"
)

const c20SkipSleepFP = "tikvclient/fastBackoffBySkipSleep"

var c20Once sync.Once

func c20Setup(t *testing.T, virtualSleep bool) {
	c20Once.Do(func() {
		util.EnableFailpoints()
		log.SetLevel(zapcore.FatalLevel) // every exhaustion logs a multi-line warning
	})
	if virtualSleep {
		if err := failpoint.Enable(c20SkipSleepFP, "return"); err != nil {
			t.Fatalf("cannot enable %s: %v", c20SkipSleepFP, err)
		}
	} else {
		failpoint.Disable(c20SkipSleepFP)
	}
}

const c20Rule = "programs of back-off operations (Backoff / BackoffWithCfgAndMaxSleep / BackoffWithMaxSleepTxnLockFast with per-call maxima, kinds of all four jitter forms%s), Clone, Fork, UpdateUsingForked (fork, fork-of-fork and clone-of-fork into an ancestor that did not change since the fork left it), Reset, ResetMaxSleep, contexts of any handle (the root's, a fork's, one installed with SetCtx on a root/clone/fork; own or ancestor) ended by cancel(), by WithCancelCause, the way a deadline ends one (Done closed, Err()==DeadlineExceeded, at a chosen step) or by a real deadline that has already expired, kill/un-kill, over budgets 0..40000(+700000) x weights 1..MaxInt32 x the three constructors; sleeping virtualised by failpoint fastBackoffBySkipSleep; every step judged by a reference accounting fed with the observed sleep: per-kind statistics move with the total; a sleep starts only while budgeted sleep <= budget*weight (=> total <= budget + one step)%s; each sleep <= per-call max, <= cap of the kind, <= min(cap, base*2^(back-offs of that kind so far)); an error without cancel/kill only when the reference budget is used up, and then it is the error of a budgeted kind with the largest accumulated sleep (since creation or since the last Reset; ties and unknown errors accept all); a call made after the driver ended the context (however it ended) => error and no sleep recorded; killed => error (a sleep of one regular step during that call is accepted: the statement does not say whether the kill is noticed before or after the step); clone/fork start with the parent's total/per-kind maps; after a merge the ancestor shows the fork's; no operation moves another handle's accounting.  distinct = distinct program shapes (operations, kinds, targets, budget parameters; not the jittered values) among runs that slept and saw an exhaustion, a merge, a cancel hit or a kill hit"

type c20Agg struct {
	programs, nontrivial                                                                          int
	sleeps, zero, cut, exhaust, exhaustMerged, exhaustFork, exhaustExcl, cancelHit, killHit       int
	forks, clones, merges, resets, kindChecks, skipped, violatedPrograms, setctxs                 int
	endedBy                                                                                       map[string]int
}

func (a *c20Agg) add(r *vrep.Report, p *c20Prog, st c20Stats) {
	a.programs++
	a.sleeps += st.sleeps
	a.zero += st.zeroSleeps
	a.cut += st.cut
	a.exhaust += st.exhaust
	a.exhaustMerged += st.exhaustMerged
	a.exhaustFork += st.exhaustFork
	a.exhaustExcl += st.exhaustExcl
	a.cancelHit += st.cancelHit
	a.killHit += st.killHit
	a.forks += st.forks
	a.clones += st.clones
	a.merges += st.merges
	a.resets += st.resets
	a.kindChecks += st.kindChecks
	a.skipped += st.skipped
	a.setctxs += st.setctxs
	if a.endedBy == nil {
		a.endedBy = map[string]int{}
	}
	for k, v := range st.endedBy {
		a.endedBy[k] += v
	}
	if st.violated {
		a.violatedPrograms++
	}
	if st.sleeps > 0 && (st.exhaust > 0 || st.merges > 0 || st.cancelHit > 0 || st.killHit > 0) {
		a.nontrivial++
		r.Distinct(p.shapeString())
		if st.exhaustMerged > 0 && st.merges > 0 && r.SampleN() < 3 || st.cancelHit > 0 && st.killHit > 0 && r.SampleN() < 5 {
			tr := st.trace
			if len(tr) > 40 {
				tr = tr[:40]
			}
			r.Sample(map[string]any{"program": p.shapeString(), "trace": tr})
		}
	}
}

func (a *c20Agg) report(r *vrep.Report) {
	r.Count("programs", a.programs)
	r.Count("programs_nontrivial", a.nontrivial)
	r.Count("sleeps", a.sleeps)
	r.Count("zero_sleeps", a.zero)
	r.Count("sleeps_cut_by_percall_max", a.cut)
	r.Count("exhaustions", a.exhaust)
	r.Count("exhaustions_after_merge", a.exhaustMerged)
	r.Count("exhaustions_in_fork", a.exhaustFork)
	r.Count("exhaustions_of_excluded_cap", a.exhaustExcl)
	r.Count("longest_kind_checks", a.kindChecks)
	r.Count("cancel_hits", a.cancelHit)
	for _, k := range []string{"cancel", "cause", "deadline", "expired", "own", "ancestor", "on-root", "on-fork", "on-clone"} {
		r.Count("calls_after_ctx_ended:"+k, a.endedBy[k])
	}
	r.Count("setctx", a.setctxs)
	r.Count("kill_hits", a.killHit)
	r.Count("forks", a.forks)
	r.Count("clones", a.clones)
	r.Count("merges", a.merges)
	r.Count("resets", a.resets)
	r.Count("ops_skipped_invalid", a.skipped)
	r.Count("programs_stopped_by_violation", a.violatedPrograms)
}

func c20Random(t *testing.T, unit string, wb bool, n int) {
	extra, extra2 := "", ""
	if wb {
		extra = " plus every predefined kind of config.go incl. the kinds excluded from the budget, default and lowered excluded cap"
		extra2 = "; excluded kinds sleep only while their own sleep <= max(cap, budget) (weakest reading: the code keeps them going until both are used up); white-box peeks: excludedSleep / maxSleep of clones, forks and merged ancestors"
	}
	r := vrep.New("C20", unit, fmt.Sprintf(c20Rule, extra, extra2))
	defer r.Finish(t)
	c20Setup(t, true)
	defer failpoint.Disable(c20SkipSleepFP)
	r.Assume("the jitter of the code under test comes from the global math/rand source and is not seeded by the harness: sleep values are judged by bounds, program lists are determined by VERIF_SEED")
	kinds := c20Kinds(wb)
	r.Count("kinds", len(kinds))
	rng := vrep.Rand(unit)
	var agg c20Agg
	for i := 0; i < n; i++ {
		p := c20GenRandom(rng, kinds, wb)
		st := c20Execute(r, p, kinds, wb)
		agg.add(r, p, st)
	}
	agg.report(r)
	r.Floor("exhaustions", 1000)
	r.Floor("exhaustions_after_merge", 200)
	r.Floor("exhaustions_in_fork", 100)
	r.Floor("longest_kind_checks", 500)
	r.Floor("merges", 1000)
	r.Floor("cancel_hits", 100)
	// counted by the driver's bookkeeping (a call made after it ended the context), not by what the call answered
	for _, k := range []string{"cancel", "cause", "deadline", "expired", "own", "ancestor", "on-root", "on-fork", "on-clone"} {
		r.Floor("calls_after_ctx_ended:"+k, 100)
	}
	r.Floor("kill_hits", 30)
	r.Floor("sleeps_cut_by_percall_max", 200)
	r.Floor("resets", 100)
	if wb {
		r.Floor("exhaustions_of_excluded_cap", 20)
	}
}

func TestVerifC20CoreRandom(t *testing.T) {
	c20Random(t, "c20-core-random", false, vrep.Pick(8000, 150000))
}

func TestVerifC20CoreExhaustive(t *testing.T) {
	length := vrep.Pick(6, 7)
	r := vrep.New("C20", "c20-core-exhaustive", fmt.Sprintf("every structurally valid program of %d letters over {back-off kind A, back-off kind B, fork, clone, merge into parent, merge into root, abandon (go back to the creator), Reset} with two NoJitter kinds (2..50 ms, 3..48 ms), budgets 3 and 20, weight 1, plus every program of one letter less over {back-off, fork, clone, abandon, end own context, end root context, SetCtx(deadline-like), SetCtx(already expired deadline)} with the root context ending by cancel / deadline-like / cancel-cause; same oracle as c20-core-random; distinct = distinct non-trivial programs", length))
	defer r.Finish(t)
	c20Setup(t, true)
	defer failpoint.Disable(c20SkipSleepFP)
	kinds := c20Kinds(false)
	var agg c20Agg
	for _, b := range []int{3, 20} {
		c20Enumerate(length, "abfcmMur", "vNoJit", "vTiny", c20Prog{Ctor: "vars", Budget: b, Weight: 1, LockFast: 2, RootCtx: "cancel"}, func(p *c20Prog) {
			st := c20Execute(r, p, kinds, false)
			agg.add(r, p, st)
		})
	}
	// second enumeration: how and where contexts end
	for _, rootCtx := range []string{"cancel", "deadline", "cause"} {
		c20Enumerate(length-1, "afcuxXde", "vNoJit", "vTiny", c20Prog{Ctor: "vars", Budget: 20, Weight: 1, LockFast: 2, RootCtx: rootCtx}, func(p *c20Prog) {
			st := c20Execute(r, p, kinds, false)
			agg.add(r, p, st)
		})
	}
	agg.report(r)
	r.SetExhaustive(true)
	r.Floor("exhaustions_after_merge", 100)
	r.Floor("merges", 1000)
	for _, k := range []string{"cancel", "cause", "deadline", "expired", "own", "ancestor", "on-root", "on-fork", "on-clone"} {
		r.Floor("calls_after_ctx_ended:"+k, 100)
	}
}

// ---------------------------------------------------------------- real sleeping, contexts ending before / during the sleep

// c20Ctx hands out a Done channel that gets closed at the closeAt-th
// consultation of the context (Done() or Err()): an end that arrives at an
// exactly known point of the execution, with no timer involved.  endErr is what
// Err() reports afterwards (Canceled, or DeadlineExceeded as a deadline would).
type c20Ctx struct {
	context.Context
	mu      sync.Mutex
	calls   int
	closeAt int
	async   bool // close from another goroutine right after the closeAt-th consultation returned
	endErr  error
	ch      chan struct{}
	closed  bool
	armed   bool
}

func (c *c20Ctx) consult() {
	c.calls++
	if c.calls >= c.closeAt && !c.closed && !c.armed {
		if c.async {
			c.armed = true
			go func() {
				c.mu.Lock()
				c.closed = true
				close(c.ch)
				c.mu.Unlock()
			}()
		} else {
			c.closed = true
			close(c.ch)
		}
	}
}

func (c *c20Ctx) Done() <-chan struct{} {
	c.mu.Lock()
	defer c.mu.Unlock()
	c.consult()
	return c.ch
}

func (c *c20Ctx) Err() error {
	c.mu.Lock()
	defer c.mu.Unlock()
	c.consult()
	if c.closed {
		return c.endErr
	}
	return nil
}

func (c *c20Ctx) isClosed() bool {
	c.mu.Lock()
	defer c.mu.Unlock()
	return c.closed
}

func TestVerifC20CoreRealSleep(t *testing.T) {
	r := vrep.New("C20", "c20-core-realsleep", "real sleeping (failpoint off), kinds with 300..600 ms steps.  (A) a context whose Done channel closes at its k-th consultation (k=1..6: before a back-off call or while it sleeps) or from another goroutine right after consultation 1/3/5, reporting Err()==Canceled or ==DeadlineExceeded afterwards; (B) real timer contexts: a deadline that expired before the first call and a 25 ms timeout that fires while the first call sleeps, as the back-offer's own context or as an ancestor of it, called through the root, a clone and a fork.  oracle, the same however the context ended: a call made after the driver saw the context ended returns an error and records nothing; a call during which it ended records no sleep (the sleep is cut by the context); calls before it obey the per-call maximum; decided on recorded milliseconds only, a failing case is repeated three times; distinct = case descriptors")
	defer r.Finish(t)
	c20Setup(t, false)
	r.Assume("real-sleep unit: the context is consulted before or while sleeping, never only after the sleep (anchor: 'cut by per-call maximum and context')")
	slow := NewConfig("vSlow", nil, NewBackoffFnCfg(300, 5000, NoJitter), c20ErrE)
	slowJ := NewConfig("vSlowJ", nil, NewBackoffFnCfg(600, 5000, EqualJitter), c20ErrB)

	// judge one call; ended = the driver saw the context ended before the call
	judge := func(desc string, bo *Backoffer, cfg *Config, pcm int, ended bool, endedNow func() bool) (sig, msg string, stop bool) {
		t0 := bo.GetTotalSleep()
		err := bo.BackoffWithCfgAndMaxSleep(cfg, pcm, fmt.Errorf("raw error of %s", desc))
		d := bo.GetTotalSleep() - t0
		r.Eval(1)
		switch {
		case ended:
			r.Count("calls_after_ctx_ended", 1)
			if err == nil {
				return "cancel:no-error:real", fmt.Sprintf("%s: the call started after the context had ended (ctx.Err()=%v) and returned nil", desc, bo.GetCtx().Err()), true
			}
			if d != 0 {
				return "cancel:sleep-recorded:real", fmt.Sprintf("%s: the call started after the context had ended and recorded %d ms", desc, d), true
			}
			return "", "", true
		case endedNow():
			r.Count("ctx_ended_during_call", 1)
			if d != 0 {
				return "cancel:slept-through:real", fmt.Sprintf("%s: the context ended during the call, yet %d ms of sleep were taken and recorded", desc, d), true
			}
		default:
			r.Count("real_sleeps", 1)
			if pcm >= 0 && d > pcm {
				return "sleep:exceeds-percall-max:real", fmt.Sprintf("%s slept %d > per-call max %d", desc, d, pcm), true
			}
			if err != nil {
				return "exhaust:premature:real", fmt.Sprintf("%s failed with %v after %d ms of 200000", desc, err, t0), true
			}
		}
		return "", "", false
	}
	thrice := func(desc string, one func() (string, string)) {
		fails, sig, msg := 0, "", ""
		for try := 0; try < 3; try++ {
			if s, m := one(); s != "" {
				fails, sig, msg = fails+1, s, m
			} else {
				break
			}
		}
		switch {
		case fails == 3:
			r.Violate(sig, msg, map[string]any{"case": desc})
		case fails > 0:
			r.Inconc("real-sleep case %s failed %d of 3 times (%s)", desc, fails, msg)
		}
		r.Distinct(desc)
	}

	// (A) consultation-counted contexts
	for kk := 1; kk <= 9; kk++ {
		k, async := kk, false
		if kk > 6 {
			k, async = (kk-7)*2+1, true
		}
		for _, endErr := range []error{context.Canceled, context.DeadlineExceeded} {
			for _, cfg := range []*Config{slow, slowJ} {
				desc := fmt.Sprintf("A/k=%d/async=%v/%v/%s", k, async, endErr, cfg)
				thrice(desc, func() (string, string) {
					cctx := &c20Ctx{Context: context.Background(), closeAt: k, async: async, endErr: endErr, ch: make(chan struct{})}
					bo := NewBackofferWithVars(cctx, 100000, kv.NewVariables(nil))
					target := (k + 1) / 2
					for call := 1; call <= 8; call++ {
						pcm := 1 // really sleeps 1 ms; only the call expected to meet the end may sleep long
						if call == target {
							pcm = -1
						}
						sig, msg, stop := judge(fmt.Sprintf("%s call %d", desc, call), bo, cfg, pcm, cctx.isClosed(), cctx.isClosed)
						if stop {
							return sig, msg
						}
					}
					return "", ""
				})
			}
		}
	}
	// (B) real timer contexts
	for _, how := range []string{"expired", "fires-mid-sleep"} {
		for _, where := range []string{"own", "ancestor"} {
			for _, who := range []string{"root", "clone", "fork"} {
				desc := fmt.Sprintf("B/%s/%s/%s", how, where, who)
				thrice(desc, func() (string, string) {
					var tctx context.Context
					var tcancel context.CancelFunc
					if how == "expired" {
						tctx, tcancel = context.WithDeadline(context.Background(), time.Unix(1, 0))
					} else {
						tctx, tcancel = context.WithTimeout(context.Background(), 25*time.Millisecond)
					}
					defer tcancel()
					ctx := tctx
					if where == "ancestor" {
						var c2 context.CancelFunc
						ctx, c2 = context.WithCancel(context.WithValue(tctx, c20CtxKey{}, 1))
						defer c2()
					}
					bo := NewBackofferWithVars(ctx, 100000, kv.NewVariables(nil))
					switch who {
					case "clone":
						bo = bo.Clone()
					case "fork":
						var c3 context.CancelFunc
						bo, c3 = bo.Fork()
						defer c3()
					}
					ended := func() bool { return bo.GetCtx().Err() != nil }
					sig, msg, stop := judge(desc+" call 1", bo, slow, -1, ended(), ended)
					if stop {
						return sig, msg
					}
					<-bo.GetCtx().Done() // barrier: the timer has fired
					sig, msg, _ = judge(desc+" call 2", bo, slow, -1, true, ended)
					return sig, msg
				})
			}
		}
	}
	r.Floor("ctx_ended_during_call", 10)
	r.Floor("calls_after_ctx_ended", 40)
}

type c20CtxKey struct{}
