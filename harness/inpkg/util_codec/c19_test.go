//go:build verif

package codec

// C19 — memory-comparable key and number encodings are order-preserving and
// invertible.  Runtime monitor: the real encoders/decoders are driven with
// exhaustive short inputs over the boundary alphabet, boundary integers and
// seeded random inputs; the oracles are (1) decode∘encode = identity and
// returned suffix = appended suffix, (2) order of encodings = order of values,
// (3) prefix-freeness, (4) malformed input ⇒ error (never panic, never a
// value the bytes do not spell), checked against small independent reference
// decoders.

import (
	"bytes"
	"encoding/binary"
	"encoding/hex"
	"fmt"
	"math"
	"sort"
	"testing"

	"github.com/tikv/client-go/v2/verifh/vrep"
)

var c19Alphabet = []byte{0x00, 0x01, 0x7F, 0x80, 0xFE, 0xFF}

func c19Suffixes() [][]byte {
	return [][]byte{nil, {0x00}, {0xFF}, {0x01, 0x02, 0x03}, {0xFF, 0xFF, 0xFF, 0xFF, 0xFF, 0xFF, 0xFF, 0xFF, 0xFF},
		{0, 0, 0, 0, 0, 0, 0, 0, 0xF7}, {0x08}, {0xF7}, {0xF8, 0x01}}
}

// safely runs f and converts a panic into a violation.
func c19NoPanic(r *vrep.Report, what string, in []byte, f func()) {
	defer func() {
		if p := recover(); p != nil {
			r.Violate("panic:"+what, fmt.Sprintf("%s panicked on input %x: %v", what, in, p), map[string]any{"input": hex.EncodeToString(in)})
		}
	}()
	f()
}

// ---------------------------------------------------------------- bytes

func c19ByteStrings(rng interface{ Intn(int) int }) [][]byte {
	var out [][]byte
	// exhaustive up to length 3 over the boundary alphabet
	var rec func(cur []byte, depth int)
	rec = func(cur []byte, depth int) {
		out = append(out, append([]byte(nil), cur...))
		if depth == 0 {
			return
		}
		for _, c := range c19Alphabet {
			rec(append(cur, c), depth-1)
		}
	}
	rec(nil, 3)
	// lengths 0..26 around multiples of the group size, several fillings
	for l := 0; l <= 26; l++ {
		for _, fill := range []byte{0x00, 0xFF, 0x01, 0x80} {
			out = append(out, bytes.Repeat([]byte{fill}, l))
		}
		for k := 0; k < 6; k++ {
			b := make([]byte, l)
			for i := range b {
				if rng.Intn(3) == 0 {
					b[i] = byte(rng.Intn(256))
				} else {
					b[i] = c19Alphabet[rng.Intn(len(c19Alphabet))]
				}
			}
			out = append(out, b)
		}
	}
	// prefix related families: x, x+00, x+00 00 ..., across the group border
	base := []byte{1, 2, 3, 4, 5, 6, 7}
	for i := 0; i < 12; i++ {
		out = append(out, append(append([]byte(nil), base...), bytes.Repeat([]byte{0}, i)...))
		out = append(out, append(append([]byte(nil), base...), bytes.Repeat([]byte{0xFF}, i)...))
	}
	n := vrep.Pick(300, 20000)
	for k := 0; k < n; k++ {
		l := rng.Intn(40)
		b := make([]byte, l)
		for i := range b {
			b[i] = byte(rng.Intn(256))
		}
		out = append(out, b)
	}
	return out
}

func TestVerifC19Bytes(t *testing.T) {
	r := vrep.New("C19", "c19-bytes", "EncodeBytes/DecodeBytes (+white-box descending form): exhaustive byte strings of length<=3 over {00,01,7F,80,FE,FF}, lengths 0..26 around 8-byte groups, prefix families, random; distinct = distinct (value,suffix) round trips and distinct ordered pairs")
	defer r.Finish(t)
	rng := vrep.Rand("c19-bytes")
	vals := c19ByteStrings(rng)
	r.Count("byte_strings", len(vals))
	encs := make([][]byte, len(vals))
	for i, v := range vals {
		v := v
		// round trip with every suffix, with and without a pre-existing prefix in the destination
		for si, suf := range c19Suffixes() {
			c19NoPanic(r, "EncodeBytes/DecodeBytes", v, func() {
				prefix := []byte{0xAB, 0xCD}
				e := EncodeBytes(append([]byte(nil), prefix...), v)
				if !bytes.HasPrefix(e, prefix) {
					r.Violate("bytes:dest-prefix-lost", fmt.Sprintf("EncodeBytes(dst,%x) did not keep dst", v), nil)
				}
				e = e[len(prefix):]
				if si == 0 {
					encs[i] = append([]byte(nil), e...)
					if len(e) != (len(v)/8+1)*9 {
						r.Violate("bytes:length", fmt.Sprintf("len(EncodeBytes(%x))=%d", v, len(e)), nil)
					}
				}
				in := append(append([]byte(nil), e...), suf...)
				rest, got, err := DecodeBytes(in, nil)
				r.Eval(1)
				if err != nil {
					r.Violate("bytes:roundtrip-error", fmt.Sprintf("DecodeBytes(EncodeBytes(%x)+%x) error %v", v, suf, err), nil)
					return
				}
				if !bytes.Equal(got, v) {
					r.Violate("bytes:roundtrip-value", fmt.Sprintf("DecodeBytes(EncodeBytes(%x)) = %x", v, got), nil)
				}
				if !bytes.Equal(rest, suf) {
					r.Violate("bytes:suffix", fmt.Sprintf("DecodeBytes(EncodeBytes(%x)+%x) left %x", v, suf, rest), nil)
				}
				// with a caller supplied buffer
				buf := make([]byte, 3, 64)
				rest2, got2, err2 := DecodeBytes(in, buf)
				if err2 != nil || !bytes.Equal(got2, v) || !bytes.Equal(rest2, suf) {
					r.Violate("bytes:roundtrip-buf", fmt.Sprintf("DecodeBytes with buffer: (%x,%x,%v) for %x+%x", rest2, got2, err2, v, suf), nil)
				}
				r.Distinct(fmt.Sprintf("rt|%x|%x", v, suf))
			})
		}
		// white-box: descending form = bitwise complement, decoded by decodeBytes(reverse)
		c19NoPanic(r, "decodeBytes(reverse)", v, func() {
			d := EncodeBytes(nil, v)
			reverseBytes(d)
			in := append(append([]byte(nil), d...), 0x11, 0x22)
			rest, got, err := decodeBytes(in, nil, true)
			r.Eval(1)
			if err != nil || !bytes.Equal(got, v) || !bytes.Equal(rest, []byte{0x11, 0x22}) {
				r.Violate("bytes:desc-roundtrip", fmt.Sprintf("descending decode of %x gave (%x,%x,%v)", v, rest, got, err), nil)
			}
			// reverseBytes is an involution and equals the safe version
			a := append([]byte(nil), v...)
			b := append([]byte(nil), v...)
			reverseBytes(a)
			safeReverseBytes(b)
			if !bytes.Equal(a, b) {
				r.Violate("bytes:reverse-mismatch", fmt.Sprintf("reverseBytes(%x)=%x safe=%x", v, a, b), nil)
			}
		})
	}
	// order and prefix-freeness over all pairs of a bounded subset + neighbours after sorting all
	idx := make([]int, len(vals))
	for i := range idx {
		idx[i] = i
	}
	sort.SliceStable(idx, func(a, b int) bool { return bytes.Compare(vals[idx[a]], vals[idx[b]]) < 0 })
	pair := func(i, j int) {
		a, b := vals[i], vals[j]
		ea, eb := encs[i], encs[j]
		if ea == nil || eb == nil {
			return
		}
		r.Eval(1)
		cv, ce := bytes.Compare(a, b), bytes.Compare(ea, eb)
		if sign(cv) != sign(ce) {
			r.Violate("bytes:order", fmt.Sprintf("order(%x,%x)=%d but order of encodings=%d", a, b, cv, ce), nil)
		}
		if cv != 0 && (bytes.HasPrefix(ea, eb) || bytes.HasPrefix(eb, ea)) {
			r.Violate("bytes:prefix", fmt.Sprintf("encoding of %x and %x are prefix related", a, b), nil)
		}
		// concatenated fields compare correctly
		x := append(append([]byte(nil), ea...), 0xFF)
		y := append(append([]byte(nil), eb...), 0x00)
		if cv < 0 && bytes.Compare(x, y) >= 0 || cv > 0 && bytes.Compare(x, y) <= 0 {
			r.Violate("bytes:concat-order", fmt.Sprintf("concatenated compare wrong for %x,%x", a, b), nil)
		}
		if cv != 0 {
			r.Distinct(fmt.Sprintf("ord|%x|%x", a, b))
		}
	}
	for k := 0; k+1 < len(idx); k++ {
		pair(idx[k], idx[k+1])
	}
	nsub := 260 // the exhaustive length<=3 block has 259 strings: all pairs of it
	for i := 0; i < nsub && i < len(vals); i++ {
		for j := i + 1; j < nsub && j < len(vals); j++ {
			pair(i, j)
		}
	}
	np := vrep.Pick(20000, 400000)
	for k := 0; k < np; k++ {
		pair(rng.Intn(len(vals)), rng.Intn(len(vals)))
	}
	// malformed input: every truncation and every single-byte corruption of valid encodings
	nm := 0
	for i, v := range vals {
		if i%vrep.Pick(7, 1) != 0 {
			continue
		}
		e := encs[i]
		for cut := 0; cut < len(e); cut++ {
			in := e[:cut]
			c19NoPanic(r, "DecodeBytes(truncated)", in, func() {
				_, _, err := DecodeBytes(append([]byte(nil), in...), nil)
				r.Eval(1)
				nm++
				if err == nil {
					r.Violate("bytes:truncated-accepted", fmt.Sprintf("DecodeBytes accepted truncated %x (of %x)", in, e), nil)
				}
			})
		}
		for pos := 0; pos < len(e); pos++ {
			for _, delta := range []byte{0x01, 0x80, 0xFF} {
				in := append([]byte(nil), e...)
				in[pos] ^= delta
				c19NoPanic(r, "DecodeBytes(corrupted)", in, func() {
					rest, got, err := DecodeBytes(append([]byte(nil), in...), nil)
					r.Eval(1)
					nm++
					rv, rrest, rerr := refDecodeBytes(in)
					if (err == nil) != (rerr == nil) {
						r.Violate("bytes:malformed-verdict", fmt.Sprintf("DecodeBytes(%x): err=%v, reference err=%v", in, err, rerr), nil)
						return
					}
					if err == nil {
						if !bytes.Equal(got, rv) || !bytes.Equal(rest, rrest) {
							r.Violate("bytes:malformed-value", fmt.Sprintf("DecodeBytes(%x)=(%x,%x) reference (%x,%x)", in, rest, got, rrest, rv), nil)
						}
						// the encoding is canonical: what decodes must re-encode to the consumed bytes
						cons := in[:len(in)-len(rest)]
						if !bytes.Equal(EncodeBytes(nil, got), cons) {
							r.Violate("bytes:non-canonical-accepted", fmt.Sprintf("DecodeBytes accepted %x which is not the encoding of its value %x", cons, got), nil)
						}
					} else {
						r.Count("malformed_rejected", 1)
					}
				})
			}
		}
		_ = v
	}
	// random garbage against the reference decoder
	ng := vrep.Pick(20000, 500000)
	for k := 0; k < ng; k++ {
		l := rng.Intn(30)
		in := make([]byte, l)
		for i := range in {
			switch rng.Intn(4) {
			case 0:
				in[i] = byte(rng.Intn(256))
			case 1:
				in[i] = 0
			default:
				in[i] = byte(0xF7 + rng.Intn(9))
			}
		}
		c19NoPanic(r, "DecodeBytes(garbage)", in, func() {
			rest, got, err := DecodeBytes(append([]byte(nil), in...), nil)
			rv, rrest, rerr := refDecodeBytes(in)
			r.Eval(1)
			if (err == nil) != (rerr == nil) || err == nil && (!bytes.Equal(got, rv) || !bytes.Equal(rest, rrest)) {
				r.Violate("bytes:garbage", fmt.Sprintf("DecodeBytes(%x)=(%x,%x,%v) reference (%x,%x,%v)", in, rest, got, err, rrest, rv, rerr), nil)
			}
			if err == nil {
				r.Count("garbage_accepted", 1)
			}
		})
	}
	r.Count("malformed_inputs", nm)
	r.Sample(map[string]any{"value": "0102030405060708", "encoding": hex.EncodeToString(EncodeBytes(nil, []byte{1, 2, 3, 4, 5, 6, 7, 8}))})
	r.Sample(map[string]any{"value": "", "encoding": hex.EncodeToString(EncodeBytes(nil, nil))})
	r.Floor("malformed_rejected", 100)
}

// refDecodeBytes is the specification of the memcomparable byte format:
// 8 data bytes + marker 0xFF-pad; pad>0 ends the value and the padding must be
// zero; pad>8 is invalid.
func refDecodeBytes(in []byte) (val, rest []byte, err error) {
	val = []byte{}
	for {
		if len(in) < 9 {
			return nil, nil, fmt.Errorf("short")
		}
		pad := int(0xFF - in[8])
		if pad > 8 {
			return nil, nil, fmt.Errorf("marker")
		}
		val = append(val, in[:8-pad]...)
		for _, c := range in[8-pad : 8] {
			if c != 0 {
				return nil, nil, fmt.Errorf("padding")
			}
		}
		in = in[9:]
		if pad != 0 {
			return val, in, nil
		}
	}
}

func sign(x int) int {
	switch {
	case x < 0:
		return -1
	case x > 0:
		return 1
	}
	return 0
}

// ---------------------------------------------------------------- numbers

func c19Ints(rng interface{ Int63() int64 }) []int64 {
	set := map[int64]struct{}{}
	add := func(v int64) { set[v] = struct{}{} }
	for k := 0; k < 64; k++ {
		p := int64(1) << uint(k)
		for _, d := range []int64{-2, -1, 0, 1, 2} {
			add(p + d)
			add(-p + d)
			add(p - 1 + d)
		}
	}
	for _, v := range []int64{0, 1, -1, 239, 240, 241, 247, 248, 255, 256, -255, -256, -257, 0xffff, 0x10000, -0xffff, -0x10000, -0x10001,
		0xffffff, 0x1000000, -0xffffff, -0x1000000, 0xffffffff, 0x100000000, -0xffffffff, -0x100000000,
		0xffffffffff, 0x10000000000, -0xffffffffff, -0x10000000000, 0xffffffffffff, 0x1000000000000, -0xffffffffffff, -0x1000000000000,
		0xffffffffffffff, 0x100000000000000, -0xffffffffffffff, -0x100000000000000, math.MaxInt64, math.MinInt64, math.MaxInt64 - 1, math.MinInt64 + 1,
		63, 64, -64, -65, 8191, 8192, -8192, -8193} {
		add(v)
	}
	for v := int64(-300); v <= 300; v++ {
		add(v)
	}
	n := vrep.Pick(2000, 100000)
	for k := 0; k < n; k++ {
		v := rng.Int63()
		v >>= uint(rng.Int63() % 63)
		if rng.Int63()&1 == 0 {
			v = -v
		}
		add(v)
	}
	out := make([]int64, 0, len(set))
	for v := range set {
		out = append(out, v)
	}
	sort.Slice(out, func(i, j int) bool { return out[i] < out[j] })
	return out
}

type c19IntForm struct {
	name       string
	enc        func([]byte, int64) []byte
	dec        func([]byte) ([]byte, int64, error)
	comparable int // +1 ascending, -1 descending, 0 not comparable
	prefixFree bool
}

type c19UintForm struct {
	name       string
	enc        func([]byte, uint64) []byte
	dec        func([]byte) ([]byte, uint64, error)
	comparable int
	prefixFree bool
}

func TestVerifC19Numbers(t *testing.T) {
	r := vrep.New("C19", "c19-numbers", "all integer forms (Int/IntDesc/Uint/UintDesc/Varint/Uvarint/ComparableVarint/ComparableUvarint, CmpUint): integers at ±2^k±{0,1,2}, tag and byte boundaries, -300..300, random; every suffix; all neighbouring pairs in value order + random pairs; truncations and corruptions vs reference decoders; distinct = distinct (form,value,suffix) and (form,pair)")
	defer r.Finish(t)
	rng := vrep.Rand("c19-numbers")
	ints := c19Ints(rng)
	uints := make([]uint64, 0, len(ints))
	{
		set := map[uint64]struct{}{}
		for _, v := range ints {
			set[uint64(v)] = struct{}{}
			if v >= 0 {
				set[uint64(v)<<1] = struct{}{}
			}
		}
		for v := range set {
			uints = append(uints, v)
		}
		sort.Slice(uints, func(i, j int) bool { return uints[i] < uints[j] })
	}
	r.Count("ints", len(ints))
	r.Count("uints", len(uints))
	iforms := []c19IntForm{
		{"Int", EncodeInt, DecodeInt, +1, true},
		{"IntDesc", EncodeIntDesc, DecodeIntDesc, -1, true},
		{"Varint", EncodeVarint, DecodeVarint, 0, true},
		{"ComparableVarint", EncodeComparableVarint, DecodeComparableVarint, +1, true},
	}
	uforms := []c19UintForm{
		{"Uint", EncodeUint, DecodeUint, +1, true},
		{"UintDesc", EncodeUintDesc, DecodeUintDesc, -1, true},
		{"Uvarint", EncodeUvarint, DecodeUvarint, 0, true},
		{"ComparableUvarint", EncodeComparableUvarint, DecodeComparableUvarint, +1, true},
	}
	sufs := c19Suffixes()
	for _, f := range iforms {
		f := f
		encs := make([][]byte, len(ints))
		for i, v := range ints {
			v := v
			for si, suf := range sufs {
				c19NoPanic(r, f.name, nil, func() {
					prefix := []byte{0x5A}
					e := f.enc(append([]byte(nil), prefix...), v)
					if !bytes.HasPrefix(e, prefix) {
						r.Violate("num:dest-prefix-lost:"+f.name, fmt.Sprintf("%s(dst,%d) lost dst", f.name, v), nil)
						return
					}
					e = e[1:]
					if si == 0 {
						encs[i] = append([]byte(nil), e...)
					}
					in := append(append([]byte(nil), e...), suf...)
					rest, got, err := f.dec(in)
					r.Eval(1)
					if err != nil {
						r.Violate("num:roundtrip-error:"+f.name, fmt.Sprintf("Decode%s(Encode(%d)+%x) error %v", f.name, v, suf, err), nil)
						return
					}
					if got != v {
						r.Violate("num:roundtrip-value:"+f.name, fmt.Sprintf("Decode%s(Encode(%d)) = %d", f.name, v, got), nil)
					}
					if !bytes.Equal(rest, suf) {
						r.Violate("num:suffix:"+f.name, fmt.Sprintf("Decode%s(Encode(%d)=%x + %x) returned suffix %x", f.name, v, e, suf, rest),
							map[string]any{"value": v, "encoding": hex.EncodeToString(e), "suffix": hex.EncodeToString(suf), "returned": hex.EncodeToString(rest)})
					}
					r.Distinct(fmt.Sprintf("rt|%s|%d|%x", f.name, v, suf))
				})
			}
		}
		c19Pairs(r, rng, f.name, f.comparable, len(ints), func(i int) []byte { return encs[i] }, func(i, j int) int {
			switch {
			case ints[i] < ints[j]:
				return -1
			case ints[i] > ints[j]:
				return 1
			}
			return 0
		}, func(i int) string { return fmt.Sprint(ints[i]) })
		// malformed
		for i := range ints {
			if i%vrep.Pick(5, 1) != 0 {
				continue
			}
			e := encs[i]
			for cut := 0; cut < len(e); cut++ {
				in := append([]byte(nil), e[:cut]...)
				c19NoPanic(r, "Decode"+f.name+"(truncated)", in, func() {
					_, _, err := f.dec(in)
					r.Eval(1)
					if err == nil {
						r.Violate("num:truncated-accepted:"+f.name, fmt.Sprintf("Decode%s accepted truncated %x (of %x)", f.name, in, e), nil)
					} else {
						r.Count("malformed_rejected", 1)
					}
				})
			}
			for pos := 0; pos < len(e); pos++ {
				for _, delta := range []byte{0x01, 0x80, 0xFF, 0x0F} {
					in := append([]byte(nil), e...)
					in[pos] ^= delta
					in = append(in, 0x33)
					c19CheckIntAgainstRef(r, f, in)
				}
			}
		}
		ng := vrep.Pick(5000, 200000)
		for k := 0; k < ng; k++ {
			in := make([]byte, rng.Int63()%12)
			for i := range in {
				in[i] = byte(rng.Int63())
			}
			if len(in) > 0 && rng.Int63()%2 == 0 {
				// bias the tag byte of the comparable varints to the multi-byte forms
				in[0] = []byte{0, 1, 2, 3, 4, 5, 6, 7, 8, 0xF7, 0xF8, 0xF9, 0xFA, 0xFB, 0xFC, 0xFD, 0xFE, 0xFF}[rng.Int63()%18]
			}
			c19CheckIntAgainstRef(r, f, in)
		}
	}
	for _, f := range uforms {
		f := f
		encs := make([][]byte, len(uints))
		for i, v := range uints {
			v := v
			for si, suf := range sufs {
				c19NoPanic(r, f.name, nil, func() {
					e := f.enc([]byte{0x5A}, v)
					if len(e) == 0 || e[0] != 0x5A {
						r.Violate("num:dest-prefix-lost:"+f.name, fmt.Sprintf("%s(dst,%d) lost dst", f.name, v), nil)
						return
					}
					e = e[1:]
					if si == 0 {
						encs[i] = append([]byte(nil), e...)
					}
					in := append(append([]byte(nil), e...), suf...)
					rest, got, err := f.dec(in)
					r.Eval(1)
					if err != nil {
						r.Violate("num:roundtrip-error:"+f.name, fmt.Sprintf("Decode%s(Encode(%d)+%x) error %v", f.name, v, suf, err), nil)
						return
					}
					if got != v {
						r.Violate("num:roundtrip-value:"+f.name, fmt.Sprintf("Decode%s(Encode(%d)) = %d", f.name, v, got), nil)
					}
					if !bytes.Equal(rest, suf) {
						r.Violate("num:suffix:"+f.name, fmt.Sprintf("Decode%s(Encode(%d)=%x + %x) returned suffix %x", f.name, v, e, suf, rest), nil)
					}
					r.Distinct(fmt.Sprintf("rt|%s|%d|%x", f.name, v, suf))
				})
			}
		}
		c19Pairs(r, rng, f.name, f.comparable, len(uints), func(i int) []byte { return encs[i] }, func(i, j int) int {
			switch {
			case uints[i] < uints[j]:
				return -1
			case uints[i] > uints[j]:
				return 1
			}
			return 0
		}, func(i int) string { return fmt.Sprint(uints[i]) })
		for i := range uints {
			if i%vrep.Pick(5, 1) != 0 {
				continue
			}
			e := encs[i]
			for cut := 0; cut < len(e); cut++ {
				in := append([]byte(nil), e[:cut]...)
				c19NoPanic(r, "Decode"+f.name+"(truncated)", in, func() {
					_, _, err := f.dec(in)
					r.Eval(1)
					if err == nil {
						r.Violate("num:truncated-accepted:"+f.name, fmt.Sprintf("Decode%s accepted truncated %x (of %x)", f.name, in, e), nil)
					} else {
						r.Count("malformed_rejected", 1)
					}
				})
			}
			for pos := 0; pos < len(e); pos++ {
				for _, delta := range []byte{0x01, 0x80, 0xFF, 0x0F} {
					in := append([]byte(nil), e...)
					in[pos] ^= delta
					in = append(in, 0x33)
					c19CheckUintAgainstRef(r, f, in)
				}
			}
		}
		ng := vrep.Pick(5000, 200000)
		for k := 0; k < ng; k++ {
			in := make([]byte, rng.Int63()%12)
			for i := range in {
				in[i] = byte(rng.Int63())
			}
			if len(in) > 0 && rng.Int63()%2 == 0 {
				in[0] = []byte{0, 1, 7, 8, 0xF7, 0xF8, 0xF9, 0xFA, 0xFB, 0xFC, 0xFD, 0xFE, 0xFF}[rng.Int63()%13]
			}
			c19CheckUintAgainstRef(r, f, in)
		}
	}
	// EncodeIntToCmpUint / DecodeCmpUintToInt: inverse and monotone
	for i, v := range ints {
		u := EncodeIntToCmpUint(v)
		r.Eval(1)
		if DecodeCmpUintToInt(u) != v {
			r.Violate("num:cmpuint-roundtrip", fmt.Sprintf("DecodeCmpUintToInt(EncodeIntToCmpUint(%d)) = %d", v, DecodeCmpUintToInt(u)), nil)
		}
		if i > 0 && !(EncodeIntToCmpUint(ints[i-1]) < u) {
			r.Violate("num:cmpuint-order", fmt.Sprintf("EncodeIntToCmpUint not monotone at %d,%d", ints[i-1], v), nil)
		}
	}
	r.Sample(map[string]any{"form": "ComparableVarint", "value": 5, "encoding": hex.EncodeToString(EncodeComparableVarint(nil, 5)), "suffix_checked": "01 02 03"})
	r.Sample(map[string]any{"form": "ComparableVarint", "value": -256, "encoding": hex.EncodeToString(EncodeComparableVarint(nil, -256))})
	r.Sample(map[string]any{"form": "IntDesc", "value": math.MinInt64, "encoding": hex.EncodeToString(EncodeIntDesc(nil, math.MinInt64))})
	r.Floor("malformed_rejected", 100)
}

func c19Pairs(r *vrep.Report, rng interface{ Int63() int64 }, name string, cmpDir int, n int, enc func(int) []byte, cmp func(i, j int) int, show func(int) string) {
	pair := func(i, j int) {
		ea, eb := enc(i), enc(j)
		if ea == nil || eb == nil || i == j {
			return
		}
		cv := cmp(i, j)
		r.Eval(1)
		if cv != 0 && bytes.Equal(ea, eb) {
			r.Violate("num:collision:"+name, fmt.Sprintf("%s: %s and %s have the same encoding %x", name, show(i), show(j), ea), nil)
		}
		if cmpDir != 0 {
			ce := sign(bytes.Compare(ea, eb))
			if ce != cv*cmpDir {
				r.Violate("num:order:"+name, fmt.Sprintf("%s: order(%s,%s)=%d but encodings %x,%x compare %d", name, show(i), show(j), cv, ea, eb, ce), nil)
			}
		}
		if cv != 0 && (bytes.HasPrefix(ea, eb) || bytes.HasPrefix(eb, ea)) {
			r.Violate("num:prefix:"+name, fmt.Sprintf("%s: encodings of %s (%x) and %s (%x) are prefix related", name, show(i), ea, show(j), eb), nil)
		}
		r.Distinct(fmt.Sprintf("ord|%s|%s|%s", name, show(i), show(j)))
	}
	for i := 0; i+1 < n; i++ { // values are sorted: all neighbours
		pair(i, i+1)
	}
	np := vrep.Pick(30000, 600000)
	for k := 0; k < np; k++ {
		pair(int(rng.Int63()%int64(n)), int(rng.Int63()%int64(n)))
	}
}

// reference decoders (the specification of each wire form)

func refDecodeInt(form string, in []byte) (rest []byte, v int64, err error) {
	switch form {
	case "Int", "IntDesc":
		if len(in) < 8 {
			return nil, 0, fmt.Errorf("short")
		}
		u := binary.BigEndian.Uint64(in)
		if form == "IntDesc" {
			u = ^u
		}
		return in[8:], int64(u ^ (1 << 63)), nil
	case "Varint":
		x, n := binary.Varint(in)
		if n <= 0 {
			return nil, 0, fmt.Errorf("bad varint")
		}
		return in[n:], x, nil
	case "ComparableVarint":
		if len(in) == 0 {
			return nil, 0, fmt.Errorf("short")
		}
		tag := int(in[0])
		switch {
		case tag >= 8 && tag <= 0xF7:
			return in[1:], int64(tag) - 8, nil
		case tag < 8:
			l := 8 - tag
			if len(in) < 1+l {
				return nil, 0, fmt.Errorf("short")
			}
			u := uint64(math.MaxUint64)
			for _, c := range in[1 : 1+l] {
				u = u<<8 | uint64(c)
			}
			if int64(u) >= 0 {
				return nil, 0, fmt.Errorf("negative tag, non-negative value")
			}
			return in[1+l:], int64(u), nil
		default:
			l := tag - 0xF7
			if len(in) < 1+l {
				return nil, 0, fmt.Errorf("short")
			}
			var u uint64
			for _, c := range in[1 : 1+l] {
				u = u<<8 | uint64(c)
			}
			if u > math.MaxInt64 {
				return nil, 0, fmt.Errorf("overflow")
			}
			return in[1+l:], int64(u), nil
		}
	}
	panic("unknown form " + form)
}

func refDecodeUint(form string, in []byte) (rest []byte, v uint64, err error) {
	switch form {
	case "Uint", "UintDesc":
		if len(in) < 8 {
			return nil, 0, fmt.Errorf("short")
		}
		u := binary.BigEndian.Uint64(in)
		if form == "UintDesc" {
			u = ^u
		}
		return in[8:], u, nil
	case "Uvarint":
		x, n := binary.Uvarint(in)
		if n <= 0 {
			return nil, 0, fmt.Errorf("bad uvarint")
		}
		return in[n:], x, nil
	case "ComparableUvarint":
		if len(in) == 0 {
			return nil, 0, fmt.Errorf("short")
		}
		tag := int(in[0])
		switch {
		case tag < 8:
			return nil, 0, fmt.Errorf("negative tag")
		case tag <= 0xF7:
			return in[1:], uint64(tag) - 8, nil
		default:
			l := tag - 0xF7
			if len(in) < 1+l {
				return nil, 0, fmt.Errorf("short")
			}
			var u uint64
			for _, c := range in[1 : 1+l] {
				u = u<<8 | uint64(c)
			}
			return in[1+l:], u, nil
		}
	}
	panic("unknown form " + form)
}

func c19CheckIntAgainstRef(r *vrep.Report, f c19IntForm, in []byte) {
	c19NoPanic(r, "Decode"+f.name+"(malformed)", in, func() {
		rest, got, err := f.dec(append([]byte(nil), in...))
		rrest, rv, rerr := refDecodeInt(f.name, in)
		r.Eval(1)
		if (err == nil) != (rerr == nil) {
			r.Violate("num:malformed-verdict:"+f.name, fmt.Sprintf("Decode%s(%x): err=%v, reference err=%v", f.name, in, err, rerr), nil)
			return
		}
		if err != nil {
			r.Count("malformed_rejected", 1)
			return
		}
		if got != rv || !bytes.Equal(rest, rrest) {
			r.Violate("num:malformed-value:"+f.name, fmt.Sprintf("Decode%s(%x)=(%x,%d) but the bytes spell (%x,%d)", f.name, in, rest, got, rrest, rv), nil)
		}
	})
}

func c19CheckUintAgainstRef(r *vrep.Report, f c19UintForm, in []byte) {
	c19NoPanic(r, "Decode"+f.name+"(malformed)", in, func() {
		rest, got, err := f.dec(append([]byte(nil), in...))
		rrest, rv, rerr := refDecodeUint(f.name, in)
		r.Eval(1)
		if (err == nil) != (rerr == nil) {
			r.Violate("num:malformed-verdict:"+f.name, fmt.Sprintf("Decode%s(%x): err=%v, reference err=%v", f.name, in, err, rerr), nil)
			return
		}
		if err != nil {
			r.Count("malformed_rejected", 1)
			return
		}
		if got != rv || !bytes.Equal(rest, rrest) {
			r.Violate("num:malformed-value:"+f.name, fmt.Sprintf("Decode%s(%x)=(%x,%d) but the bytes spell (%x,%d)", f.name, in, rest, got, rrest, rv), nil)
		}
	})
}
