//go:build verif

package codec

import (
	"bytes"
	"fmt"
	"testing"

	"github.com/tikv/client-go/v2/verifh/vrep"
)

// c19Dirty returns a destination slice of length n whose backing array has spare capacity filled with stale
// non-zero bytes (a buffer that was used for a longer encoding before and re-sliced), with the first n bytes = keep.
func c19Dirty(keep []byte, spare int, fill byte) []byte {
	buf := make([]byte, len(keep)+spare)
	for i := range buf {
		buf[i] = fill
	}
	copy(buf, keep)
	return buf[:len(keep)]
}

// TestVerifC19DirtyDst: an encoder appends to a caller-supplied buffer; what it appends must not depend on what the
// buffer's spare capacity happens to hold, and the bytes already in the buffer must stay.
func TestVerifC19DirtyDst(t *testing.T) {
	r := vrep.New("C19", "c19-dirty-dst", "every Encode* function is called with destination buffers that carry a prefix and spare capacity filled with stale bytes (00/01/7F/AA/FF; spare 0..40), as left by re-using one buffer (buf[:0], buf[:prefix]); the result must be prefix + Encode(nil, v) byte for byte, decode back to v, and a second encoding into the re-sliced result buffer must again be canonical; distinct = distinct (function, value, prefix length, spare, fill)")
	defer r.Finish(t)
	rng := vrep.Rand("c19-dirty")
	type enc struct {
		name string
		f    func(dst []byte, i int) []byte
		n    int
	}
	byteVals := c19ByteStrings(rng)
	ints := c19Ints(rng)
	encs := []enc{
		{"EncodeBytes", func(dst []byte, i int) []byte { return EncodeBytes(dst, byteVals[i]) }, len(byteVals)},
		{"EncodeInt", func(dst []byte, i int) []byte { return EncodeInt(dst, ints[i]) }, len(ints)},
		{"EncodeIntDesc", func(dst []byte, i int) []byte { return EncodeIntDesc(dst, ints[i]) }, len(ints)},
		{"EncodeUint", func(dst []byte, i int) []byte { return EncodeUint(dst, uint64(ints[i])) }, len(ints)},
		{"EncodeUintDesc", func(dst []byte, i int) []byte { return EncodeUintDesc(dst, uint64(ints[i])) }, len(ints)},
		{"EncodeVarint", func(dst []byte, i int) []byte { return EncodeVarint(dst, ints[i]) }, len(ints)},
		{"EncodeUvarint", func(dst []byte, i int) []byte { return EncodeUvarint(dst, uint64(ints[i])) }, len(ints)},
		{"EncodeComparableVarint", func(dst []byte, i int) []byte { return EncodeComparableVarint(dst, ints[i]) }, len(ints)},
		{"EncodeComparableUvarint", func(dst []byte, i int) []byte { return EncodeComparableUvarint(dst, uint64(ints[i])) }, len(ints)},
	}
	prefixes := [][]byte{nil, {}, {0x74}, []byte("t\x80\x00\x00\x00\x00\x00\x00\x01_r"), bytes.Repeat([]byte{0xff}, 9)}
	fills := []byte{0x00, 0x01, 0x7f, 0xaa, 0xff}
	spares := []int{0, 1, 7, 8, 9, 16, 17, 40}
	cap := vrep.Pick(400, 4000)
	for _, e := range encs {
		step := 1
		if e.n > cap {
			step = e.n / cap
		}
		for i := 0; i < e.n; i += step {
			want := e.f(nil, i)
			for pi, p := range prefixes {
				fill := fills[(i+pi)%len(fills)]
				spare := spares[(i/step+pi)%len(spares)]
				c19NoPanic(r, e.name+"/dirty-dst", want, func() {
					dst := c19Dirty(p, spare, fill)
					got := e.f(dst, i)
					r.Eval(1)
					r.Distinct(fmt.Sprintf("%s|%x|%d|%d|%x", e.name, want, len(p), spare, fill))
					if len(got) < len(p) || !bytes.Equal(got[:len(p)], p) {
						r.Violate("dirty-dst:prefix-lost:"+e.name, fmt.Sprintf("%s(dst with %d-byte prefix, spare %d filled %02x): result %x does not start with the prefix %x", e.name, len(p), spare, fill, got, p), nil)
						return
					}
					if !bytes.Equal(got[len(p):], want) {
						r.Violate("dirty-dst:encoding-depends-on-buffer:"+e.name, fmt.Sprintf("%s into a re-used buffer (prefix %d bytes, spare %d bytes of %02x) appended %x, into a nil buffer %x", e.name, len(p), spare, fill, got[len(p):], want), map[string]any{"function": e.name, "nil_dst": fmt.Sprintf("%x", want), "dirty_dst": fmt.Sprintf("%x", got[len(p):]), "spare": spare, "fill": fill})
						return
					}
					// encode a shorter value into the same backing array again (buf = Encode(buf[:0], ..) idiom)
					j := (i + 1) % e.n
					want2 := e.f(nil, j)
					got2 := e.f(got[:len(p)], j)
					if !bytes.Equal(got2[len(p):], want2) {
						r.Violate("dirty-dst:second-use:"+e.name, fmt.Sprintf("%s: after encoding %x into a buffer, encoding into buf[:%d] again appended %x, want %x", e.name, want, len(p), got2[len(p):], want2), nil)
					}
				})
			}
		}
		r.Count("functions", 1)
	}
	r.Floor("functions", 9)
	r.Sample(map[string]any{"function": "EncodeBytes", "dst": "buf[:0] of a buffer holding stale 0xff bytes", "value": "616263", "result": fmt.Sprintf("%x", EncodeBytes(c19Dirty(nil, 16, 0xff), []byte("abc")))})
	r.Sample(map[string]any{"function": "EncodeInt", "dst": "11-byte prefix + 7 spare bytes of 0xaa", "value": -1, "result": fmt.Sprintf("%x", EncodeInt(c19Dirty(prefixes[3], 7, 0xaa), -1))})
}
