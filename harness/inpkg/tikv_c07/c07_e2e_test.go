//go:build verif

package tikv_test

// C07 (unit B) — end to end through KVTxn on the in-process mock store.  A first
// transaction commits the snapshot content of a "world" (single region, or
// split into regions at keys of the universe); every generated program then
// runs in a fresh, never committed transaction through
// txn.Get / BatchGet / Iter / IterReverse / Set / Delete and the membuffer's
// Staging / Release / Cleanup / Checkpoint / RevertToCheckpoint, with the
// snapshot's scan batch size forced down to 2 or 3 so that the snapshot side of
// the union iterator pages (k, k+00 pairs sit on page borders).  verifh/c07m
// compares every read with the map model after every step.

import (
	"bytes"
	"context"
	"math/rand"
	"sort"
	"testing"
	"time"

	"github.com/pingcap/log"
	tikverr "github.com/tikv/client-go/v2/error"
	"github.com/tikv/client-go/v2/kv"
	"github.com/tikv/client-go/v2/testutils"
	"github.com/tikv/client-go/v2/tikv"
	"github.com/tikv/client-go/v2/txnkv/transaction"
	"github.com/tikv/client-go/v2/verifh/c07m"
	"github.com/tikv/client-go/v2/verifh/vrep"
	"go.uber.org/zap"
)

type c07TxnSUT struct {
	txn *transaction.KVTxn
	r   *vrep.Report
	n   int
}

// Lock: alternately a real pessimistic LockKeys (RPC to the mock store; the buffer gets a flags-only entry for
// the key) and the flag set directly on the buffer.  Lock acquisition itself is not C07's business: when the
// RPC fails the flag is set on the buffer instead and the event is counted.
func (s *c07TxnSUT) Lock(k []byte, persistent bool) error {
	if !persistent {
		s.txn.GetMemBuffer().UpdateFlags(k, kv.SetPresumeKeyNotExists)
		return nil
	}
	s.n++
	if s.n%3 != 0 {
		lockCtx := kv.NewLockCtx(s.txn.StartTS(), kv.LockNoWait, time.Now())
		if err := s.txn.LockKeys(context.Background(), lockCtx, k); err == nil {
			s.r.Count("lockkeys_rpc_ok", 1)
			return nil
		}
		s.r.Count("lockkeys_rpc_failed", 1)
	}
	s.txn.GetMemBuffer().UpdateFlags(k, kv.SetKeyLocked)
	return nil
}

func (s *c07TxnSUT) SetLocked(k, v []byte) error {
	if err := s.Lock(k, true); err != nil {
		return err
	}
	return s.txn.Set(k, v)
}

func (s *c07TxnSUT) Get(k []byte) ([]byte, bool, error) {
	e, err := s.txn.Get(context.Background(), k)
	if tikverr.IsErrNotFound(err) {
		return nil, false, nil
	}
	if err != nil {
		return nil, false, err
	}
	return e.Value, true, nil
}

func (s *c07TxnSUT) BatchGet(keys [][]byte) (map[string][]byte, error) {
	m, err := s.txn.BatchGet(context.Background(), keys)
	if err != nil {
		return nil, err
	}
	out := make(map[string][]byte, len(m))
	for k, e := range m {
		out[k] = e.Value
	}
	return out, nil
}

func (s *c07TxnSUT) Iter(k, upper []byte) (c07m.Iterator, error) {
	it, err := s.txn.Iter(k, upper)
	if err != nil {
		return nil, err
	}
	return it, nil
}

func (s *c07TxnSUT) IterReverse(k, lower []byte) (c07m.Iterator, error) {
	it, err := s.txn.IterReverse(k, lower)
	if err != nil {
		return nil, err
	}
	return it, nil
}

func (s *c07TxnSUT) Set(k, v []byte) error { return s.txn.Set(k, v) }
func (s *c07TxnSUT) Delete(k []byte) error { return s.txn.Delete(k) }
func (s *c07TxnSUT) Staging() int          { return s.txn.GetMemBuffer().Staging() }
func (s *c07TxnSUT) Release(h int)         { s.txn.GetMemBuffer().Release(h) }
func (s *c07TxnSUT) Cleanup(h int)         { s.txn.GetMemBuffer().Cleanup(h) }
func (s *c07TxnSUT) Checkpoint() any       { return s.txn.GetMemBuffer().Checkpoint() }
func (s *c07TxnSUT) Revert(cp any) {
	s.txn.GetMemBuffer().RevertToCheckpoint(cp.(*tikv.MemDBCheckpoint))
}
func (s *c07TxnSUT) Close() { _ = s.txn.Rollback() }

type c07TxnWorld struct {
	store *tikv.KVStore
	r     *vrep.Report
}

func (w *c07TxnWorld) NewSUT(rng *rand.Rand) (c07m.SUT, error) {
	txn, err := w.store.Begin()
	if err != nil {
		return nil, err
	}
	// 0 and 1 mean "default" (256) inside the scanner
	txn.GetSnapshot().SetScanBatchSize([]int{2, 2, 3, 0}[rng.Intn(4)])
	txn.SetPessimistic(true)
	return &c07TxnSUT{txn: txn, r: w.r}, nil
}

func (w *c07TxnWorld) Close() { _ = w.store.Close() }

func c07TxnFactory(r *vrep.Report) c07m.WorldFactory {
	return func(snap map[string][]byte, uni [][]byte, rng *rand.Rand) (c07m.World, error) {
		client, cluster, pdClient, err := testutils.NewMockTiKV("", nil)
		if err != nil {
			return nil, err
		}
		// region layout: one region, or split at one to three keys around the universe
		var splits [][]byte
		if rng.Intn(3) > 0 {
			seen := map[string]bool{}
			for n := 1 + rng.Intn(3); n > 0; n-- {
				k := append([]byte(nil), uni[rng.Intn(len(uni))]...)
				if rng.Intn(2) == 0 {
					k = append(k, 0)
				}
				if !seen[string(k)] {
					seen[string(k)] = true
					splits = append(splits, k)
				}
			}
			sort.Slice(splits, func(i, j int) bool { return bytes.Compare(splits[i], splits[j]) < 0 })
		}
		if len(splits) > 0 {
			testutils.BootstrapWithMultiRegions(cluster, splits...)
			r.Count("worlds_multi_region", 1)
		} else {
			testutils.BootstrapWithSingleStore(cluster)
		}
		store, err := tikv.NewTestTiKVStore(client, pdClient, nil, nil, 0)
		if err != nil {
			return nil, err
		}
		if len(snap) > 0 {
			txn, err := store.Begin()
			if err != nil {
				store.Close()
				return nil, err
			}
			for k, v := range snap {
				if err := txn.Set([]byte(k), v); err != nil {
					store.Close()
					return nil, err
				}
			}
			if err := txn.Commit(context.Background()); err != nil {
				store.Close()
				return nil, err
			}
		}
		return &c07TxnWorld{store: store, r: r}, nil
	}
}

func TestVerifC07KVTxn(t *testing.T) {
	log.ReplaceGlobals(zap.NewNop(), nil)
	r := vrep.New("C07", "c07-kvtxn", "every KVTxn read (Get / BatchGet / Iter / IterReverse with bounds) equals the map model's merged view of committed snapshot + buffered writes after every step, "+
		"snapshot scans paged by 2-3 keys and crossing region borders; distinct = distinct (read, bounds, expected result, hidden/shadowed/dangling counts) where the read had to merge buffer entries with snapshot keys")
	defer r.Finish(t)
	cfg := c07m.Config{Name: "kvtxn", Stream: "c07-kvtxn", Worlds: vrep.Pick(40, 600), SeqsPerWorld: vrep.Pick(8, 10), Ops: 30}
	c07m.RunRandom(r, cfg, c07TxnFactory(r))
	r.Floor("iter_tombstone_hides_snapshot_key", 50)
	r.Floor("iter_buffer_shadows_snapshot_key", 50)
	r.Floor("iter_tombstone_without_snapshot_key", 50)
	r.Floor("batchget_merging_both_sources", 20)
	r.Floor("cleanup_changed_view", 10)
	r.Floor("revert_changed_view", 10)
	r.Floor("worlds_multi_region", 3)
	r.Floor("iter_ends_on_flags_only_entry", 30)
	r.Floor("iter_reverse_ends_on_flags_only_entry", 10)
	r.Floor("lockkeys_rpc_ok", 50)
	r.Floor("sequences", vrep.Pick(300, 5000))
}
